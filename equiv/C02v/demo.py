"""Differential demo for refactoring v (C BTree_maxminKey / Bucket_maxminKey).

Run as:  PYTHONPATH=<tree>/src /venv/bin/python demo.py

Covers minKey / maxKey of the C BTree, TreeSet, Bucket and Set classes:

  1. seeded random insert/delete histories over several families (32 and 64
     bit, signed and unsigned, object keys) with tiny node sizes; at every
     checkpoint minKey(b)/maxKey(b) of the tree and of every leaf are
     compared, for every b of a dense domain (present keys, gaps, below/above
     everything), None and no argument, against a sorted-list model (value,
     or ValueError with the exact message: 'empty tree', 'empty bucket',
     'no key satisfies the conditions').  The histories include leaves whose
     smallest keys were removed behind the tree's back (stale separators);
  2. the Python classes are put through the same battery on a subset (they
     validate the model);
  3. standalone buckets and sets of various sizes, including empty ones;
  4. identity and reference count of the returned object (the C classes hand
     back a new reference to the *stored* key);
  5. error paths: wrong number of arguments, bounds that cannot be converted
     (type and message), comparisons that raise (each comparison position in
     turn; nothing may be compared afterwards), node activations that raise
     (ghost nodes + stand-in jar; each activation position in turn, for the
     bounded searches and for the unbounded first-leaf / last-leaf walks);
     after every call no node may be left sticky, and at the end no node's
     reference count may have moved;
  6. persistence effects: which nodes are activated, in which order, by every
     query on an all-ghost tree, and how many comparisons every query makes,
     are folded into a digest that is compared with the value recorded on the
     unmodified tree (EXPECTED_DIGEST); no query registers a node as changed.

Exit status 0 means everything matched.
"""
import gc
import hashlib
import importlib
import random
import sys

EXPECTED_DIGEST = (
    '10980d8d550aef195a6aaaab40eed1eb'
    '63cf4acdf9c82d35ee8eac62f5fd6a8e')

FAILURES = []
DIGEST = hashlib.sha256()


def note(*parts):
    DIGEST.update(repr(parts).encode('utf-8'))


def check(cond, *what):
    if not cond:
        FAILURES.append(what)
        if len(FAILURES) <= 25:
            print("MISMATCH:", *what)


def model_minkey(ks, b):
    for k in ks:
        if k >= b:
            return k
    return None


def model_maxkey(ks, b):
    for k in reversed(ks):
        if k <= b:
            return k
    return None


_subclass_cache = {}


def small(family, kind, py, leaf, internal):
    ident = (family, kind, py, leaf, internal)
    if ident in _subclass_cache:
        return _subclass_cache[ident]
    mod = importlib.import_module('BTrees.%sBTree' % family)
    base = getattr(mod, family + kind + ('Py' if py else ''))
    cls = type('Small_%s%s%s_%d_%d' % (family, kind, 'Py' if py else '',
                                       leaf, internal),
               (base,), {'max_leaf_size': leaf, 'max_internal_size': internal})
    _subclass_cache[ident] = cls
    return cls


def value_for(family, k):
    v = family[1]
    if v == 'O':
        return ('v', k)
    if v == 'F':
        return k * 0.5
    return (k * 7) % 1000


def nodes_of(tree):
    out = []
    ttype = type(tree)

    def walk(node):
        out.append(node)
        if type(node) is not ttype:
            return
        state = node.__getstate__()
        if state is None:
            return
        if len(state) == 1:       # single leaf stored inline
            out.append(node._firstbucket)
            return
        for child in state[0][0::2]:
            walk(child)
    walk(tree)
    return out


def separators_of(tree):
    out = []
    ttype = type(tree)

    def walk(node):
        if type(node) is not ttype:
            return
        state = node.__getstate__()
        if state is None or len(state) == 1:
            return
        data = state[0]
        deep = type(data[0]) is ttype
        for sep in data[1::2]:
            out.append((deep, sep))
        for child in data[0::2]:
            walk(child)
    walk(tree)
    return out


def behead_leaves(tree, model, is_map):
    """Remove the smallest key of every leaf holding more than one key
    through the leaf itself, so that the separators above are not adjusted
    (the shape older releases left behind after deletions)."""
    for node in nodes_of(tree):
        if type(node) is not type(tree) and len(node) > 1:
            first = node.minKey()
            if is_map:
                del node[first]
            else:
                node.remove(first)
            del model[first]


def call(f, *a, **kw):
    try:
        return ('ok', f(*a, **kw))
    except Exception as e:   # noqa
        return ('exc', type(e), str(e))


def expect(got, want, empty_msg, label, *what):
    if want is None:
        check(got == ('exc', ValueError, empty_msg), label, *(what + (got,)))
    else:
        check(got == ('ok', want), label, *(what + (got, want)))


def battery(tree, ks, domain, label, every_node):
    ttype = type(tree)
    targets = [(tree, ks, 'tree')]
    if every_node:
        # the leaves are buckets / sets in their own right (interior nodes
        # are not trees in their own right: their last leaf is chained to a
        # leaf outside of them)
        for i, node in enumerate(nodes_of(tree)[1:]):
            if type(node) is not ttype:
                targets.append((node, list(node.keys()), 'leaf%d' % i))
    for node, nks, what in targets:
        is_tree = type(node) is ttype
        none_msg = 'empty tree' if is_tree else 'empty bucket'
        for b in domain:
            msg = ('no key satisfies the conditions' if nks or not is_tree
                   else 'empty tree')
            expect(call(node.minKey, b), model_minkey(nks, b), msg,
                   label, what, 'minKey', b)
            expect(call(node.maxKey, b), model_maxkey(nks, b), msg,
                   label, what, 'maxKey', b)
        if nks:
            for args in ((), (None,)):
                check(call(node.minKey, *args) == ('ok', nks[0]),
                      label, what, 'minKey', args)
                check(call(node.maxKey, *args) == ('ok', nks[-1]),
                      label, what, 'maxKey', args)
        elif is_tree:
            for args in ((), (None,)):
                check(call(node.minKey, *args) ==
                      ('exc', ValueError, none_msg), label, what, 'minKey()')
                check(call(node.maxKey, *args) ==
                      ('exc', ValueError, none_msg), label, what, 'maxKey()')


STALE = {}


def history(family, kind, py, leaf, internal, seed, offset, nkeys):
    rng = random.Random(seed)
    cls = small(family, kind, py, leaf, internal)
    label = '%s seed=%d' % (cls.__name__, seed)
    is_map = kind == 'BTree'
    tree = cls()
    universe = [offset + 2 + 2 * i for i in range(nkeys)]
    domain = list(range(offset, offset + 2 * nkeys + 5))
    model = {}

    def put(k):
        v = value_for(family, k)
        if is_map:
            tree[k] = v
        else:
            tree.add(k)
        model[k] = v

    def drop(k):
        if is_map:
            del tree[k]
        else:
            tree.remove(k)
        del model[k]

    def verify(phase, every_node=True):
        ks = sorted(model)
        check(list(tree.keys()) == ks, label, phase, 'content')
        tree._check()
        nodes = [] if py else nodes_of(tree)
        gc.collect()
        before = [sys.getrefcount(n) for n in nodes]
        battery(tree, ks, domain, label + ' ' + phase, every_node)
        gc.collect()
        check(before == [sys.getrefcount(n) for n in nodes],
              label, phase, 'refcounts moved')
        del nodes
        for deep, sep in separators_of(tree):
            if sep not in model:
                key = (py, 'above nodes' if deep else 'above leaves')
                STALE[key] = STALE.get(key, 0) + 1

    verify('empty')
    order = list(universe)
    rng.shuffle(order)
    for k in order:
        put(k)
    verify('filled')
    rng.shuffle(order)
    cut = len(order) - max(3, len(order) // 5)
    for k in order[:cut // 2]:
        drop(k)
    verify('half thinned')
    for k in order[cut // 2:cut]:
        drop(k)
    verify('thinned')
    for k in sorted(model)[1:-1]:
        drop(k)
    verify('two keys left')
    for k in universe[len(universe) // 2:]:
        if k not in model:
            put(k)
    verify('regrown')
    behead_leaves(tree, model, is_map)
    verify('leaf heads removed')
    behead_leaves(tree, model, is_map)
    verify('leaf heads removed twice')
    for k in sorted(model)[::3]:
        drop(k)
    verify('thinned again')
    for k in sorted(model):
        drop(k)
    verify('emptied')


# --------------------------------------------------------------------------
# standalone buckets and sets
# --------------------------------------------------------------------------

def standalone():
    rng = random.Random(5)
    for family in ('II', 'OO', 'LF', 'UU', 'QO', 'OL'):
        mod = importlib.import_module('BTrees.%sBTree' % family)
        for kind in ('Bucket', 'Set'):
            for py in (True, False):
                cls = getattr(mod, family + kind + ('Py' if py else ''))
                for n in (0, 1, 2, 3, 7, 20):
                    ks = sorted(rng.sample(range(3, 60), n))
                    if kind == 'Bucket':
                        node = cls([(k, value_for(family, k)) for k in ks])
                    else:
                        node = cls(ks)
                    label = '%s n=%d' % (cls.__name__, n)
                    for b in range(0, 63):
                        # (an empty C bucket says 'empty bucket' even when
                        # given a bound; an empty Python one does not)
                        msg = ('no key satisfies the conditions'
                               if ks or py else 'empty bucket')
                        expect(call(node.minKey, b), model_minkey(ks, b),
                               msg, label, 'minKey', b)
                        expect(call(node.maxKey, b), model_maxkey(ks, b),
                               msg, label, 'maxKey', b)
                    for args in ((), (None,)):
                        lo = call(node.minKey, *args)
                        hi = call(node.maxKey, *args)
                        if ks:
                            check(lo == ('ok', ks[0]), label, 'minKey', args)
                            check(hi == ('ok', ks[-1]), label, 'maxKey', args)
                        elif py:
                            # current behaviour of the Python classes (the C
                            # classes raise ValueError('empty bucket'))
                            check(lo[:2] == ('exc', IndexError), label, lo)
                            check(hi[:2] == ('exc', IndexError), label, hi)
                        else:
                            check(lo == ('exc', ValueError, 'empty bucket'),
                                  label, lo)
                            check(hi == ('exc', ValueError, 'empty bucket'),
                                  label, hi)


# --------------------------------------------------------------------------
# bounds that cannot be converted
# --------------------------------------------------------------------------

class Plain:
    """Instances have the default comparison: not acceptable as O keys."""


def bad_bounds():
    for family, bads in (
            ('II', ['x', 1.5, 2 ** 40, -2 ** 40, 2 ** 70, ()]),
            ('LO', ['x', 1.5, 2 ** 70, -2 ** 70, ()]),
            ('UU', ['x', 1.5, -1, 2 ** 40, 2 ** 70]),
            ('QF', ['x', 1.5, -1, 2 ** 70]),
            ('OO', [object(), Plain(), 'x', ()])):
        mod = importlib.import_module('BTrees.%sBTree' % family)
        for kind in ('BTree', 'TreeSet', 'Bucket', 'Set'):
            if kind in ('BTree', 'TreeSet'):
                cls = small(family, kind, False, 2, 2)
            else:
                cls = getattr(mod, family + kind)
            node = cls()
            for k in range(3, 40, 2):
                if kind in ('BTree', 'Bucket'):
                    node[k] = value_for(family, k)
                else:
                    node.add(k)
            nodes = nodes_of(node) if kind in ('BTree', 'TreeSet') else [node]
            gc.collect()
            before = [sys.getrefcount(n) for n in nodes]
            for bad in bads:
                for name in ('minKey', 'maxKey'):
                    got = call(getattr(node, name), bad)
                    check(got[0] == 'exc' and got[1] is TypeError,
                          cls.__name__, 'bad bound', bad, got)
                    if family != 'OO':
                        note('bad', cls.__name__, name, repr(bad), got[2])
            for name in ('minKey', 'maxKey'):
                got = call(getattr(node, name), 1, 2)
                check(got[0] == 'exc' and got[1] is TypeError,
                      cls.__name__, 'two arguments', got)
                note('args', cls.__name__, name, got[2])
                got = call(getattr(node, name), key=1)
                check(got[0] == 'exc' and got[1] is TypeError,
                      cls.__name__, 'keyword argument', got)
            gc.collect()
            check(before == [sys.getrefcount(n) for n in nodes],
                  cls.__name__, 'bad bounds moved refcounts')
            check(node.minKey(4) == 5 and node.maxKey(4) == 3,
                  cls.__name__, 'alive')
            # an empty container reports emptiness before it looks at the
            # bound
            empty = cls()
            msg = 'empty tree' if kind in ('BTree', 'TreeSet') \
                else 'empty bucket'
            for bad in bads[:2] + [5, None]:
                for name in ('minKey', 'maxKey'):
                    got = call(getattr(empty, name), bad)
                    check(got == ('exc', ValueError, msg),
                          cls.__name__, 'empty, bad bound', bad, got)
            for name in ('minKey', 'maxKey'):
                got = call(getattr(empty, name))
                check(got == ('exc', ValueError, msg), cls.__name__,
                      'empty', got)


# --------------------------------------------------------------------------
# comparisons that raise; identity of the result
# --------------------------------------------------------------------------

class Boom(Exception):
    pass


class Fuse:
    countdown = None
    calls = 0

    @classmethod
    def tick(cls):
        cls.calls += 1
        if cls.countdown is not None:
            cls.countdown -= 1
            if cls.countdown <= 0:
                cls.countdown = None
                raise Boom('comparison %d' % cls.calls)


class K:
    __slots__ = ('n',)

    def __init__(self, n):
        self.n = n

    def __lt__(self, other):
        Fuse.tick()
        return self.n < other.n

    def __gt__(self, other):
        Fuse.tick()
        return self.n > other.n

    def __le__(self, other):
        Fuse.tick()
        return self.n <= other.n

    def __ge__(self, other):
        Fuse.tick()
        return self.n >= other.n

    def __eq__(self, other):
        Fuse.tick()
        return isinstance(other, K) and self.n == other.n

    def __ne__(self, other):
        Fuse.tick()
        return not (isinstance(other, K) and self.n == other.n)

    def __hash__(self):
        return hash(self.n)

    def __repr__(self):
        return 'K(%d)' % self.n


def failing_comparisons():
    rng = random.Random(20240503)
    mod = importlib.import_module('BTrees.OOBTree')
    for kind in ('BTree', 'TreeSet', 'Bucket', 'Set'):
        for leaf, internal in ((2, 2), (3, 2)):
            if kind in ('BTree', 'TreeSet'):
                cls = small('OO', kind, False, leaf, internal)
            elif leaf == 2:
                cls = getattr(mod, 'OO' + kind)
            else:
                continue
            is_map = kind in ('BTree', 'Bucket')
            node = cls()
            stored = {n: K(n) for n in range(2, 70, 2)}
            order = list(stored)
            rng.shuffle(order)
            for n in order:
                if is_map:
                    node[stored[n]] = n
                else:
                    node.add(stored[n])
            rng.shuffle(order)
            for n in order[:len(order) // 3]:
                if is_map:
                    del node[stored[n]]
                else:
                    node.remove(stored[n])
                del stored[n]
            if kind in ('BTree', 'TreeSet'):
                byk = {k: k.n for k in stored.values()}
                behead_leaves(node, byk, is_map)
                stored = {n: k for n, k in stored.items() if k in byk}
                del byk
                check(any(sep.n not in stored
                          for deep, sep in separators_of(node) if deep),
                      cls.__name__, 'no stale separator high up')
                nodes = nodes_of(node)
            else:
                nodes = [node]
            ks = sorted(stored)
            gc.collect()
            before = [sys.getrefcount(n) for n in nodes]
            kbefore = [sys.getrefcount(stored[n]) for n in ks]
            nfail = 0
            for n in range(0, 73):
                nfail += fail_each_comparison(cls, node, nodes, ks, stored, n)
            gc.collect()
            check(before == [sys.getrefcount(n) for n in nodes],
                  cls.__name__, 'failing comparisons moved node refcounts')
            check(kbefore == [sys.getrefcount(stored[n]) for n in ks],
                  cls.__name__, 'failing comparisons moved key refcounts')
            check(nfail > 500, cls.__name__, 'too few failures', nfail)
            check([k.n for k in node.keys()] == ks, cls.__name__, 'alive')


def fail_each_comparison(cls, node, nodes, ks, stored, n):
    p = K(n)
    nfail = 0
    for name, want in (('minKey', model_minkey(ks, n)),
                       ('maxKey', model_maxkey(ks, n))):
        meth = getattr(node, name)
        Fuse.countdown = None
        Fuse.calls = 0
        got = call(meth, p)
        total = Fuse.calls
        note('cmp', cls.__name__, name, n, total)
        if want is None:
            check(got == ('exc', ValueError,
                          'no key satisfies the conditions'),
                  cls.__name__, name, n, got)
        else:
            # a new reference to the stored key, never the argument
            check(got[0] == 'ok' and got[1] is stored[want],
                  cls.__name__, name, n, got, want)
            rc = sys.getrefcount(stored[want])
            again = meth(p)
            check(sys.getrefcount(stored[want]) == rc + 1,
                  cls.__name__, name, n, 'result is not a new reference')
            del again
            check(sys.getrefcount(stored[want]) == rc,
                  cls.__name__, name, n, 'reference count drifts')
        del got
        for nth in range(1, total + 1):
            Fuse.countdown = nth
            Fuse.calls = 0
            got = call(meth, p)
            check(got[0] == 'exc' and got[1] is Boom,
                  cls.__name__, name, n, 'fail at', nth, got)
            check(Fuse.calls == nth, cls.__name__, name, n,
                  'comparisons after the failure', Fuse.calls)
            # (no jar: a node that is still pinned shows as sticky)
            check(all(x._p_state == UPTODATE for x in nodes), cls.__name__,
                  name, n, 'fail at', nth, 'node left sticky')
            nfail += 1
        Fuse.countdown = None
    check(sys.getrefcount(p) == 2, cls.__name__, n,
          'the bound is still referenced', sys.getrefcount(p))
    return nfail


# --------------------------------------------------------------------------
# ghosts: activation order, activations that raise, no node gets changed
# --------------------------------------------------------------------------

class Jar:
    def __init__(self):
        self.states = {}
        self.calls = 0
        self.fail_at = None
        self.loaded = []
        self.registered = []

    def adopt(self, nodes):
        for i, node in enumerate(nodes):
            node._p_jar = self
            node._p_oid = b'%08d' % i
        for node in nodes:
            self.states[node._p_oid] = node.__getstate__()

    def setstate(self, obj):
        self.calls += 1
        if self.fail_at is not None and self.calls == self.fail_at:
            raise Boom('activation %d' % self.calls)
        self.loaded.append(int(obj._p_oid))
        obj.__setstate__(self.states[obj._p_oid])

    def readCurrent(self, obj):
        pass

    def register(self, obj):
        self.registered.append(int(obj._p_oid))


GHOST, UPTODATE = -1, 0


def ghostify(nodes):
    for node in nodes:
        node._p_deactivate()      # refused by a node left sticky
    return all(node._p_state == GHOST for node in nodes)


def fail_each_activation(cls, jar, nodes, obj, name, b, want, empty_msg):
    # every node is a ghost here; looking up the method activates obj, so
    # that is done inside the guarded call as well
    if b == 'no argument':
        def query():
            return getattr(obj, name)()
    else:
        def query():
            return getattr(obj, name)(b)
    jar.fail_at = None
    jar.calls = 0
    jar.loaded = []
    got = call(query)
    total = jar.calls
    note('load', cls.__name__, name, b, jar.loaded)
    expect(got, want, empty_msg, cls.__name__, name, b)
    check(all(n._p_state in (GHOST, UPTODATE) for n in nodes),
          cls.__name__, name, b, 'node left sticky or changed')
    check(ghostify(nodes), cls.__name__, 'cannot re-ghostify')
    for nth in range(1, total + 1):
        jar.fail_at = nth
        jar.calls = 0
        jar.loaded = []
        got = call(query)
        check(got[0] == 'exc' and got[1] is Boom,
              cls.__name__, name, b, 'fail at', nth, got)
        check(jar.calls == nth, cls.__name__, name, b,
              'activations after the failure', jar.calls, nth)
        states = [n._p_state for n in nodes]
        check(all(st in (GHOST, UPTODATE) for st in states),
              cls.__name__, name, b, 'fail at', nth,
              'node left sticky or changed', states)
        check(ghostify(nodes), cls.__name__, 'cannot re-ghostify')
    jar.fail_at = None
    return total


def ghosts():
    rng = random.Random(79)
    for family, kind, leaf, internal in (
            ('II', 'BTree', 2, 2), ('OO', 'BTree', 2, 3),
            ('LL', 'TreeSet', 2, 2), ('OO', 'TreeSet', 3, 2),
            ('UF', 'BTree', 3, 3), ('QQ', 'TreeSet', 2, 4)):
        cls = small(family, kind, False, leaf, internal)
        is_map = kind == 'BTree'
        tree = cls()
        universe = list(range(4, 100, 3))
        rng.shuffle(universe)
        model = {}
        for k in universe:
            model[k] = value_for(family, k)
            if is_map:
                tree[k] = model[k]
            else:
                tree.add(k)
        rng.shuffle(universe)
        for k in universe[:len(universe) // 2]:
            del model[k]
            if is_map:
                del tree[k]
            else:
                tree.remove(k)
        behead_leaves(tree, model, is_map)
        ks = sorted(model)
        check(any(sep not in model for deep, sep in separators_of(tree)
                  if deep), cls.__name__, 'no stale separator high up')
        nodes = nodes_of(tree)
        check(len(nodes) > 8, cls.__name__, 'tree too small', len(nodes))
        jar = Jar()
        jar.adopt(nodes)
        check(ghostify(nodes), cls.__name__, 'cannot ghostify')
        gc.collect()
        base = [sys.getrefcount(n) for n in nodes]
        nfail = 0
        for b in list(range(0, 104)) + [None, 'no argument']:
            for name in ('minKey', 'maxKey'):
                if b is None or b == 'no argument':
                    want = ks[0] if name == 'minKey' else ks[-1]
                elif name == 'minKey':
                    want = model_minkey(ks, b)
                else:
                    want = model_maxkey(ks, b)
                nfail += fail_each_activation(
                    cls, jar, nodes, tree, name, b, want,
                    'no key satisfies the conditions')
        # the leaves on their own
        leaves = [n for n in nodes if type(n) is not cls]
        for i in (0, len(leaves) // 2, len(leaves) - 1):
            leaf_node = leaves[i]
            lks = list(leaf_node.keys())
            check(ghostify(nodes), cls.__name__, 'cannot re-ghostify')
            for b in list(range(0, 104, 1)) + [None, 'no argument']:
                for name in ('minKey', 'maxKey'):
                    if b is None or b == 'no argument':
                        want = lks[0] if name == 'minKey' else lks[-1]
                    elif name == 'minKey':
                        want = model_minkey(lks, b)
                    else:
                        want = model_maxkey(lks, b)
                    nfail += fail_each_activation(
                        cls, jar, nodes, leaf_node, name, b, want,
                        'no key satisfies the conditions')
        del leaves, leaf_node
        check(ghostify(nodes), cls.__name__, 'cannot re-ghostify')
        gc.collect()
        check(base == [sys.getrefcount(n) for n in nodes],
              cls.__name__, 'activations moved refcounts')
        check(not jar.registered, cls.__name__, 'a query registered a node',
              jar.registered[:5])
        check(nfail > 300, cls.__name__, 'too few failures', nfail)
        check(list(tree.keys()) == ks, cls.__name__, 'alive')


# --------------------------------------------------------------------------

def main():
    runs = 0
    plan = [('II', -30), ('OO', -7), ('LO', -2 ** 40), ('UU', 0),
            ('QF', 2 ** 40), ('OL', 0), ('IF', 2 ** 31 - 200),
            ('QQ', 2 ** 63 - 200), ('LL', -2 ** 63 + 3)]
    sizes = [(2, 2), (3, 2), (2, 3), (4, 3)]
    seed = 3000
    for fi, (family, offset) in enumerate(plan):
        for kind in ('BTree', 'TreeSet'):
            for si, (leaf, internal) in enumerate(sizes):
                seed += 1
                nkeys = 30 if (fi + si) % 2 else 42
                history(family, kind, False, leaf, internal, seed, offset,
                        nkeys)
                runs += 1
                if (fi + si) % 4 == 0:
                    history(family, kind, True, leaf, internal, seed,
                            offset, nkeys)
                    runs += 1
    for where in ('above leaves', 'above nodes'):
        check(STALE.get((False, where), 0) > 50,
              'too few stale separators', where, STALE)
    standalone()
    bad_bounds()
    failing_comparisons()
    ghosts()
    digest = DIGEST.hexdigest()
    check(digest == EXPECTED_DIGEST,
          'digest of comparison counts / activation orders / messages',
          digest, 'expected', EXPECTED_DIGEST)
    if FAILURES:
        print('%d mismatches' % len(FAILURES))
        return 1
    print('ok: %d histories, stale separators %r, digest %s'
          % (runs, sorted(STALE.items()), digest[:16]))
    return 0


if __name__ == '__main__':
    sys.exit(main())
