"""Differential demo for property C07 (leaf conflict resolution is an exact
three-way merge or a refusal).

Run as:   PYTHONPATH=<tree>/src /venv/bin/python demo.py

The program compares, for Buckets, Sets and one-leaf BTrees/TreeSets of the
C and the pure-Python implementation, the outcome of
``cls()._p_resolveConflict(old, committed, new)`` with a key-wise model of the
three-way merge written below (``model_merge``): the merged state when the
merge is allowed, otherwise the exact BTreesConflictError arguments
``(p1, p2, p3, reason)``.  It also pins (by digest) the exact sequence of key
and value comparisons, the outcome of every injected comparison failure and
the reference counts of keys, values and states, so that a refactoring that
changes evaluation order, error handling or reference counting is noticed.

Exit status 0 means: everything is as specified.
"""
import gc
import hashlib
import itertools
import random
import sys
import time

import BTrees
from BTrees.Interfaces import BTreesConflictError

FOCUS = 'v'      # 't': C merge walk, 'u': C state unwrapping, 'v': Python merge walk
SEED = 20260930
T0 = time.time()
FAILURES = []


def check(cond, *what):
    if not cond:
        FAILURES.append(what)
        print('FAIL:', *what)
        if len(FAILURES) > 20:
            print('too many failures')
            sys.exit(1)


# --------------------------------------------------------------------------
# families and their key / value universes (listed in increasing key order)
# --------------------------------------------------------------------------
KEYS = {
    'I': [-2 ** 31, -7, -1, 0, 3, 2 ** 31 - 1],
    'L': [-2 ** 63, -2 ** 40, -1, 0, 5, 2 ** 63 - 1],
    'U': [0, 1, 5, 9, 2 ** 31, 2 ** 32 - 1],
    'Q': [0, 1, 7, 2 ** 40, 2 ** 63, 2 ** 64 - 1],
    'O': [None, -5, 0, 2, 10 ** 30, 10 ** 31],
    'f': [b'\x00\x00', b'aa', b'ab', b'b\x00', b'zz', b'\xff\xff'],
}
VALUES = {
    'I': [-2 ** 31, 0, 7],
    'L': [-2 ** 63, 0, 2 ** 63 - 1],
    'U': [0, 1, 2 ** 32 - 1],
    'Q': [0, 2 ** 40, 2 ** 64 - 1],
    'O': ['x', 'y', 'z'],
    'F': [-2.25, 0.0, 1.5],
    's': [b'\x00' * 6, b'abcdef', b'\xff' * 6],
}


def family_module(name):
    return getattr(BTrees, name + 'BTree')


def family_universe(name):
    if name == 'fs':
        return KEYS['f'], VALUES['s']
    return KEYS[name[0]], VALUES[name[1]]


ALL_FAMILIES = list(BTrees._FAMILIES)
assert len(ALL_FAMILIES) == 22, ALL_FAMILIES


# --------------------------------------------------------------------------
# the model: a key-wise description of the three-way merge
# --------------------------------------------------------------------------
# A leaf state is modelled as a dict {key index: value index} (value index is
# 0 for sets).  The walk looks at the keys of the union in increasing order.
# For each key the outcome depends only on which of the three states contain
# the key, on the values, and on which states still have a key >= the current
# one ("live").  Positions are 1-based cursor positions, -1 when exhausted.

def _position(sorted_keys, k):
    below = 0
    for x in sorted_keys:
        if x < k:
            below += 1
    return below + 1 if below < len(sorted_keys) else -1


def _cursor_key(sorted_keys, k):
    for x in sorted_keys:
        if x >= k:
            return x
    return None


def model_merge(O, C, N, mapping):
    """Return ('ok', [(k, v), ...]) or ('conflict', (p1, p2, p3, reason))."""
    if not C or not N:
        return ('conflict', (-1, -1, -1, 12))
    ko, kc, kn = sorted(O), sorted(C), sorted(N)
    out = []
    for k in sorted(set(ko) | set(kc) | set(kn)):
        pO, pC, pN = _position(ko, k), _position(kc, k), _position(kn, k)
        liveO, liveC, liveN = pO > 0, pC > 0, pN > 0
        inO, inC, inN = k in O, k in C, k in N

        def refuse(reason):
            return ('conflict', (pO, pC, pN, reason))

        def same(A, B):
            return (not mapping) or A[k] == B[k]

        if liveO and liveC and liveN:
            if inO and inC and inN:
                if same(O, C):
                    out.append((k, N[k]))
                elif same(O, N):
                    out.append((k, C[k]))
                else:
                    return refuse(1)
            elif inO and inC:           # removed by new
                if not same(O, C):
                    return refuse(2)
                if pN == 1:
                    return refuse(13)
            elif inO and inN:           # removed by committed
                if not same(O, N):
                    return refuse(3)
                if pC == 1:
                    return refuse(13)
            elif inC and inN:           # both added it
                return refuse(4)
            elif inO:                   # both removed it
                if _cursor_key(kc, k) == _cursor_key(kn, k):
                    return refuse(4)
                return refuse(5)
            elif inC:
                out.append((k, C[k]))
            else:
                out.append((k, N[k]))
        elif liveC and liveN:           # original exhausted
            if inC and inN:
                return refuse(6)
            out.append((k, C[k]) if inC else (k, N[k]))
        elif liveO and liveC:           # new exhausted
            if inC and not inO:
                out.append((k, C[k]))
            elif inC and inO and same(O, C):
                pass
            else:
                return refuse(7)
        elif liveO and liveN:           # committed exhausted
            if inN and not inO:
                out.append((k, N[k]))
            elif inN and inO and same(O, N):
                pass
            else:
                return refuse(8)
        elif liveO:
            return refuse(9)
        elif liveC:
            out.append((k, C[k]))
        else:
            out.append((k, N[k]))
    if not out:
        return ('conflict', (-1, -1, -1, 10))
    return ('ok', out)


def model_resolve(O, C, N, mapping, nexts=(None, None, None)):
    """O, C, N may be None (no state).  nexts: the three successor links."""
    nO, nC, nN = nexts
    if nC is not nO or nN is not nO:
        return ('conflict', (-1, -1, -1, 0))
    return model_merge(O or {}, C or {}, N or {}, mapping)


# --------------------------------------------------------------------------
# building real states from model states, running the real thing
# --------------------------------------------------------------------------
def make_state(m, keys, values, mapping, nxt=None):
    if m is None:
        return None
    data = []
    for k in sorted(m):
        data.append(keys[k])
        if mapping:
            data.append(values[m[k]])
    data = tuple(data)
    return (data, nxt) if nxt is not None else (data,)


def expected_outcome(model_result, keys, values, mapping, nxt=None, tree=False):
    kind, payload = model_result
    if kind == 'conflict':
        return ('conflict', payload)
    state = make_state(dict(payload), keys, values, mapping, nxt)
    if tree:
        state = ((state,),)
    return ('ok', state)


def run(cls, old, com, new):
    obj = cls()
    try:
        res = obj._p_resolveConflict(old, com, new)
    except BTreesConflictError as e:
        check(e.args[3] == e.reason, 'reason attribute', cls, e.args, e.reason)
        return ('conflict', e.args)
    except Exception as e:
        return ('exc', type(e).__name__, str(e))
    return ('ok', res)


def typed_equal(a, b):
    """Equality that also distinguishes 1 / 1.0 / True and tuple nesting."""
    if type(a) is not type(b):
        return False
    if isinstance(a, tuple):
        return len(a) == len(b) and all(typed_equal(x, y) for x, y in zip(a, b))
    if isinstance(a, float):
        return repr(a) == repr(b)
    return a == b if not hasattr(a, '_p_oid') else a is b


def wrap(s):
    return None if s is None else ((s,),)


# --------------------------------------------------------------------------
# generators of model states
# --------------------------------------------------------------------------
def all_states(nkeys, nvalues):
    """All mappings over nkeys keys and nvalues values (plus None)."""
    states = [None]
    for choice in itertools.product(range(-1, nvalues), repeat=nkeys):
        states.append({k: v for k, v in enumerate(choice) if v >= 0})
    return states


def random_state(rng, nkeys, nvalues, mapping):
    if rng.random() < 0.04:
        return None
    return {k: (rng.randrange(nvalues) if mapping else 0)
            for k in range(nkeys) if rng.random() < 0.55}


def edited(rng, base, nkeys, nvalues, mapping):
    m = dict(base or {})
    for _ in range(rng.choice((0, 1, 1, 1, 2, 2, 3))):
        k = rng.randrange(nkeys)
        r = rng.random()
        if k in m and r < 0.45:
            del m[k]
        elif mapping and k in m:
            m[k] = rng.randrange(nvalues)
        else:
            m[k] = rng.randrange(nvalues) if mapping else 0
    if not m and rng.random() < 0.1:
        return None
    return m


def random_triple(rng, nkeys, nvalues, mapping):
    old = random_state(rng, nkeys, nvalues, mapping)
    if rng.random() < 0.8:
        return (old, edited(rng, old, nkeys, nvalues, mapping),
                edited(rng, old, nkeys, nvalues, mapping))
    return (old, random_state(rng, nkeys, nvalues, mapping),
            random_state(rng, nkeys, nvalues, mapping))


REASONS_SEEN = {}


def note(tag, model_result):
    kind, payload = model_result
    code = 'ok' if kind == 'ok' else payload[3]
    REASONS_SEEN.setdefault(tag, set()).add(code)


# --------------------------------------------------------------------------
# section 1: exhaustive small universe, OO family, C and Python
# --------------------------------------------------------------------------
def section_exhaustive(impls):
    mod = family_module('OO')
    keys, values = KEYS['O'][1:], VALUES['O']
    n = 0
    for mapping, nkeys, nvalues in ((True, 3, 2), (False, 4, 1)):
        states = all_states(nkeys, nvalues)
        classes = []
        for suffix in impls:
            leaf = getattr(mod, ('Bucket' if mapping else 'Set') + suffix)
            tree = getattr(mod, ('BTree' if mapping else 'TreeSet') + suffix)
            classes.append((leaf, tree))
        real = [make_state(s, keys, values, mapping) for s in states]
        for i, O in enumerate(states):
            for j, C in enumerate(states):
                for k, N in enumerate(states):
                    mres = model_resolve(O, C, N, mapping)
                    note('exhaustive', mres)
                    exp = expected_outcome(mres, keys, values, mapping)
                    for leaf, tree in classes:
                        got = run(leaf, real[i], real[j], real[k])
                        n += 1
                        if not (got[0] == exp[0] and typed_equal(got[1], exp[1])):
                            check(False, 'exhaustive', leaf.__name__, O, C, N,
                                  'expected', exp, 'got', got)
                    # the one-leaf tree wrapper, on a slice of the space
                    if (i + 2 * j + 3 * k) % 7 == 0:
                        expt = expected_outcome(mres, keys, values, mapping,
                                                tree=True)
                        for leaf, tree in classes:
                            got = run(tree, wrap(real[i]), wrap(real[j]),
                                      wrap(real[k]))
                            n += 1
                            if not (got[0] == expt[0]
                                    and typed_equal(got[1], expt[1])):
                                check(False, 'exhaustive tree', tree.__name__,
                                      O, C, N, 'expected', expt, 'got', got)
    return n


# --------------------------------------------------------------------------
# section 2: randomized, all 22 families
# --------------------------------------------------------------------------
def section_random(impls, per_family, seed):
    rng = random.Random(seed)
    n = 0
    for fam in ALL_FAMILIES:
        mod = family_module(fam)
        keys, values = family_universe(fam)
        nkeys, nvalues = len(keys), len(values)
        for mapping in (True, False):
            leafs = [getattr(mod, ('Bucket' if mapping else 'Set') + s)
                     for s in impls]
            trees = [getattr(mod, ('BTree' if mapping else 'TreeSet') + s)
                     for s in impls]
            # successor links: real (empty) leaves of the right type
            links = {}
            for cls in leafs:
                links[cls] = (None, cls(), cls())
            for t in range(per_family):
                O, C, N = random_triple(rng, nkeys, nvalues, mapping)
                # mostly equal links, sometimes different
                r = rng.random()
                if r < 0.55:
                    li = (0, 0, 0)
                elif r < 0.85:
                    li = (1, 1, 1)
                else:
                    li = (rng.randrange(3), rng.randrange(3), rng.randrange(3))
                if O is None and li[0]:
                    li = (0, li[1], li[2])
                if C is None and li[1]:
                    li = (li[0], 0, li[2])
                if N is None and li[2]:
                    li = (li[0], li[1], 0)
                use_tree = li == (0, 0, 0) and rng.random() < 0.3
                for cls, tcls in zip(leafs, trees):
                    lk = links[cls]
                    nexts = tuple(lk[x] for x in li)
                    mres = model_resolve(O, C, N, mapping, nexts)
                    note('random', mres)
                    exp = expected_outcome(mres, keys, values, mapping,
                                           nexts[0], tree=use_tree)
                    so = make_state(O, keys, values, mapping, nexts[0])
                    sc = make_state(C, keys, values, mapping, nexts[1])
                    sn = make_state(N, keys, values, mapping, nexts[2])
                    if use_tree:
                        got = run(tcls, wrap(so), wrap(sc), wrap(sn))
                    else:
                        got = run(cls, so, sc, sn)
                    n += 1
                    if not (got[0] == exp[0] and typed_equal(got[1], exp[1])):
                        check(False, 'random', fam, cls.__name__, O, C, N, li,
                              'expected', exp, 'got', got)
    return n


# --------------------------------------------------------------------------
# section 3: comparison traces, failure injection and reference counts (OO)
# --------------------------------------------------------------------------
class Boom(Exception):
    pass


class Probe:
    """Totally ordered object that logs every rich comparison."""
    __slots__ = ('tag', 'n')
    log = []
    count = 0
    fail_at = None

    def __init__(self, tag, n):
        self.tag = tag
        self.n = n

    def _tick(self, op, other):
        Probe.count += 1
        Probe.log.append((self.tag, self.n, op,
                          getattr(other, 'tag', '?'), getattr(other, 'n', '?')))
        if Probe.count == Probe.fail_at:
            raise Boom(Probe.count)

    def __lt__(self, other):
        self._tick('<', other)
        return self.n < other.n

    def __gt__(self, other):
        self._tick('>', other)
        return self.n > other.n

    def __le__(self, other):
        self._tick('<=', other)
        return self.n <= other.n

    def __ge__(self, other):
        self._tick('>=', other)
        return self.n >= other.n

    def __eq__(self, other):
        self._tick('==', other)
        return isinstance(other, Probe) and self.n == other.n

    def __ne__(self, other):
        self._tick('!=', other)
        return not (isinstance(other, Probe) and self.n == other.n)

    def __hash__(self):
        return hash(self.n)

    def __repr__(self):
        return '%s%d' % (self.tag, self.n)


def reset_probe(fail_at=None):
    Probe.log = []
    Probe.count = 0
    Probe.fail_at = fail_at


# Scenarios chosen so that, between them, every branch of the walk and each
# of the tail loops is entered (model states: key index -> value index).
TRACE_SCENARIOS = [
    # (name, old, com, new)
    ('all-same-then-tails', {0: 0, 1: 0, 2: 0}, {0: 0, 1: 1, 2: 0, 4: 0},
     {0: 1, 1: 0, 2: 0, 5: 1}),
    ('value-conflict', {0: 0, 1: 0}, {0: 0, 1: 1}, {0: 0, 1: 2}),
    ('insert-new-mid', {0: 0, 3: 0}, {0: 0, 3: 0}, {0: 0, 1: 1, 2: 1, 3: 0}),
    ('insert-com-mid', {0: 0, 3: 0}, {0: 0, 1: 2, 3: 0}, {0: 0, 3: 1}),
    ('insert-both-mid', {0: 0, 5: 0}, {0: 0, 1: 1, 3: 1, 5: 0},
     {0: 0, 2: 2, 4: 2, 5: 0}),
    ('delete-in-new', {0: 0, 1: 0, 2: 0}, {0: 0, 1: 0, 2: 0}, {0: 0, 2: 0}),
    ('delete-in-com', {0: 0, 1: 0, 2: 0}, {0: 0, 2: 0}, {0: 0, 1: 0, 2: 1}),
    ('delete-first-new', {0: 0, 1: 0}, {0: 0, 1: 0}, {1: 0}),
    ('delete-first-com', {0: 0, 1: 0}, {1: 0}, {0: 0, 1: 0}),
    ('delete-vs-change-2', {0: 0, 1: 0, 2: 0}, {0: 0, 1: 1, 2: 0}, {0: 0, 2: 0}),
    ('delete-vs-change-3', {0: 0, 1: 0, 2: 0}, {0: 0, 2: 0}, {0: 0, 1: 1, 2: 0}),
    ('duel-insert-4', {0: 0, 3: 0}, {0: 0, 1: 0, 3: 0}, {0: 0, 1: 0, 3: 0}),
    ('duel-delete-4', {0: 0, 1: 0, 3: 0}, {0: 0, 3: 0}, {0: 0, 3: 0}),
    ('duel-delete-5', {0: 0, 1: 0, 4: 0}, {0: 0, 2: 0, 4: 0}, {0: 0, 3: 0, 4: 0}),
    ('tail-duel-insert-6', {0: 0}, {0: 0, 1: 0, 3: 0}, {0: 0, 2: 0, 3: 0}),
    ('tail-inserts', {0: 0}, {0: 0, 1: 0, 3: 0}, {0: 0, 2: 1, 4: 1, 5: 1}),
    ('tail-new-deletes', {0: 0, 2: 0, 4: 0}, {0: 0, 1: 1, 2: 0, 3: 1, 4: 0, 5: 1},
     {0: 0}),
    ('tail-new-deletes-7', {0: 0, 2: 0, 4: 0}, {0: 0, 2: 1, 4: 0}, {0: 0}),
    ('tail-new-deletes-7b', {0: 0, 2: 0, 4: 0}, {0: 0, 4: 0}, {0: 0}),
    ('tail-com-deletes', {0: 0, 2: 0, 4: 0}, {0: 0},
     {0: 0, 1: 1, 2: 0, 3: 1, 4: 0, 5: 1}),
    ('tail-com-deletes-8', {0: 0, 2: 0, 4: 0}, {0: 0}, {0: 0, 2: 0, 4: 2}),
    ('tail-com-deletes-8b', {0: 0, 2: 0, 4: 0}, {0: 0}, {0: 0, 4: 0}),
    ('tail-duel-delete-9', {0: 0, 1: 0, 2: 0}, {0: 0, 1: 0}, {0: 0}),
    ('orig-empty', {}, {1: 0, 3: 0}, {0: 0, 2: 0}),
    ('com-empty-12', {0: 0}, {}, {0: 0, 1: 0}),
    ('new-empty-12', {0: 0}, {0: 0}, {}),
]


def digest(obj):
    return hashlib.sha1(repr(obj).encode()).hexdigest()[:16]


def section_traces(suffix, wrap_in_tree=False, inject=True, fam='OO'):
    """Returns a structure describing everything observable; the caller
    compares its digest with the golden one.  fam is 'OO' (keys and values
    are probes), 'IO' (values are probes) or 'OI' (keys are probes)."""
    mod = family_module(fam)
    observed = []
    for mapping in (True, False):
        leaf = getattr(mod, ('Bucket' if mapping else 'Set') + suffix)
        tree = getattr(mod, ('BTree' if mapping else 'TreeSet') + suffix)
        cls = tree if wrap_in_tree else leaf
        for name, O, C, N in TRACE_SCENARIOS:
            # equal but distinct key / value objects in the three states;
            # the tag tells where an object of the result came from
            kk = [[Probe('k' + o, i) for i in range(6)] for o in 'OCN']
            vv = [[Probe('v' + o, i) for i in range(3)] for o in 'OCN']
            if fam[0] != 'O':
                kk = [[-3, -1, 0, 4, 5, 9] for o in 'OCN']
            if fam[1] != 'O':
                vv = [[-1, 0, 7] for o in 'OCN']
            keys, values = kk[0], vv[0]
            so = make_state(O, kk[0], vv[0], mapping)
            sc = make_state(C, kk[1], vv[1], mapping)
            sn = make_state(N, kk[2], vv[2], mapping)
            if wrap_in_tree:
                so, sc, sn = wrap(so), wrap(sc), wrap(sn)
            objs = sum(kk, []) + sum(vv, []) + [so, sc, sn, so[0], sc[0], sn[0]]
            if wrap_in_tree:
                objs += [so[0][0], sc[0][0], sn[0][0]]
            gc.collect()
            before = [sys.getrefcount(o) for o in objs]
            reset_probe()
            got = run(cls, so, sc, sn)
            total = Probe.count
            log = Probe.log
            reset_probe()
            # the model says what the outcome must be
            mres = model_resolve(O, C, N, mapping)
            exp = expected_outcome(mres, keys, values, mapping,
                                   tree=wrap_in_tree)
            ok = got[0] == exp[0]
            flat_g = flat_e = None
            if ok and got[0] == 'ok':
                # identity of the merged keys / values
                flat_g = got[1][0][0][0] if wrap_in_tree else got[1][0]
                flat_e = exp[1][0][0][0] if wrap_in_tree else exp[1][0]
                ok = (len(flat_g) == len(flat_e)
                      and all((a.n == b.n and a.tag[0] == b.tag[0])
                              if isinstance(a, Probe) else typed_equal(a, b)
                              for a, b in zip(flat_g, flat_e))
                      and (len(got[1]) == 1))
            elif ok:
                ok = got[1] == exp[1]
            check(ok, 'trace outcome', cls.__name__, name, 'expected', exp,
                  'got', got)
            observed.append((mapping, name, 'log', log))
            shown = (got[0], got[1]) if got[0] != 'ok' else ('ok', repr(got[1]))
            observed.append((mapping, name, 'outcome', shown))
            del got, exp, mres, flat_g, flat_e, shown
            gc.collect()
            after = [sys.getrefcount(o) for o in objs]
            check(before == after, 'refcounts after', cls.__name__, name,
                  before, after)
            if not inject:
                continue
            # every comparison fails in turn
            for n in range(1, total + 1):
                if suffix == '' and log[n - 1][0].startswith('v'):
                    # The C code does not notice a failed *value*
                    # comparison (see the TODO in bucket_merge): it goes on
                    # with the exception pending, and what happens next is
                    # not even reproducible from run to run.  Not pinned.
                    continue
                reset_probe(fail_at=n)
                got = run(cls, so, sc, sn)
                sig = got if got[0] != 'ok' else ('ok', repr(got[1]))
                observed.append((mapping, name, 'fail', n, Probe.count, sig))
                reset_probe()
                del got, sig
                gc.collect()
                after = [sys.getrefcount(o) for o in objs]
                check(before == after, 'refcounts after failure', n,
                      cls.__name__, name, before, after)
    return observed


# --------------------------------------------------------------------------
# section 4: state unwrapping (trees), malformed shapes, call order
# --------------------------------------------------------------------------
MSG_TOP = "_p_resolveConflict: expected tuple or None for state"
MSG_12 = "_p_resolveConflict: expected 1- or 2-tuple for state"
MSG_INNER = "_p_resolveConflict: expected 1-tuple containing bucket state"
MSG_BUCKET = "_p_resolveConflict: expected tuple for bucket state"


def model_unwrap(state):
    """('state', s) / ('conflict', args) / ('exc', 'TypeError', msg)."""
    if state is None:
        return ('state', None)
    if not isinstance(state, tuple):
        return ('exc', 'TypeError', MSG_TOP)
    if len(state) == 2:
        return ('conflict', (-1, -1, -1, 11))
    if len(state) != 1:
        return ('exc', 'TypeError', MSG_12)
    inner = state[0]
    if not isinstance(inner, tuple) or len(inner) != 1:
        return ('exc', 'TypeError', MSG_INNER)
    if not isinstance(inner[0], tuple):
        return ('exc', 'TypeError', MSG_BUCKET)
    return ('state', inner[0])


class TupleSub(tuple):
    pass


def section_unwrap(impls):
    mod = family_module('OO')
    n = 0
    for mapping in (True, False):
        flat = ('a', 1, 'b', 2) if mapping else ('a', 'b')
        flat2 = ('a', 1, 'b', 2, 'c', 3) if mapping else ('a', 'b', 'c')
        flat3 = ('a', 1, 'b', 2, 'd', 4) if mapping else ('a', 'b', 'd')
        merged = (('a', 1, 'b', 2, 'c', 3, 'd', 4) if mapping
                  else ('a', 'b', 'c', 'd'))
        good = [(((flat,),),), (((flat2,),),), (((flat3,),),)]
        shapes = [
            None, 5, 'abc', [], [((flat,),)], (), (1, 2, 3), (1,), ((),),
            ((1, 2),), (((),),), ((5,),), ((None,),), (([],),), (((), ()),),
            ((), None), (None, None), (((flat,),), None), (5, 6),
            TupleSub((TupleSub((TupleSub((flat,)),)),)), TupleSub(),
            TupleSub((1, 2)), ((TupleSub(),),), (((flat, None),),),
        ]
        trees = [getattr(mod, ('BTree' if mapping else 'TreeSet') + s)
                 for s in impls]
        leaf_of = {}
        for s in impls:
            leaf_of[getattr(mod, ('BTree' if mapping else 'TreeSet') + s)] = \
                getattr(mod, ('Bucket' if mapping else 'Set') + s)
        for pos in range(3):
            for shape in shapes:
                for other in (None, 'good', 'two', 'bad'):
                    args = []
                    for p in range(3):
                        if p == pos:
                            args.append(shape)
                        elif other is None:
                            args.append(None)
                        elif other == 'good':
                            args.append(good[p])
                        elif other == 'two':
                            args.append((((flat,),), None))
                        else:
                            args.append([1])
                    # expected: unwrap in the order old, committed, new; the
                    # first failure wins; then the leaf merge decides.
                    unwrapped = []
                    exp = None
                    for a in args:
                        u = model_unwrap(a)
                        if u[0] != 'state':
                            exp = u
                            break
                        unwrapped.append(u[1])
                    for tcls in trees:
                        got = run(tcls, *args)
                        n += 1
                        if exp is not None:
                            check(got == exp, 'unwrap', tcls.__name__, args,
                                  'expected', exp, 'got', got)
                            continue
                        # all three unwrapped: the tree must answer exactly
                        # what its leaf type answers for the unwrapped states
                        lcls = leaf_of[tcls]
                        lgot = run(lcls, *unwrapped)
                        if lgot[0] == 'ok':
                            lgot = ('ok', ((lgot[1],),))
                        check(got[0] == lgot[0]
                              and (typed_equal(got[1], lgot[1])
                                   if got[0] == 'ok' else got == lgot),
                              'unwrap vs leaf', tcls.__name__, args,
                              'leaf', lgot, 'tree', got)
        # a fully good triple gives the merged one-leaf tree state
        for tcls in trees:
            got = run(tcls, *good)
            check(got == ('ok', (((merged,),),)), 'good triple', tcls.__name__, got)
            # wrong number of arguments
            for bad_args in ((), (None,), (None, None), (None,) * 4):
                try:
                    tcls()._p_resolveConflict(*bad_args)
                except TypeError:
                    pass
                else:
                    check(False, 'arity', tcls.__name__, bad_args)
    return n


def section_setstate_order(impls):
    """Which classes are instantiated and in which order __setstate__ is
    called; failing __setstate__; reference counts of the states."""
    mod = family_module('OO')
    observed = []
    for suffix in impls:
        for mapping in (True, False):
            base = getattr(mod, ('Bucket' if mapping else 'Set') + suffix)
            events = []

            class Leaf(base):
                fail_on = None

                def __init__(self, *args):
                    events.append(('init', type(self).__name__))
                    base.__init__(self, *args)

                def __setstate__(self, state):
                    events.append(('setstate', type(self).__name__, state))
                    if Leaf.fail_on is not None and state[0] == Leaf.fail_on:
                        raise Boom('setstate')
                    return base.__setstate__(self, state)

            Leaf.__name__ = 'Leaf'
            d0 = ('a', 1, 'b', 2) if mapping else ('a', 'b')
            d1 = ('a', 1, 'b', 2, 'c', 3) if mapping else ('a', 'b', 'c')
            d2 = ('a', 1, 'b', 2, 'd', 4) if mapping else ('a', 'b', 'd')
            nxt = base()
            triples = [
                ((d0,), (d1,), (d2,)),
                (None, (d1,), (d2,)),
                ((d0,), None, (d2,)),
                ((d0,), (d1,), None),
                (None, None, None),
                ((d0, nxt), (d1, nxt), (d2, nxt)),
                ((d0, nxt), (d1,), (d2, nxt)),
                ((d0, nxt), (d1, nxt), (d2,)),
                ((d0,), (d1, nxt), (d2, nxt)),
                ((d0,), (d1, nxt), (d2,)),
            ]
            for fail_on in (None, d0, d1, d2):
                for triple in triples:
                    Leaf.fail_on = fail_on
                    del events[:]
                    objs = [o for o in triple if o is not None] + [d0, d1, d2, nxt]
                    gc.collect()
                    before = [sys.getrefcount(o) for o in objs]
                    got = run(Leaf, *triple)
                    shown = []
                    for ev in events:
                        shown.append(ev[:2] + ((len(ev[2]), repr(ev[2][0])) if len(ev) > 2 else ()))
                    res = got
                    if got[0] == 'ok':
                        check(len(got[1]) == len(triple[0] or (0,)),
                              'next link kept', got)
                        if len(got[1]) == 2:
                            check(got[1][1] is nxt, 'next identity', got)
                        res = ('ok', repr(got[1][0]))
                    observed.append((suffix, mapping, repr(fail_on),
                                     [None if t is None else len(t) for t in triple],
                                     shown, res))
                    del got, res, shown
                    ev = None
                    del events[:]
                    gc.collect()
                    after = [sys.getrefcount(o) for o in objs]
                    check(before == after, 'state refcounts', suffix, mapping,
                          fail_on, before, after)
            # failing constructor, failing / odd __setstate__ attribute
            class Flaky(base):
                countdown = None

                def __init__(self, *args):
                    events.append(('init', 'Flaky'))
                    if Flaky.countdown is not None:
                        Flaky.countdown -= 1
                        if Flaky.countdown == 0:
                            raise Boom('init')
                    base.__init__(self, *args)

            class NotCallable(base):
                __setstate__ = 5

            class NoAttr(base):
                @property
                def __setstate__(self):
                    events.append(('lookup', len(self)))
                    raise Boom('lookup')

            class Returns(base):
                def __setstate__(self, state):
                    base.__setstate__(self, state)
                    return ['not', 'None']

            states = ((d0,), (d1,), (d2,))
            for kind in (Flaky, NotCallable, NoAttr, Returns):
                for n in ((1, 2, 3, 4, 5) if kind is Flaky else (None,)):
                    for triple in (states, (None, (d1,), (d2,)),
                                   ((d0,), None, None)):
                        receiver = kind()
                        Flaky.countdown = n
                        del events[:]
                        objs = [o for o in triple if o is not None] + [d0, d1, d2]
                        gc.collect()
                        before = [sys.getrefcount(o) for o in objs]
                        try:
                            got = ('ok', receiver._p_resolveConflict(*triple))
                        except BTreesConflictError as e:
                            got = ('conflict', e.args)
                        except Exception as e:
                            got = ('exc', type(e).__name__, str(e))
                        Flaky.countdown = None
                        observed.append((suffix, mapping, kind.__name__, n,
                                         [t is None for t in triple],
                                         list(events), repr(got)))
                        del got, receiver
                        gc.collect()
                        after = [sys.getrefcount(o) for o in objs]
                        check(before == after, 'state refcounts (failures)',
                              suffix, mapping, kind.__name__, n, before, after)
            # conversion failures inside __setstate__ (native keys)
        imod = family_module('II')
        ibase = getattr(imod, 'Bucket' + suffix)
        for pos in range(3):
            good = ((1, 2, 3, 4),)
            bad = (('x', 2),)
            triple = [good, good, good]
            triple[pos] = bad
            gc.collect()
            before = [sys.getrefcount(o) for o in (good, bad, good[0], bad[0])]
            got = run(ibase, *triple)
            observed.append((suffix, 'II-bad-key', pos, got[:2]))
            check(got[0] == 'exc' and got[1] == 'TypeError', 'II bad key', got)
            del got
            gc.collect()
            after = [sys.getrefcount(o) for o in (good, bad, good[0], bad[0])]
            check(before == after, 'II state refcounts', suffix, pos, before, after)
    return observed


def section_c_malformed_leaf_states():
    """Malformed leaf states handed to the C leaf types directly: the
    behaviour is pinned as it is (see notes), only to detect a change."""
    observed = []
    for fam in ('OO', 'II', 'fs'):
        mod = family_module(fam)
        keys, values = family_universe(fam)
        for mapping in (True, False):
            cls = getattr(mod, 'Bucket' if mapping else 'Set')
            good = make_state({1: 0, 2: 1}, keys, values, mapping)
            shapes = [5, 'ab', [], (), (5,), ([],), ((), None, None),
                      (good[0], None, 3), ((keys[1],) * 3,), (good[0], cls()),
                      {}, (None,)]
            for pos in range(3):
                for shape in shapes:
                    triple = [good, good, good]
                    triple[pos] = shape
                    got = run(cls, *triple)
                    observed.append((fam, mapping, pos, repr(shape)[:40],
                                     got[0], repr(got[1:])))
    return observed


# --------------------------------------------------------------------------
# section 5: subclasses and instances that are not fresh
# --------------------------------------------------------------------------
def section_subclasses(impls):
    n = 0
    for fam in ('OO', 'LF', 'fs', 'UU'):
        mod = family_module(fam)
        keys, values = family_universe(fam)
        for suffix in impls:
            for mapping in (True, False):
                base = getattr(mod, ('Bucket' if mapping else 'Set') + suffix)
                tbase = getattr(mod, ('BTree' if mapping else 'TreeSet') + suffix)

                class SmallLeaf(base):
                    max_leaf_size = 2

                class SmallTree(tbase):
                    max_leaf_size = 2
                    max_internal_size = 2

                O = {1: 0, 2: 0, 4: 0}
                C = {1: 0, 2: 1, 3: 2, 4: 0}
                N = {1: 0, 2: 0, 4: 1, 5: 1}
                mres = model_resolve(O, C, N, mapping)
                so, sc, sn = (make_state(x, keys, values, mapping)
                              for x in (O, C, N))
                exp = expected_outcome(mres, keys, values, mapping)
                expt = expected_outcome(mres, keys, values, mapping, tree=True)
                # the receiver may be non-empty: it must not matter, and it
                # must not be modified
                leaf = SmallLeaf()
                tree = SmallTree()
                for i, k in enumerate(keys[1:]):
                    if mapping:
                        leaf[k] = values[i % len(values)]
                        tree[k] = values[i % len(values)]
                    else:
                        leaf.add(k)
                        tree.add(k)
                before_leaf, before_tree = leaf.__getstate__(), tree.__getstate__()
                check(len(before_tree) == 2, 'small tree is multi-leaf')
                for obj, a, e in ((leaf, (so, sc, sn), exp),
                                  (tree, (wrap(so), wrap(sc), wrap(sn)), expt)):
                    try:
                        got = ('ok', obj._p_resolveConflict(*a))
                    except BTreesConflictError as err:
                        got = ('conflict', err.args)
                    n += 1
                    check(got[0] == e[0] and typed_equal(got[1], e[1]),
                          'subclass', type(obj).__mro__[1].__name__, got, e)
                check(typed_equal(leaf.__getstate__()[0], before_leaf[0]),
                      'receiver leaf untouched')
                check(len(tree.__getstate__()) == 2, 'receiver tree untouched')
                # multi-leaf tree states are always refused with reason 11
                got = run(SmallTree, before_tree, before_tree, before_tree)
                check(got == ('conflict', (-1, -1, -1, 11)), 'multi-leaf', got)
                got = run(SmallTree, wrap(so), before_tree, wrap(sn))
                check(got == ('conflict', (-1, -1, -1, 11)), 'multi-leaf com', got)
    return n


# --------------------------------------------------------------------------
GOLDEN = {'traces-C': '674fd10169dd93e5', 'traces-tree-C': '05596db074314188', 'traces-IO-C': 'bc2ec94125d9a34e', 'traces-OI-C': '3992b6d9c214b085', 'traces-Py': 'fd18c9559df7f44d', 'traces-tree-Py': 'f02945733906d7a1', 'traces-IO-Py': '97f81f8297b43799', 'traces-OI-Py': 'f4998a348dbbde2a', 'setstate-order': '574b20544b7469f2'}


def main():
    golden = {}
    counts = {}
    if FOCUS == 't':
        impls, heavy = ('', 'Py'), ''
    elif FOCUS == 'u':
        impls, heavy = ('', 'Py'), ''
    else:
        impls, heavy = ('', 'Py'), 'Py'

    counts['exhaustive'] = section_exhaustive(impls)
    counts['random'] = section_random(impls, 400, SEED)
    # extra volume on the implementation that the refactoring touches
    counts['random-focus'] = section_random((heavy,), 1000, SEED + 1)
    counts['unwrap'] = section_unwrap(impls)
    counts['subclasses'] = section_subclasses(impls)

    for suffix in ('', 'Py'):
        name = 'C' if suffix == '' else 'Py'
        inject = (FOCUS in 'tu' and suffix == '') or (FOCUS == 'v' and suffix == 'Py')
        golden['traces-' + name] = digest(
            section_traces(suffix, inject=inject))
        golden['traces-tree-' + name] = digest(
            section_traces(suffix, wrap_in_tree=True, inject=False))
        for fam in ('IO', 'OI'):
            golden['traces-%s-%s' % (fam, name)] = digest(
                section_traces(suffix, inject=inject, fam=fam))
    golden['setstate-order'] = digest(section_setstate_order(impls))
    if FOCUS == 'u':
        golden['c-malformed-leaf'] = digest(section_c_malformed_leaf_states())

    # every decision of the table has been exercised
    want = {'ok', 1, 2, 3, 4, 5, 6, 7, 8, 9, 12, 13}
    check(REASONS_SEEN.get('exhaustive') == want, 'coverage exhaustive',
          REASONS_SEEN.get('exhaustive'))
    check(REASONS_SEEN.get('random') == want | {0}, 'coverage random',
          REASONS_SEEN.get('random'))

    if '--print-golden' in sys.argv:
        print('GOLDEN = %r' % (golden,))
    elif isinstance(GOLDEN, dict):
        for k in sorted(golden):
            check(GOLDEN.get(k) == golden[k], 'golden digest', k,
                  GOLDEN.get(k), golden[k])
    else:
        check(False, 'no golden digests embedded')

    print('calls:', counts, 'time: %.1fs' % (time.time() - T0))
    if FAILURES:
        print('%d FAILURES' % len(FAILURES))
        sys.exit(1)
    print('OK')
    sys.exit(0)


if __name__ == '__main__':
    main()
