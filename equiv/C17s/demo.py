"""Equivalence demonstration for property C17 (allocation paths of the C BTrees).

Run as:  PYTHONPATH=<worktree>/src /venv/bin/python demo.py

The demonstration drives the normal (successful) paths of every piece of C code
that allocates -- leaf growth, leaf split, interior growth, interior split, root
split, state loading, set algebra, multiunion, conflict merge -- and the error
paths that can be reached without making malloc fail.  Every result is compared
with an expectation computed independently:

  * a plain dict / set reference model,
  * the pure-Python implementation of the same class (contents AND tree shape),
  * recorded constants (exception classes and messages, reference counts).

After every batch the containers are checked for soundness with ``_check()`` and
``BTrees.check.check()``.  Exit status 0 means every check passed.

Focus of this copy: BTree_grow -- first leaf of an empty tree, growth of the
child vector, child split, root split, and its error returns.
"""
import gc
import pickle
import random
import sys

import BTrees
import BTrees.check
from BTrees import (IFBTree, IIBTree, IOBTree, IUBTree, LFBTree, LLBTree,
                    LOBTree, OIBTree, OLBTree, OOBTree, QQBTree, UUBTree,
                    fsBTree)

DEBUG = False
FAILURES = []
NCHECKS = [0]


def check(cond, msg):
    NCHECKS[0] += 1
    if not cond:
        FAILURES.append(msg)
        print("FAIL:", msg)


def raises(exc_class, func, *args, **kw):
    """Return the exception instance if func raises exactly exc_class."""
    try:
        func(*args, **kw)
    except BaseException as e:  # noqa
        if type(e) is exc_class:
            return e
        return None
    return None


# ---------------------------------------------------------------------------
# families

class Family:
    def __init__(self, mod, prefix, keykind, valkind):
        self.mod = mod
        self.prefix = prefix
        self.keykind = keykind      # 'O' or 'int'
        self.valkind = valkind      # 'O', 'int', 'float'
        g = lambda n: getattr(mod, prefix + n)  # noqa
        self.BTree, self.Bucket = g('BTree'), g('Bucket')
        self.TreeSet, self.Set = g('TreeSet'), g('Set')
        self.BTreePy, self.BucketPy = g('BTreePy'), g('BucketPy')
        self.TreeSetPy, self.SetPy = g('TreeSetPy'), g('SetPy')

    def val(self, i):
        if self.valkind == 'float':
            return float(i % 4096) + 0.5
        if self.valkind == 'int':
            return (i * 7) % 100003
        return ('v', i)

    def key(self, i):
        return i


FAMILIES = [
    Family(OOBTree, 'OO', 'O', 'O'),
    Family(IOBTree, 'IO', 'int', 'O'),
    Family(OIBTree, 'OI', 'O', 'int'),
    Family(IIBTree, 'II', 'int', 'int'),
    Family(IFBTree, 'IF', 'int', 'float'),
    Family(IUBTree, 'IU', 'int', 'int'),
    Family(LLBTree, 'LL', 'int', 'int'),
    Family(LFBTree, 'LF', 'int', 'float'),
    Family(LOBTree, 'LO', 'int', 'O'),
    Family(OLBTree, 'OL', 'O', 'int'),
    Family(UUBTree, 'UU', 'int', 'int'),
    Family(QQBTree, 'QQ', 'int', 'int'),
]
BY_PREFIX = {f.prefix: f for f in FAMILIES}


def c_extensions_in_use():
    for f in FAMILIES:
        check(f.BTree is not f.BTreePy, "%s: C extension not in use" % f.prefix)
        check(f.Bucket is not f.BucketPy, "%s: C bucket not in use" % f.prefix)
    check(fsBTree.fsBTree is not fsBTree.fsBTreePy, "fs: C extension not in use")


# ---------------------------------------------------------------------------
# soundness + shape

def sound(t, what):
    try:
        if hasattr(t, '_check'):
            t._check()
            if type(t).__module__.startswith('BTrees.'):
                BTrees.check.check(t)
    except Exception as e:  # noqa
        check(False, "%s: soundness check failed: %r" % (what, e))
    else:
        check(True, what)


def shape(x, fam):
    """Structure of a tree, independent of C/Python class identity."""
    trees = (fam.BTree, fam.BTreePy, fam.TreeSet, fam.TreeSetPy)
    if isinstance(x, trees):
        st = x.__getstate__()
        if st is None:
            return ('tree', None)
        items = st[0]
        if len(st) == 1:
            return ('tree1', items[0])
        return ('tree', tuple(shape(c, fam) if n % 2 == 0 else c
                              for n, c in enumerate(items)))
    st = x.__getstate__()
    return ('leaf', st[0], len(st) > 1)


def same_contents(t, model, what, mapping=True):
    if mapping:
        exp = sorted(model.items())
        check(list(t.items()) == exp, what + ": items differ from model")
        check(list(t.keys()) == [k for k, _ in exp], what + ": keys differ")
        check(list(t.values()) == [v for _, v in exp], what + ": values differ")
    else:
        exp = sorted(model)
        check(list(t.keys()) == exp, what + ": keys differ from model")
    check(len(t) == len(model), what + ": len differs")
    if exp:
        lo = exp[0][0] if mapping else exp[0]
        hi = exp[-1][0] if mapping else exp[-1]
        check(t.minKey() == lo and t.maxKey() == hi, what + ": min/max differ")


# ---------------------------------------------------------------------------
# section: random workload against a dict model and the Python implementation

def small_nodes(cls, leaf, internal):
    """Subclass with tiny nodes; registered in this module so it pickles."""
    name = '%s_%d_%d' % (cls.__name__, leaf, internal)
    if name not in globals():
        globals()[name] = type(name, (cls,), {
            'max_leaf_size': leaf, 'max_internal_size': internal,
            '__module__': __name__, '__qualname__': name})
    return globals()[name]


def workload_mapping(fam, ctree, pytree, seed, nops, keyspace, what,
                     deletes=True):
    # C and Python prune emptied nodes differently, so the tree shapes are
    # only compared for insert-only histories (deletes=False)
    rnd = random.Random(seed)
    model = {}
    for step in range(nops):
        r = rnd.random()
        if not deletes and (0.62 <= r < 0.85 or 0.92 <= r < 0.97):
            r = 0.0
        k = fam.key(rnd.randrange(keyspace))
        if r < 0.62:
            v = fam.val(rnd.randrange(1 << 20))
            ctree[k] = v
            pytree[k] = v
            model[k] = v
        elif r < 0.85:
            if k in model:
                del model[k]
                del ctree[k]
                del pytree[k]
            else:
                check(raises(KeyError, ctree.__delitem__, k) is not None,
                      what + ": deleting a missing key must raise KeyError")
        elif r < 0.92:
            d = fam.val(step)
            exp = model.setdefault(k, d)
            check(ctree.setdefault(k, d) == exp, what + ": setdefault")
            pytree.setdefault(k, d)
        elif r < 0.97:
            exp = model.pop(k, None)
            check(ctree.pop(k, None) == exp, what + ": pop")
            pytree.pop(k, None)
        else:
            batch = {fam.key(rnd.randrange(keyspace)): fam.val(step + j)
                     for j in range(40)}
            model.update(batch)
            ctree.update(batch)
            pytree.update(batch)
        if step % 997 == 0:
            sound(ctree, "%s step %d" % (what, step))
            check(len(ctree) == len(model), what + ": len mid-run")
    sound(ctree, what + " final")
    same_contents(ctree, model, what)
    check(list(ctree.keys()) == list(pytree.keys()),
          what + ": C contents differ from the Python implementation")
    if not deletes:
        check(shape(ctree, fam) == shape(pytree, fam),
              what + ": C tree shape differs from the Python implementation")
    return model


def workload_set(fam, ctree, pytree, seed, nops, keyspace, what, deletes=True):
    rnd = random.Random(seed)
    model = set()
    for step in range(nops):
        r = rnd.random()
        if not deletes and 0.65 <= r < 0.9:
            r = 0.0
        k = fam.key(rnd.randrange(keyspace))
        if r < 0.65:
            exp = 0 if k in model else 1
            model.add(k)
            check(ctree.insert(k) == exp, what + ": insert result")
            pytree.insert(k)
        elif r < 0.9:
            if k in model:
                model.remove(k)
                ctree.remove(k)
                pytree.remove(k)
            else:
                check(raises(KeyError, ctree.remove, k) is not None,
                      what + ": removing a missing key must raise KeyError")
        else:
            batch = [fam.key(rnd.randrange(keyspace)) for j in range(40)]
            model.update(batch)
            ctree.update(batch)
            pytree.update(batch)
        if step % 997 == 0:
            sound(ctree, "%s step %d" % (what, step))
    sound(ctree, what + " final")
    same_contents(ctree, model, what, mapping=False)
    check(list(ctree.keys()) == list(pytree.keys()),
          what + ": C contents differ from the Python implementation")
    if not deletes:
        check(shape(ctree, fam) == shape(pytree, fam),
              what + ": C tree shape differs from the Python implementation")
    return model


def section_workloads():
    for n, fam in enumerate(FAMILIES):
        # default node sizes: leaf growth 16 -> 32 -> ..., leaf splits
        workload_mapping(fam, fam.BTree(), fam.BTreePy(), 100 + n, 6000, 4000,
                         fam.prefix + "BTree default nodes")
        workload_set(fam, fam.TreeSet(), fam.TreeSetPy(), 200 + n, 6000, 4000,
                     fam.prefix + "TreeSet default nodes")
        # tiny nodes: interior growth, interior splits, repeated root splits
        workload_mapping(fam, small_nodes(fam.BTree, 4, 4)(),
                         small_nodes(fam.BTreePy, 4, 4)(), 300 + n, 5000, 3000,
                         fam.prefix + "BTree tiny nodes")
        workload_set(fam, small_nodes(fam.TreeSet, 6, 3)(),
                     small_nodes(fam.TreeSetPy, 6, 3)(), 400 + n, 5000, 3000,
                     fam.prefix + "TreeSet tiny nodes")
        # insert-only histories: the C tree must have the very same shape
        # (same splits at the same places) as the Python implementation
        workload_mapping(fam, fam.BTree(), fam.BTreePy(), 500 + n, 3000, 100000,
                         fam.prefix + "BTree default nodes, inserts only", False)
        workload_mapping(fam, small_nodes(fam.BTree, 4, 4)(),
                         small_nodes(fam.BTreePy, 4, 4)(), 600 + n, 3000, 100000,
                         fam.prefix + "BTree tiny nodes, inserts only", False)
        workload_set(fam, small_nodes(fam.TreeSet, 6, 3)(),
                     small_nodes(fam.TreeSetPy, 6, 3)(), 700 + n, 3000, 100000,
                     fam.prefix + "TreeSet tiny nodes, inserts only", False)
        # plain leaves (no tree above them): growth only
        b, bp, model = fam.Bucket(), fam.BucketPy(), {}
        for i in range(0, 700, 3):
            b[fam.key(i)] = bp[fam.key(i)] = model[fam.key(i)] = fam.val(i)
        for i in range(0, 700, 9):
            del b[fam.key(i)], bp[fam.key(i)], model[fam.key(i)]
        same_contents(b, model, fam.prefix + "Bucket growth")
        check(b.__getstate__() == bp.__getstate__(),
              fam.prefix + "Bucket state differs from Python implementation")
        s, sp = fam.Set(), fam.SetPy()
        for i in range(500, 0, -2):
            s.insert(fam.key(i))
            sp.insert(fam.key(i))
        same_contents(s, set(range(2, 501, 2)), fam.prefix + "Set growth",
                      mapping=False)
        check(s.__getstate__() == sp.__getstate__(),
              fam.prefix + "Set state differs from Python implementation")


def section_sequential_root_split():
    """Sequential inserts with the default node sizes up to a root split."""
    for prefix, n in (('OO', 9000), ('II', 70000), ('LO', 35000)):
        fam = BY_PREFIX[prefix]
        t = fam.BTree()
        for i in range(n):
            t[i] = fam.val(i)
        sound(t, prefix + " sequential")
        check(len(t) == n and t.minKey() == 0 and t.maxKey() == n - 1,
              prefix + " sequential contents")
        st = t.__getstate__()
        # after the root split the root has few children which are trees
        check(isinstance(st[0][0], fam.BTree),
              prefix + ": expected the root to have been split")
        check(list(t.keys()) == list(range(n)), prefix + " sequential keys")
        ts = fam.TreeSet()
        ts.update(range(n))
        sound(ts, prefix + " sequential set")
        check(isinstance(ts.__getstate__()[0][0], fam.TreeSet),
              prefix + ": expected the TreeSet root to have been split")
        check(list(ts) == list(range(n)), prefix + " sequential set keys")


# ---------------------------------------------------------------------------
# section: state loading

def section_state_loading():
    for n, fam in enumerate(FAMILIES):
        p = fam.prefix
        rnd = random.Random(500 + n)
        keys = sorted(rnd.sample(range(100000), 300))
        flat = []
        for k in keys:
            flat.extend((fam.key(k), fam.val(k)))
        flat = tuple(flat)
        model = dict(zip(flat[::2], flat[1::2]))

        # fresh leaf, leaf that must grow, leaf that is already big enough
        b = fam.Bucket()
        b.__setstate__((flat,))
        same_contents(b, model, p + "Bucket setstate into empty")
        check(b.__getstate__() == (flat,), p + "Bucket getstate round trip")
        b.__setstate__((flat[:20],))
        same_contents(b, dict(zip(flat[:20:2], flat[1:20:2])),
                      p + "Bucket setstate shrink")
        b.__setstate__((flat,))
        same_contents(b, model, p + "Bucket setstate regrow")
        b.__setstate__(((),))
        check(len(b) == 0 and list(b.items()) == [], p + "Bucket setstate empty")
        b[fam.key(5)] = fam.val(5)
        check(list(b.items()) == [(fam.key(5), fam.val(5))],
              p + "Bucket usable after empty setstate")

        # the Python implementation loads the same state the same way
        bp = fam.BucketPy()
        bp.__setstate__((flat,))
        check(list(bp.items()) == list(fam.Bucket(model).items()),
              p + "BucketPy setstate")

        # chained leaves: second element of the state is the next leaf
        nxt = fam.Bucket({fam.key(200000): fam.val(1)})
        b2 = fam.Bucket()
        rc = sys.getrefcount(nxt)
        b2.__setstate__((flat[:40], nxt))
        check(sys.getrefcount(nxt) == rc + 1, p + "Bucket setstate next refcount")
        check(b2.__getstate__() == (flat[:40], nxt), p + "Bucket state with next")
        del b2
        gc.collect()
        check(sys.getrefcount(nxt) == rc, p + "Bucket next released")

        s = fam.Set()
        skeys = tuple(fam.key(k) for k in keys)
        s.__setstate__((skeys,))
        same_contents(s, set(skeys), p + "Set setstate", mapping=False)
        check(s.__getstate__() == (skeys,), p + "Set getstate round trip")
        s.__setstate__((skeys[:7],))
        same_contents(s, set(skeys[:7]), p + "Set setstate shrink", False)
        s.__setstate__((skeys,))
        same_contents(s, set(skeys), p + "Set setstate regrow", mapping=False)
        nxts = fam.Set([fam.key(200000)])
        s.__setstate__((skeys[:9], nxts))
        check(s.__getstate__() == (skeys[:9], nxts), p + "Set state with next")
        s.__setstate__(((),))
        check(len(s) == 0, p + "Set setstate empty")
        s.insert(fam.key(3))
        check(list(s) == [fam.key(3)], p + "Set usable after empty setstate")

        # odd number of items: the trailing key is ignored (recorded behaviour)
        b3 = fam.Bucket()
        b3.__setstate__((flat[:7],))
        check(list(b3.items()) == list(zip(flat[:6:2], flat[1:6:2])),
              p + "Bucket setstate with odd-length tuple")

        # trees: pickle round trip for one-leaf, two-level and deep trees
        for size, leaf, internal in ((10, None, None), (2000, None, None),
                                     (1500, 4, 4)):
            cls = fam.BTree if leaf is None else small_nodes(fam.BTree, leaf,
                                                             internal)
            t = cls()
            m = {}
            for i in rnd.sample(range(50000), size):
                t[fam.key(i)] = m[fam.key(i)] = fam.val(i)
            if leaf is None:
                t2 = pickle.loads(pickle.dumps(t, 2))
                check(type(t2) is fam.BTree, p + "BTree unpickled type")
            else:
                t2 = cls()
                t2.__setstate__(pickle.loads(pickle.dumps(t.__getstate__(), 2)))
            sound(t2, p + "BTree after setstate (%d)" % size)
            same_contents(t2, m, p + "BTree after setstate (%d)" % size)
            check(shape(t2, fam) == shape(t, fam), p + "BTree shape round trip")
            # loading over existing contents replaces them
            t2.__setstate__(None)
            check(len(t2) == 0 and not t2, p + "BTree setstate(None)")
            t2.__setstate__(t.__getstate__())
            same_contents(t2, m, p + "BTree reloaded (%d)" % size)
            t2[fam.key(60001)] = fam.val(1)
            m2 = dict(m)
            m2[fam.key(60001)] = fam.val(1)
            same_contents(t2, m2, p + "BTree usable after reload (%d)" % size)
            ts = fam.TreeSet(m)
            ts2 = pickle.loads(pickle.dumps(ts, 2))
            sound(ts2, p + "TreeSet after setstate (%d)" % size)
            same_contents(ts2, set(m), p + "TreeSet after setstate", False)

    # fsBTree has its own leaf state loader built on the same wrappers
    t = fsBTree.fsBTree()
    m = {}
    for i in range(3000):
        k = ("%02x" % (i * 7 % 256))[:2].encode() if False else bytes(
            [i * 7 % 256, i // 256 % 256])
        v = bytes([i % 251]) * 6
        t[k] = m[k] = v
    t2 = pickle.loads(pickle.dumps(t, 2))
    sound(t2, "fsBTree after setstate")
    same_contents(t2, m, "fsBTree after setstate")


def section_state_loading_errors():
    """Error paths of the loaders reachable without an allocation failure."""
    # a tree state with no children asks the wrapper for zero bytes
    for fam in FAMILIES:
        p = fam.prefix
        for cls in (fam.BTree, fam.TreeSet):
            t = cls()
            e = raises(AssertionError, t.__setstate__, ((),))
            check(e is not None and str(e) == "non-positive size malloc",
                  p + cls.__name__ + ": empty items tuple must be refused")
            check(len(t) == 0 and list(t.keys()) == [],
                  p + cls.__name__ + ": empty after refused state")
            sound(t, p + cls.__name__ + " after refused state")
            if cls is fam.BTree:
                t[fam.key(1)] = fam.val(1)
                check(list(t.items()) == [(fam.key(1), fam.val(1))],
                      p + "BTree usable after refused state")
            else:
                t.insert(fam.key(1))
                check(list(t) == [fam.key(1)],
                      p + "TreeSet usable after refused state")
            # refusal happens after the old contents were dropped
            t.update([(fam.key(i), fam.val(i)) for i in range(50)]
                     if cls is fam.BTree else range(50))
            raises(AssertionError, t.__setstate__, ((),))
            check(len(t) == 0, p + cls.__name__ + ": contents dropped first")
            sound(t, p + cls.__name__ + " after second refused state")

        b = fam.Bucket({fam.key(1): fam.val(1)})
        e = raises(TypeError, b.__setstate__, ([],))
        check(e is not None and
              str(e) == "tuple required for first state element",
              p + "Bucket: list state refused")
        check(list(b.items()) == [(fam.key(1), fam.val(1))],
              p + "Bucket untouched by refused state")
        s = fam.Set([fam.key(1)])
        e = raises(TypeError, s.__setstate__, ([],))
        check(e is not None and
              str(e) == "tuple required for first state element",
              p + "Set: list state refused")
        check(list(s) == [fam.key(1)], p + "Set untouched by refused state")
        e = raises(TypeError, b.__setstate__, ())
        check(e is not None, p + "Bucket: empty state tuple refused")

    # a bad key / value in the middle of a state: TypeError, leaf left empty
    for prefix, bad_key_msg, bad_val_msg in (
            # (the integer-value macros really do say "key": recorded as is)
            ('II', 'expected integer key', 'expected integer key'),
            ('LL', 'expected integer key', 'expected integer key'),
            ('IF', 'expected integer key', 'expected float or int value'),
    ):
        fam = BY_PREFIX[prefix]
        b = fam.Bucket({5: fam.val(5)})
        e = raises(TypeError, b.__setstate__,
                   ((1, fam.val(1), 'x', fam.val(2), 3, fam.val(3)),))
        check(e is not None and str(e) == bad_key_msg,
              prefix + "Bucket: bad key in state")
        check(len(b) == 0 and list(b.items()) == [],
              prefix + "Bucket empty after bad key in state")
        b[7] = fam.val(7)
        check(list(b.items()) == [(7, fam.val(7))],
              prefix + "Bucket usable after bad key in state")
        b = fam.Bucket({5: fam.val(5)})
        e = raises(TypeError, b.__setstate__,
                   ((1, fam.val(1), 2, 'x', 3, fam.val(3)),))
        check(e is not None and str(e) == bad_val_msg,
              prefix + "Bucket: bad value in state (%r)" % (e and str(e),))
        check(len(b) == 0, prefix + "Bucket empty after bad value in state")
        s = fam.Set([5])
        e = raises(TypeError, s.__setstate__, ((1, 2, 'x', 4),))
        check(e is not None and str(e) == bad_key_msg,
              prefix + "Set: bad key in state")
        check(len(s) == 0 and list(s) == [], prefix + "Set empty after bad key")
        s.update([4, 2])
        check(list(s) == [2, 4], prefix + "Set usable after bad key in state")

    # object keys/values: references taken for exactly the loaded items
    k1, k2, v1, v2 = ('k', 1), ('k', 2), ['v1'], ['v2']
    base = [sys.getrefcount(o) for o in (k1, k2, v1, v2)]
    b = OOBTree.OOBucket()
    st = ((k1, v1, k2, v2),)
    b.__setstate__(st)
    check([sys.getrefcount(o) for o in (k1, k2, v1, v2)] ==
          [r + 2 for r in base], "OOBucket setstate takes one reference each")
    b.__setstate__(((k1, v2),))
    del st
    check([sys.getrefcount(o) for o in (k1, k2, v1, v2)] ==
          [base[0] + 1, base[1], base[2], base[3] + 1],
          "OOBucket setstate releases the previous contents")
    del b
    check([sys.getrefcount(o) for o in (k1, k2, v1, v2)] == base,
          "OOBucket dealloc releases loaded items")
    s = OOBTree.OOSet()
    s.__setstate__(((k1, k2),))
    check([sys.getrefcount(o) for o in (k1, k2)] == [base[0] + 1, base[1] + 1],
          "OOSet setstate takes one reference each")
    s.__setstate__(((),))
    check([sys.getrefcount(o) for o in (k1, k2)] == base[:2],
          "OOSet setstate releases previous contents")

    # a tree state whose child is neither tree nor leaf
    t = OOBTree.OOBTree({1: 1})
    e = raises(TypeError, t.__setstate__, ((object(), 5, object()), None))
    check(e is not None and "neither" in str(e), "BTree: bad child refused")
    check(len(t) == 0, "BTree empty after bad child")
    sound(t, "BTree after bad child")
    t[2] = 2
    check(list(t.items()) == [(2, 2)], "BTree usable after bad child")


# ---------------------------------------------------------------------------
# section: set algebra, multiunion

def as_list(res, mapping):
    return list(res.items()) if mapping else list(res.keys())


def section_set_algebra():
    for n, fam in enumerate(FAMILIES):
        p, mod = fam.prefix, fam.mod
        rnd = random.Random(700 + n)
        ka = sorted(rnd.sample(range(3000), 700))
        kb = sorted(rnd.sample(range(3000), 900))
        ma = {fam.key(k): fam.val(k) for k in ka}
        mb = {fam.key(k): fam.val(k + 1) for k in kb}
        for kind in ('Bucket', 'BTree', 'Set', 'TreeSet'):
            mapping = kind in ('Bucket', 'BTree')
            ca = getattr(fam, kind)(ma if mapping else list(ma))
            cb = getattr(fam, kind)(mb if mapping else list(mb))
            pa = getattr(fam, kind + 'Py')(ma if mapping else list(ma))
            pb = getattr(fam, kind + 'Py')(mb if mapping else list(mb))
            what = "%s%s" % (p, kind)
            u = mod.union(ca, cb)
            check(list(u) == sorted(set(ma) | set(mb)), what + " union")
            check(type(u) is fam.Set, what + " union result type")
            check(list(u) == list(mod.unionPy(pa, pb)), what + " union vs Py")
            i = mod.intersection(ca, cb)
            check(list(i) == sorted(set(ma) & set(mb)), what + " intersection")
            check(list(i) == list(mod.intersectionPy(pa, pb)),
                  what + " intersection vs Py")
            d = mod.difference(ca, cb)
            exp = sorted(set(ma) - set(mb))
            if mapping:
                check(list(d.items()) == [(k, ma[k]) for k in exp],
                      what + " difference")
                check(type(d) is fam.Bucket, what + " difference result type")
                check(list(d.items()) ==
                      list(mod.differencePy(pa, pb).items()),
                      what + " difference vs Py")
            else:
                check(list(d) == exp, what + " difference")
                check(type(d) is fam.Set, what + " difference result type")
            # operators go through the same merge engine
            check(list(ca | cb) == list(u), what + " | operator")
            check(list(ca & cb) == list(i), what + " & operator")
            check(list(ca - cb) == exp, what + " - operator")
            # results are ordinary, sound, usable leaves
            if not mapping:
                u.insert(fam.key(5000))
                check(u.maxKey() == fam.key(5000), what + " union result usable")
            # operands unchanged
            check(as_list(ca, mapping) == as_list(pa, mapping),
                  what + " left operand unchanged")
            check(as_list(cb, mapping) == as_list(pb, mapping),
                  what + " right operand unchanged")
            # arbitrary iterables as the other operand (keys only)
            u2 = mod.union(ca, [fam.key(k) for k in (9, 9, 3001, 4, 3001)])
            check(list(u2) == sorted(set(ma) | {9, 3001, 4}),
                  what + " union with a list")

        if hasattr(mod, 'weightedUnion') and fam.valkind != 'O':
            ca, cb = fam.Bucket(ma), fam.BTree(mb)
            pa, pb = fam.BucketPy(ma), fam.BTreePy(mb)
            w, r = mod.weightedUnion(ca, cb, 2, 3)
            exp = {}
            for k in set(ma) | set(mb):
                exp[k] = (ma[k] * 2 if k in ma else 0) + \
                         (mb[k] * 3 if k in mb else 0)
            check(w == 1 and list(r.items()) == sorted(exp.items()),
                  p + " weightedUnion vs model")
            wp, rp = mod.weightedUnionPy(pa, pb, 2, 3)
            check((w, list(r.items())) == (wp, list(rp.items())),
                  p + " weightedUnion vs Py")
            w, r = mod.weightedIntersection(ca, cb, 3, 2)
            exp = {k: ma[k] * 3 + mb[k] * 2 for k in set(ma) & set(mb)}
            check(w == 1 and list(r.items()) == sorted(exp.items()),
                  p + " weightedIntersection vs model")
            # mixed set / mapping operands
            cs, ps = fam.Set(list(ma)), fam.SetPy(list(ma))
            w, r = mod.weightedUnion(cs, cb, 2, 3)
            wp, rp = mod.weightedUnionPy(ps, pb, 2, 3)
            check((w, list(r.items())) == (wp, list(rp.items())),
                  p + " weightedUnion set/mapping vs Py")
            w, r = mod.weightedIntersection(cs, fam.TreeSet(list(mb)), 2, 3)
            check(w == 5 and list(r) == sorted(set(ma) & set(mb)),
                  p + " weightedIntersection of sets")

        if hasattr(mod, 'multiunion'):
            parts, pyparts, exp = [], [], set()
            for j in range(12):
                ks = rnd.sample(range(5000), rnd.choice((0, 1, 15, 17, 300)))
                exp.update(ks)
                kind = ('Set', 'Bucket', 'TreeSet', 'BTree')[j % 4]
                if kind in ('Set', 'TreeSet'):
                    parts.append(getattr(fam, kind)(ks))
                else:
                    parts.append(getattr(fam, kind)({k: fam.val(k) for k in ks}))
                pyparts.append(fam.SetPy(ks))
            parts.insert(5, 4999)      # a bare integer counts as a singleton
            pyparts.insert(5, 4999)
            exp.add(4999)
            parts.append([7, 7, 3])    # any iterable of ints
            pyparts.append([7, 7, 3])
            exp.update((7, 3))
            r = mod.multiunion(parts)
            check(type(r) is fam.Set and list(r) == sorted(exp),
                  p + " multiunion vs model")
            check(list(r) == list(mod.multiunionPy(pyparts)),
                  p + " multiunion vs Py")
            r.insert(6000)
            check(r.maxKey() == 6000 and len(r) == len(exp | {6000}),
                  p + " multiunion result usable")
            check(list(mod.multiunion([])) == [], p + " multiunion of nothing")
            check(list(mod.multiunion([fam.Set(), fam.Set()])) == [],
                  p + " multiunion of empties")
            e = raises(TypeError, mod.multiunion, [fam.Set([1, 2]), ['x']])
            check(e is not None, p + " multiunion with a bad element")

    # set-algebra error paths
    oo = OOBTree
    e = raises(TypeError, oo.union, oo.OOSet([1]), 5)
    check(e is not None, "union with a non-iterable")
    e = raises(TypeError, IIBTree.union, IIBTree.IISet([1, 2, 3]), ['x'])
    check(e is not None, "union with a wrongly typed key")
    e = raises(TypeError, oo.intersection, oo.OOBucket({1: 1}),
               oo.OOBucket({1: 1}).__getstate__)
    check(e is not None, "intersection with a non-iterable")


# ---------------------------------------------------------------------------
# section: conflict merge

def section_conflict_merge():
    for n, fam in enumerate(FAMILIES):
        p = fam.prefix
        rnd = random.Random(900 + n)
        base = {fam.key(k): fam.val(k) for k in rnd.sample(range(1000, 5000), 200)}
        first = min(base)
        c2, c3 = dict(base), dict(base)
        candidates = sorted(k for k in base if k != first)
        # committed: 60 inserts + 20 deletes + 20 changes
        for k in rnd.sample(range(5000, 9000), 60):
            c2[fam.key(k)] = fam.val(k + 2)
        for k in candidates[0:40:2]:
            del c2[k]
        for k in candidates[40:80:2]:
            c2[k] = fam.val(k + 5)
        # new: disjoint inserts / deletes / changes
        for k in rnd.sample(range(9000, 13000), 60):
            c3[fam.key(k)] = fam.val(k + 3)
        for k in candidates[80:120:2]:
            del c3[k]
        for k in candidates[120:160:2]:
            c3[k] = fam.val(k + 7)
        exp = dict(base)
        for src in (c2, c3):
            for k in base:
                if k not in src:
                    exp.pop(k, None)
                elif src[k] != base[k]:
                    exp[k] = src[k]
            for k in src:
                if k not in base:
                    exp[k] = src[k]
        for kind, mapping in (('Bucket', True), ('Set', False)):
            mk = getattr(fam, kind)
            mkpy = getattr(fam, kind + 'Py')
            conv = (lambda d: d) if mapping else (lambda d: list(d))
            s1, s2, s3 = (mk(conv(d)).__getstate__() for d in (base, c2, c3))
            merged = mk()._p_resolveConflict(s1, s2, s3)
            r = mk()
            r.__setstate__(merged)
            if mapping:
                check(list(r.items()) == sorted(exp.items()),
                      p + kind + " merge vs model")
            else:
                check(list(r) == sorted(exp), p + kind + " merge vs model")
            check(merged == mkpy()._p_resolveConflict(s1, s2, s3),
                  p + kind + " merge vs Py")
            # the tree-level entry point with a one-leaf tree
            tk = fam.BTree if mapping else fam.TreeSet
            t1, t2, t3 = (tk(conv(d)).__getstate__() for d in (base, c2, c3))
            if len(t1) == 1 and len(t2) == 1 and len(t3) == 1:
                tm = tk()._p_resolveConflict(t1, t2, t3)
                tr = tk()
                tr.__setstate__(tm)
                sound(tr, p + kind + " tree merge")
                check(list(tr.keys()) == sorted(exp), p + kind + " tree merge")
            # conflicts are reported with the recorded reason codes
            for mutate, reason in (
                    (lambda a, b: (a.__setitem__(fam.key(20000), fam.val(1)),
                                   b.__setitem__(fam.key(20000), fam.val(1))),
                     (6, 4)),
                    (lambda a, b: (a.pop(candidates[5]), b.pop(candidates[5])),
                     (4, 5, 7, 8, 9)),
                    (lambda a, b: a.pop(first), (13,)),
                    (lambda a, b: a.clear(), (12,)),
            ):
                a, b = dict(base), dict(base)
                mutate(a, b)
                sa, sb = mk(conv(a)).__getstate__(), mk(conv(b)).__getstate__()
                try:
                    mk()._p_resolveConflict(s1, sa, sb)
                except BTrees.Interfaces.BTreesConflictError as e:
                    check(e.reason in reason,
                          p + kind + " conflict reason %r" % (e.reason,))
                    try:
                        mkpy()._p_resolveConflict(s1, sa, sb)
                    except BTrees.Interfaces.BTreesConflictError as e2:
                        check(e2.reason == e.reason,
                              p + kind + " conflict reason vs Py")
                    else:
                        check(False, p + kind + " Py did not conflict")
                else:
                    check(False, p + kind + " conflict not reported")


# ---------------------------------------------------------------------------
# section: reference counts and persistence notifications

class Jar:
    """Minimal data manager: records the objects that registered a change."""

    def __init__(self):
        self.registered = []

    def register(self, obj):
        self.registered.append(obj)

    def readCurrent(self, obj):
        pass

    def setstate(self, obj):
        raise AssertionError("no ghost should be loaded in this demo")


def refs(objs):
    return [sys.getrefcount(o) for o in objs]


def adopt(obj, jar, oid):
    obj._p_jar = jar
    obj._p_oid = oid


def section_refcounts_and_persistence():
    # object keys and values are owned exactly once by the container
    keys = [('key', i) for i in range(400)]
    vals = [['val', i] for i in range(400)]
    base_k = refs(keys)
    base_v = refs(vals)
    for cls in (OOBTree.OOBTree, small_nodes(OOBTree.OOBTree, 4, 4),
                OOBTree.OOBucket):
        t = cls()
        for k, v in zip(keys, vals):
            t[k] = v
        del k, v
        sound(t, cls.__name__ + " refcount workload")
        kc = [r - b for r, b in zip(refs(keys), base_k)]
        vc = [r - b for r, b in zip(refs(vals), base_v)]
        # a key is referenced once by its leaf and possibly once more as a
        # separator in each interior level; a value exactly once
        check(all(c >= 1 for c in kc) and all(c == 1 for c in vc),
              cls.__name__ + ": references held while stored")
        if cls is OOBTree.OOBucket:
            check(all(c == 1 for c in kc), "OOBucket: one reference per key")
        for k in keys[::2]:
            del t[k]
        del k
        sound(t, cls.__name__ + " after deletes")
        vc = [r - b for r, b in zip(refs(vals), base_v)]
        check(vc[::2] == [0] * 200 and vc[1::2] == [1] * 200,
              cls.__name__ + ": values released by delete")
        t.clear()
        check(refs(keys) == base_k and
              refs(vals) == base_v,
              cls.__name__ + ": everything released by clear")
        for k, v in zip(keys, vals):
            t[k] = v
        del t, k, v
        gc.collect()
        check(refs(keys) == base_k and
              refs(vals) == base_v,
              cls.__name__ + ": everything released by dealloc")
    for cls in (OOBTree.OOTreeSet, small_nodes(OOBTree.OOTreeSet, 4, 4),
                OOBTree.OOSet):
        s = cls()
        s.update(keys)
        r = OOBTree.union(s, OOBTree.OOSet(keys[:100]))
        check(len(r) == 400, cls.__name__ + " union size")
        del r
        m = OOBTree.difference(s, OOBTree.OOSet(keys[:100]))
        check(len(m) == 300, cls.__name__ + " difference size")
        del m, s
        gc.collect()
        check(refs(keys) == base_k,
              cls.__name__ + ": keys released")

    # persistence notifications: C and Python register the same objects
    def trace(fam, py):
        jar = Jar()
        cls = small_nodes(fam.BTreePy if py else fam.BTree, 4, 4)
        t = cls()
        adopt(t, jar, b'root')
        log = []
        names = {id(t): 'root'}

        def name_new_nodes():
            def walk(node, path):
                if id(node) not in names:
                    names[id(node)] = path
                st = node.__getstate__()
                if st is None or len(st) == 1 or not hasattr(node, '_check'):
                    return
                for n, child in enumerate(st[0][::2]):
                    if child._p_jar is None:
                        adopt(child, jar, ('%s/%d' % (path, n)).encode())
                    walk(child, '%s/%d' % (path, n))
            walk(t, 'root')

        for i in range(120):
            before = len(jar.registered)
            t[fam.key(i * 37 % 200)] = fam.val(i)
            log.append(('set', i, sorted(names.get(id(o), '?')
                                         for o in jar.registered[before:])))
            name_new_nodes()
            for o in jar.registered:
                o._p_changed = False
            del jar.registered[:]
        for i in range(0, 120, 3):
            before = len(jar.registered)
            del t[fam.key(i * 37 % 200)]
            log.append(('del', i, sorted(names.get(id(o), '?')
                                         for o in jar.registered[before:])))
            for o in jar.registered:
                o._p_changed = False
            del jar.registered[:]
        if DEBUG:
            print(log[:6], log[60:64], log[-3:])
        return log, list(t.items())

    for prefix in ('OO', 'II', 'LF'):
        fam = BY_PREFIX[prefix]
        clog, citems = trace(fam, False)
        plog, pitems = trace(fam, True)
        check(citems == pitems, prefix + ": persistence trace contents")
        check(clog == plog,
              prefix + ": C and Python register different objects")
        check(any(names for _, _, names in clog),
              prefix + ": persistence trace recorded nothing")


COMMON_SECTIONS = [
    c_extensions_in_use,
    section_workloads,
    section_sequential_root_split,
    section_state_loading,
    section_state_loading_errors,
    section_set_algebra,
    section_conflict_merge,
    section_refcounts_and_persistence,
]

# ---------------------------------------------------------------------------
# section: interior growth (BTree_grow), child split and root split
#
# With two-item leaves and a huge interior limit the root's child vector is
# driven through every doubling 2 -> 4 -> ... -> 1024 (new child appended at
# the end, inserted at the front, inserted in the middle: the three memmove
# cases).  With tiny interior limits the root is split over and over.  After
# every step the tree is checked and compared with a dict and, for the
# insert-only histories, with the shape of the Python implementation.

def section_interior_growth():
    for prefix in ('OO', 'II', 'LF'):
        fam = BY_PREFIX[prefix]
        for leaf, internal, count in ((2, 100000, 1500), (2, 3, 500),
                                      (3, 4, 500), (5, 3, 500), (30, 4, 2000)):
            for order_name, order in (
                    ('ascending', list(range(count))),
                    ('descending', list(range(count - 1, -1, -1))),
                    ('scattered', [(i * 7919) % count for i in range(count)])):
                what = "%s leaf=%d internal=%d %s" % (prefix, leaf, internal,
                                                      order_name)
                for mapping in (True, False):
                    if mapping:
                        t = small_nodes(fam.BTree, leaf, internal)()
                        tp = small_nodes(fam.BTreePy, leaf, internal)()
                    else:
                        t = small_nodes(fam.TreeSet, leaf, internal)()
                        tp = small_nodes(fam.TreeSetPy, leaf, internal)()
                    check(t.__getstate__() is None and not t,
                          what + ": a new tree has no state")
                    model = {}
                    for n, i in enumerate(order):
                        if mapping:
                            t[fam.key(i)] = tp[fam.key(i)] = fam.val(i)
                        else:
                            check(t.insert(fam.key(i)) == 1,
                                  what + ": insert result")
                            tp.insert(fam.key(i))
                        model[fam.key(i)] = fam.val(i)
                        if n < 24 or n % 97 == 0:
                            t._check()
                            check(len(t) == n + 1, what + ": len at %d" % n)
                            check(shape(t, fam) == shape(tp, fam),
                                  what + ": shape at step %d" % n)
                    sound(t, what)
                    same_contents(t, model if mapping else set(model), what,
                                  mapping)
                    check(shape(t, fam) == shape(tp, fam), what + ": final shape")
                    if internal == 100000:
                        st = t.__getstate__()
                        check(len(st[0]) // 2 + 1 > 512 and
                              not isinstance(st[0][0], type(t)),
                              what + ": flat root with >512 children expected")
                    else:
                        check(isinstance(t.__getstate__()[0][0], type(t)),
                              what + ": the root must have been split")
                    # the first insert into an emptied tree creates a fresh
                    # empty leaf again
                    t.clear()
                    check(t.__getstate__() is None, what + ": cleared")
                    if mapping:
                        t[fam.key(7)] = fam.val(7)
                    else:
                        t.insert(fam.key(7))
                    sound(t, what + " after clear")
                    check(list(t.keys()) == [fam.key(7)] and
                          len(t.__getstate__()) == 1,
                          what + ": one-leaf tree after clear")


class NodeFactoryError(Exception):
    pass


def section_interior_growth_errors():
    """Error paths of BTree_grow / BTree_split_root reachable from Python."""
    # 1. the leaf factory fails while the first leaf of an empty tree is made
    def no_leaf():
        raise NodeFactoryError("no leaf")

    for base, pybase in ((OOBTree.OOBTree, OOBTree.OOBTreePy),
                         (LLBTree.LLTreeSet, LLBTree.LLTreeSetPy)):
        for b in (base, pybase):
            cls = type(b.__name__ + 'NoLeaf', (b,),
                       {'_bucket_type': staticmethod(no_leaf)})
            t = cls()
            for attempt in range(3):
                if 'Set' in b.__name__:
                    e = raises(NodeFactoryError, t.insert, 1)
                else:
                    e = raises(NodeFactoryError, t.__setitem__, 1, 1)
                check(e is not None, cls.__name__ + ": factory error propagates")
                check(len(t) == 0 and not t and list(t.keys()) == [] and
                      t.__getstate__() is None,
                      cls.__name__ + ": still empty after failed first insert")
                t._check()
            cls._bucket_type = b._bucket_type
            if 'Set' in b.__name__:
                t.insert(1)
            else:
                t[1] = 1
            check(list(t.keys()) == [1], cls.__name__ + ": usable afterwards")
            t._check()

    # 2. bad node sizes configured on the class
    for attr, value, exc, msg in (
            ('max_internal_size', 'x', TypeError,
             "'str' object cannot be interpreted as an integer"),
            ('max_leaf_size', -5, ValueError,
             "non-positive max size in BTree subclass")):
        cls = type('BadSizes', (IIBTree.IIBTree,), {attr: value})
        t = cls()
        e = raises(exc, t.__setitem__, 1, 1)
        check(e is not None and str(e) == msg, "bad %s: %r" % (attr, e))
        check(len(t) == 0 and t.__getstate__() is None,
              "bad %s: nothing was created" % attr)

    # 3. the constructor of a new interior node fails (child split and root
    #    split both make one).  The key that triggered the split is already
    #    stored; the tree stays sound and the same insert then goes through.
    for base in (OOBTree.OOBTree, IIBTree.IIBTree, LFBTree.LFBTree):
        class Flaky(base):
            max_leaf_size = 4
            max_internal_size = 3
            failing = False

            def __init__(self, *args):
                if type(self).failing:
                    raise NodeFactoryError("no node")
                super().__init__(*args)

        t = Flaky()
        model = {}
        failures = []
        for i in range(600):
            k = (i * 7919) % 600
            Flaky.failing = True
            try:
                t[k] = i
            except NodeFactoryError:
                failures.append(i)
                t._check()
                # recorded behaviour: the new key is in, only the
                # rebalancing step was abandoned
                check(len(t) == len(model) + 1 and k in t,
                      base.__name__ + ": key stored before the failed split")
            finally:
                Flaky.failing = False
            t[k] = i
            model[k] = i
            if i % 50 == 0:
                t._check()
                check(list(t.items()) == sorted(model.items()),
                      base.__name__ + ": contents at step %d" % i)
        t._check()
        check(list(t.items()) == sorted(model.items()),
              base.__name__ + ": final contents with flaky node constructor")
        check(len(failures) >= 10,
              base.__name__ + ": the failing constructor was reached (%d)"
              % len(failures))
        FLAKY_LOG.setdefault('log', failures)
        check(failures == FLAKY_LOG['log'],
              base.__name__ + ": same failure points in every family")
    check(FLAKY_LOG['log'][:8] == FLAKY_EXPECTED_HEAD,
          "failure points of the flaky constructor: %r" % FLAKY_LOG['log'][:8])


FLAKY_LOG = {}
FLAKY_EXPECTED_HEAD = [17, 20, 23, 24, 26, 32, 35, 38]  # recorded constant


FOCUS_SECTIONS = [section_interior_growth, section_interior_growth_errors]


def main():
    import time
    sections = FOCUS_SECTIONS + COMMON_SECTIONS
    for s in sections:
        t0 = time.time()
        before = NCHECKS[0]
        s()
        print("%-36s %6d checks %6.1fs" % (s.__name__, NCHECKS[0] - before,
                                           time.time() - t0))
    print("%d checks, %d failures" % (NCHECKS[0], len(FAILURES)))
    return 1 if FAILURES else 0


if __name__ == '__main__':
    sys.exit(main())
