"""Equivalence demonstration for refactoring C18s.

Walker.walk() in check.py: the nested if/else was flattened (bucket case
first, `continue`), the `elif EMPTY: pass / else` pair merged, the reverse
index loop written with reversed(), and the computation of a child's (lo, hi)
range and the synthesis of a stand-in bucket extracted into the module-level
helpers _child_range() and _synthesize_bucket().

A recording Walker subclass is run over many tree shapes (valid and
corrupted; with and without oids; hand-made and public-API-made) and every
visit - order, object, path, parent, is_mapping, keys, kids/values, and the
(lo, hi) range - is compared with an independent recursive model that is
part of this file.  Then valid trees and every single corruption of them are
run through BTrees.check.check() and ._check() and compared (outcome, full
message text) with the reference models.

Run:  PYTHONPATH=<worktree>/src /venv/bin/python demo.py"""
import copy
import gc
import importlib
import re
import sys

from BTrees import check as checkmod
from BTrees.check import check

# ---------------------------------------------------------------------------
# A tiny explicit model of a tree ("spec").  It is independent of check.py and
# of _check(): the specs are turned into real containers through __setstate__
# only, and every prediction below is computed from the spec / shadow graph.
# ---------------------------------------------------------------------------

AUTO = 'auto'


class Leaf:
    kind = 'L'

    def __init__(self, keys):
        self.keys = list(keys)
        self.next = AUTO          # AUTO | None | ('leaf', n) | 'extra'

    def leaves(self):
        return [self]


class Inner:
    kind = 'T'

    def __init__(self, keys, kids, inline=False):
        self.keys = list(keys)    # separators, len(kids) - 1 of them
        self.kids = list(kids)
        self.inline = inline      # single bucket squashed into the state
        self.firstbucket = AUTO   # AUTO | ('leaf', n)

    def leaves(self):
        out = []
        for k in self.kids:
            out.extend(k.leaves())
        return out


def inner_nodes(node, path=()):
    """All Inner nodes with their paths, preorder."""
    if node.kind == 'T':
        yield path, node
        for i, k in enumerate(node.kids):
            yield from inner_nodes(k, path + (i,))


def node_at(root, path):
    for i in path:
        root = root.kids[i]
    return root


def make_spec(nkeys, leaf, fan, step=10, base=100):
    """A valid tree over `nkeys` keys with `leaf` keys per bucket and `fan`
    children per internal node (as many levels as that takes)."""
    keys = [base + step * i for i in range(nkeys)]
    level = [Leaf(keys[i:i + leaf]) for i in range(0, nkeys, leaf)]
    mins = [lf.keys[0] for lf in level]
    while True:
        nxt, nmins = [], []
        for i in range(0, len(level), fan):
            grp = level[i:i + fan]
            nxt.append(Inner(mins[i + 1:i + len(grp)], grp))
            nmins.append(mins[i])
        level, mins = nxt, nmins
        if len(level) == 1:
            return level[0]


class Shadow:
    """What a built node really looks like (ground truth for the models)."""

    def __init__(self, kind, obj):
        self.kind = kind
        self.obj = obj
        self.kids = []
        self.firstbucket = None
        self.next = None
        self.len = 0
        self.keys = []


class Classes:
    def __init__(self, prefix, py, mapping):
        mod = importlib.import_module('BTrees.%sBTree' % prefix)
        sfx = 'Py' if py else ''
        self.prefix, self.py, self.mapping = prefix, py, mapping
        self.T = getattr(mod, prefix + ('BTree' if mapping else 'TreeSet') + sfx)
        self.B = getattr(mod, prefix + ('Bucket' if mapping else 'Set') + sfx)
        self.name = '{}{}{}'.format(prefix, 'map' if mapping else 'set',
                                    '/py' if py else '/c')

    def value(self, key):
        # values legal for every family used here (O, I, L, F)
        return (hash(key) % 1000) if isinstance(key, str) else key % 1000


def build(spec, cls, key=lambda k: k):
    """Turn a spec into real objects via __setstate__; return root Shadow."""
    leaves = spec.leaves()
    shadows = {}
    for lf in leaves:
        shadows[id(lf)] = Shadow('L', cls.B())
    extra = None

    def resolve(ref):
        nonlocal extra
        if ref is None:
            return None
        if ref == 'extra':
            if extra is None:
                extra = Shadow('L', cls.B())
                k = key(10 ** 6)
                extra.obj.__setstate__(
                    ((k, cls.value(k)) if cls.mapping else (k,),))
                extra.len, extra.keys = 1, [k]
            return extra
        return shadows[id(leaves[ref[1]])]

    for idx in range(len(leaves) - 1, -1, -1):
        lf = leaves[idx]
        sh = shadows[id(lf)]
        if lf.next == AUTO:
            nxt = shadows[id(leaves[idx + 1])] if idx + 1 < len(leaves) \
                else None
        else:
            nxt = resolve(lf.next)
        ks = [key(k) for k in lf.keys]
        items = []
        for k in ks:
            items.append(k)
            if cls.mapping:
                items.append(cls.value(k))
        state = (tuple(items),) if nxt is None else (tuple(items), nxt.obj)
        sh.obj.__setstate__(state)
        sh.next, sh.len, sh.keys = nxt, len(ks), ks

    def build_inner(node):
        if node.kind == 'L':
            return shadows[id(node)]
        sh = Shadow('T', cls.T())
        sh.keys = [key(k) for k in node.keys]
        if node.inline:
            (lf,) = node.kids
            bsh = shadows[id(lf)]
            sh.obj.__setstate__(((bsh.obj.__getstate__(),),))
            # the tree makes its own private bucket from the inlined state
            priv = Shadow('L', None)
            priv.len, priv.keys, priv.next = bsh.len, bsh.keys, bsh.next
            priv.inline = True
            sh.kids, sh.firstbucket, sh.len = [priv], priv, 1
            return sh
        sh.kids = [build_inner(k) for k in node.kids]
        sh.len = len(sh.kids)
        if not sh.kids:
            return sh                       # an empty tree: never setstate'd
        if node.firstbucket == AUTO:
            sub = node.leaves()
            fb = shadows[id(sub[0])]
        else:
            fb = resolve(node.firstbucket)
        data = [sh.kids[0].obj]
        for k, kid in zip(sh.keys, sh.kids[1:]):
            data.append(k)
            data.append(kid.obj)
        sh.obj.__setstate__((tuple(data), fb.obj))
        sh.firstbucket = fb
        return sh

    return build_inner(spec)


def all_shadows(sh, seen=None):
    out = []
    seen = set() if seen is None else seen
    if id(sh) in seen:
        return out
    seen.add(id(sh))
    out.append(sh)
    for k in sh.kids:
        out.extend(all_shadows(k, seen))
    return out


# ---------------------------------------------------------------------------
# Reference models of the two pointer checkers (written from the documented
# invariants; the C and the Python _check() test them in a different order and
# with two different messages, hence two flavours).  `touch` is called where
# the implementation has to load (activate) a node.
# ---------------------------------------------------------------------------

class Reject(Exception):
    pass


def need(cond, msg):
    if not cond:
        raise Reject(msg)


def ref_check_c(node, nextbucket, touch):
    touch(node)
    if node.len == 0:
        need(node.firstbucket is None, "Empty BTree has non-NULL firstbucket")
        return
    need(node.firstbucket is not None, "Non-empty BTree has NULL firstbucket")
    kids = node.kids
    n = len(kids)
    if kids[0].kind == 'T':
        touch(kids[0])
        need(node.firstbucket is kids[0].firstbucket,
             "BTree has firstbucket different than "
             "its first child's firstbucket")
        for i, child in enumerate(kids):
            need(child.kind == 'T', "BTree children have different types")
            touch(child)
            need(child.len >= 1, "BTree child length < 1")
            if i == n - 1:
                after = nextbucket
            else:
                touch(kids[i + 1])
                # struct layout: a bucket's `next` sits where a tree keeps
                # `firstbucket`
                after = (kids[i + 1].firstbucket if kids[i + 1].kind == 'T'
                         else kids[i + 1].next)
            ref_check_c(child, after, touch)
    else:
        need(node.firstbucket is kids[0],
             "Bottom-level BTree node has inconsistent firstbucket belief")
        for i, child in enumerate(kids):
            touch(child)
            need(child.kind != 'T', "BTree children have different types")
            need(child.len >= 1, "Bucket length < 1")
            after = nextbucket if i == n - 1 else kids[i + 1]
            need(child.next is after, "Bucket next pointer is damaged")


def ref_check_py(node, nextbucket, touch, need=need):
    touch(node)
    kids = node.kids
    if not kids:
        need(node.firstbucket is None, "Empty BTree has non-NULL firstbucket")
        return
    need(node.firstbucket is not None, "Non-empty BTree has NULL firstbucket")
    for child in kids:
        need(child.kind == kids[0].kind, "BTree children have different types")
        touch(child)
        need(child.len, "Bucket length < 1")
    if kids[0].kind == 'T':
        need(node.firstbucket is kids[0].firstbucket,
             "BTree has firstbucket different than "
             "its first child's firstbucket")
        for i in range(len(kids) - 1):
            ref_check_py(kids[i], kids[i + 1].firstbucket, touch, need)
        ref_check_py(kids[-1], nextbucket, touch, need)
    else:
        need(node.firstbucket is kids[0],
             "Bottom-level BTree node has inconsistent firstbucket belief")
        for i in range(len(kids) - 1):
            need(kids[i].next is kids[i + 1], "Bucket next pointer is damaged")
        need(kids[-1].next is nextbucket, "Bucket next pointer is damaged")


def predict_pointer(cls, root, touch=lambda n: None):
    """None if _check() must accept, else the AssertionError message."""
    try:
        (ref_check_py if cls.py else ref_check_c)(root, None, touch)
    except Reject as e:
        return str(e)
    return None


# ---------------------------------------------------------------------------
# Reference model of BTrees.check.check(): recursive, on the shadow graph.
# Returns the complaints in the order check() must list them (preorder).
# ---------------------------------------------------------------------------

def ref_value_complaints(node, path=(), lo=None, hi=None, out=None, visits=None):
    out = [] if out is None else out
    keys = node.keys
    n = len(keys)
    if visits is not None:
        visits.append((node, path, lo, hi))
    for i, x in enumerate(keys):
        if lo is not None and x < lo:
            out.append((node, path,
                        "key %r < lower bound %r at index %d" % (x, lo, i)))
        if hi is not None and not x < hi:
            out.append((node, path,
                        "key %r >= upper bound %r at index %d" % (x, hi, i)))
        if i + 1 < n and not x < keys[i + 1]:
            out.append((node, path, "key %r at index %d >= key %r at index %d"
                        % (x, i, keys[i + 1], i + 1)))
    if node.kind == 'T':
        last = len(node.kids) - 1
        for i, kid in enumerate(node.kids):
            klo = keys[i - 1] if i > 0 else lo
            khi = keys[i] if i < last else hi
            ref_value_complaints(kid, path + (i,), klo, khi, out, visits)
    return out


ADR = re.compile(r'\(0x[0-9a-f]+ oid=')


def norm(text):
    return ADR.sub('(0xADDR oid=', text)


def expected_check_text(cls, root):
    """The complete (address-normalised) AssertionError text, or None."""
    complaints = ref_value_complaints(root)
    if not complaints:
        return None

    def tname(node):
        # repr-independent: type name as check.py prints it
        if node.obj is None:
            return cls.B.__name__
        return type(node.obj).__name__

    def oid(node):
        if node.obj is None or node.obj._p_oid is None:
            return 'None'
        return checkmod.oid_repr(node.obj._p_oid)

    lines = ["Errors found in %s (0xADDR oid=%s):" % (tname(root), oid(root))]
    for node, path, msg in complaints:
        lines.append("%s, in %s (0xADDR oid=%s), path from root %s" % (
            msg, tname(node), oid(node), ".".join(str(i) for i in path)))
    return "\n".join(lines)


# ---------------------------------------------------------------------------
# Running the real checkers
# ---------------------------------------------------------------------------

def run(fn):
    """('ok', result) or (exception class, message)."""
    try:
        return 'ok', fn()
    except Exception as e:                       # noqa
        return type(e), str(e)


def refcounts(shadows):
    gc.collect()
    return [sys.getrefcount(s.obj) for s in shadows if s.obj is not None]


def states(shadows):
    return [s.obj._p_state for s in shadows if s.obj is not None]


class Stats:
    def __init__(self):
        self.cases = 0
        self.by_outcome = {}

    def note(self, what):
        self.cases += 1
        self.by_outcome[what] = self.by_outcome.get(what, 0) + 1


def verify(cls, spec, stats, label, key=lambda k: k, must_reject=None):
    """Build `spec`, run both checkers, compare with both reference models.

    must_reject: None (no opinion), True (the property demands that at least
    one checker raises AssertionError) or False (both must accept)."""
    root = build(spec, cls, key)
    nodes = all_shadows(root)
    rc_before = refcounts(nodes)
    none_before = sys.getrefcount(None)

    want_ptr = predict_pointer(cls, root)
    got = run(lambda: root.obj._check())
    if want_ptr is None:
        assert got == ('ok', None), (cls.name, label, '_check', got)
    else:
        assert got == (AssertionError, want_ptr), \
            (cls.name, label, '_check', got, want_ptr)

    want_val = expected_check_text(cls, root)
    got_val = run(lambda: check(root.obj))
    if want_val is None:
        assert got_val == ('ok', None), (cls.name, label, 'check', got_val)
    else:
        assert got_val[0] is AssertionError, (cls.name, label, got_val)
        assert norm(got_val[1]) == want_val, \
            (cls.name, label, 'check', norm(got_val[1]), want_val)

    # nothing leaked, nothing left pinned ("sticky") by the checkers
    del got, got_val
    assert refcounts(nodes) == rc_before, (cls.name, label, 'refcounts')
    assert abs(sys.getrefcount(None) - none_before) < 3
    assert set(states(nodes)) <= {0}, (cls.name, label, states(nodes))

    rejected = want_ptr is not None or want_val is not None
    if must_reject is not None:
        assert rejected == must_reject, (cls.name, label, want_ptr, want_val)
    stats.note(('_check:' + (want_ptr or 'accept'),
                'check:' + ('reject' if want_val else 'accept')))
    return root


# ---------------------------------------------------------------------------
# Single corruptions of a valid spec.  Each yields (label, corrupted spec).
# ---------------------------------------------------------------------------

def corruptions(spec):
    """Yield (label, make) pairs; make() returns a corrupted deep copy."""
    leaves = spec.leaves()
    nleaves = len(leaves)

    def on_leaf(li, change):
        def make():
            s = copy.deepcopy(spec)
            change(s.leaves()[li])
            return s
        return make

    def on_node(path, change):
        def make():
            s = copy.deepcopy(spec)
            change(node_at(s, path))
            return s
        return make

    def swap(j):
        def change(lf):
            lf.keys[j], lf.keys[j + 1] = lf.keys[j + 1], lf.keys[j]
        return change

    def setkey(j, value):
        def change(lf):
            lf.keys[j] = value
        return change

    def setattr_(name, value):
        def change(x):
            setattr(x, name, value)
        return change

    # --- key order inside a leaf --------------------------------------
    for li, lf in enumerate(leaves):
        for j in range(len(lf.keys) - 1):
            yield ('swap keys %d,%d of leaf %d' % (j, j + 1, li),
                   on_leaf(li, swap(j)))
            yield ('duplicate key %d of leaf %d' % (j, li),
                   on_leaf(li, setkey(j + 1, lf.keys[j])))
    # --- keys outside the range promised by the separators ------------
    for li, lf in enumerate(leaves):
        if li > 0:
            yield ('first key of leaf %d shifted below its range' % li,
                   on_leaf(li, setkey(0, leaves[li - 1].keys[-1] - 1)))
        if li < nleaves - 1:
            yield ('last key of leaf %d shifted to its upper bound' % li,
                   on_leaf(li, setkey(-1, leaves[li + 1].keys[0])))
            yield ('last key of leaf %d shifted above its range' % li,
                   on_leaf(li, setkey(-1, leaves[li + 1].keys[0] + 1)))
    # --- separators out of range / out of order ------------------------
    for path, node in inner_nodes(spec):
        for j in range(len(node.keys)):
            right_min = node.kids[j + 1].leaves()[0].keys[0]
            left_max = node.kids[j].leaves()[-1].keys[-1]
            yield ('separator %d of node %r moved above right child' % (
                j, path), on_node(path, setkey(j, right_min + 1)))
            yield ('separator %d of node %r moved onto left child' % (
                j, path), on_node(path, setkey(j, left_max)))
        for j in range(len(node.keys) - 1):
            yield ('separators %d,%d of node %r swapped' % (j, j + 1, path),
                   on_node(path, swap(j)))
    # --- linking of leaves ----------------------------------------------
    for li in range(nleaves):
        if li < nleaves - 1:
            yield ('next pointer of leaf %d dropped' % li,
                   on_leaf(li, setattr_('next', None)))
            yield ('next pointer of leaf %d points to itself' % li,
                   on_leaf(li, setattr_('next', ('leaf', li))))
        if li < nleaves - 2:
            yield ('next pointer of leaf %d skips a leaf' % li,
                   on_leaf(li, setattr_('next', ('leaf', li + 2))))
        if li > 0:
            yield ('next pointer of leaf %d points backwards' % li,
                   on_leaf(li, setattr_('next', ('leaf', li - 1))))
        yield ('next pointer of leaf %d redirected to a stray bucket' % li,
               on_leaf(li, setattr_('next', 'extra')))
    # --- non-emptiness ------------------------------------------------------
    if nleaves > 1:
        for li in range(nleaves):
            yield 'leaf %d emptied' % li, on_leaf(li, setattr_('keys', []))

    def empty_node(victim):
        victim.keys, victim.kids = [], []

    for path, node in inner_nodes(spec):
        if path and path[-1] != 0:
            # (an emptied *leftmost* subtree also changes what firstbucket
            # ought to be; the single-change cases are the others)
            yield 'internal node %r emptied' % (path,), on_node(
                path, empty_node)
    # --- wrong firstbucket ----------------------------------------------------
    if nleaves > 1:
        index = {id(lf): n for n, lf in enumerate(leaves)}
        for path, node in inner_nodes(spec):
            sub = node.leaves()
            first = index[id(sub[0])]
            for target in sorted({(first + 1) % nleaves,
                                  (first - 1) % nleaves,
                                  index[id(sub[-1])]}):
                if target == first:
                    continue
                yield ('firstbucket of node %r set to leaf %d' % (
                    path, target),
                    on_node(path, setattr_('firstbucket', ('leaf', target))))
    # --- uniformity of child kinds ------------------------------------------

    def wrap(j):
        # wrap the leaf into a one-child tree node: same keys, same leaf
        # chain, but the parent now mixes buckets and trees
        def change(par):
            par.kids[j] = Inner([], [par.kids[j]])
        return change

    def unwrap(j):
        def change(par):
            par.kids[j] = par.kids[j].kids[0]
        return change

    for path, node in inner_nodes(spec):
        for j, kid in enumerate(node.kids):
            if j == 0:
                continue
            if kid.kind == 'L':
                yield ('child %d of node %r replaced by a tree node' % (
                    j, path), on_node(path, wrap(j)))
            elif len(kid.kids) == 1 and kid.kids[0].kind == 'L':
                yield ('child %d of node %r replaced by its bucket' % (
                    j, path), on_node(path, unwrap(j)))


def api_tree(cls, keys, delete=()):
    t = cls.T()
    for k in keys:
        if cls.mapping:
            t[k] = cls.value(k)
        else:
            t.add(k)
    for k in delete:
        if cls.mapping:
            del t[k]
        else:
            t.remove(k)
    return t


def spec_of(tree, mapping):
    """Crack a public-API tree into a spec (own code, not check.py's)."""
    def leaf_of(bucket, mapping):
        st = bucket.__getstate__()
        items = st[0]
        return Leaf(items[::2] if mapping else items)

    def rec(t, mapping):
        st = t.__getstate__()
        if st is None:
            return Inner([], [])
        if len(st) == 1:
            items = st[0][0][0]
            return Inner([], [Leaf(items[::2] if mapping else items)],
                         inline=True)
        data = st[0]
        kids = [rec(k, mapping) if type(k) is type(t) else leaf_of(k, mapping)
                for k in data[0::2]]
        return Inner(data[1::2], kids)

    return rec(tree, mapping)


def shapes(cls):
    """(name, spec, key function, stride) - stride n: every n-th corruption"""
    ident = (lambda k: k)
    strkey = (lambda k: 'k%07d' % k)
    keyfs = [('int', ident)]
    if cls.prefix == 'OO':
        keyfs.append(('str', strkey))
    for kname, keyf in keyfs:
        one = make_spec(3, 4, 3)
        yield 'one bucket (%s)' % kname, one, keyf, 1
        inl = make_spec(3, 4, 3)
        inl.inline = True
        yield 'one inlined bucket (%s)' % kname, inl, keyf, 1
        yield '2 levels (%s)' % kname, make_spec(8, 3, 3), keyf, 1
        yield '3 levels (%s)' % kname, make_spec(24, 3, 3), keyf, 1
    yield '5 levels, ragged', make_spec(59, 2, 3), ident, 3
    # shapes made by the public API: growth only, and growth then shrinkage
    n = 9000 if cls.prefix == 'OO' else 70000
    if cls.py:
        n //= 6
    grown = api_tree(cls, range(0, 3 * n, 3))
    assert run(grown._check) == ('ok', None) and run(
        lambda: check(grown)) == ('ok', None)
    spec = spec_of(grown, cls.mapping)
    total = sum(1 for _ in corruptions(spec))
    yield 'API-grown (%d keys)' % n, spec, ident, max(1, total // 40)
    keep = set(range(0, 3 * n, 3 * 37)) | set(range(0, 300, 3))
    shrunk = api_tree(cls, range(0, 3 * n, 3),
                      delete=[k for k in range(0, 3 * n, 3) if k not in keep])
    assert run(shrunk._check) == ('ok', None) and run(
        lambda: check(shrunk)) == ('ok', None)
    spec = spec_of(shrunk, cls.mapping)
    total = sum(1 for _ in corruptions(spec))
    yield 'API-shrunk', spec, ident, max(1, total // 40)


def property_matrix(class_list, stats):
    for cls in class_list:
        assert run(cls.T()._check) == ('ok', None)
        assert run(lambda: check(cls.T())) == ('ok', None)
        for name, spec, keyf, stride in shapes(cls):
            verify(cls, spec, stats, name + ' pristine', keyf,
                   must_reject=False)
            for n, (label, make) in enumerate(corruptions(spec)):
                if n % stride:
                    continue
                verify(cls, make(), stats, name + ': ' + label, keyf,
                       must_reject=True)


# ---------------------------------------------------------------------------
# Persistence: which nodes get loaded, in which order, and what happens when
# loading one fails.
# ---------------------------------------------------------------------------

class Boom(Exception):
    pass


class Jar:
    def __init__(self):
        self.states = {}
        self.log = []
        self.fail = None

    def setstate(self, obj):
        self.log.append(obj._p_oid)
        if obj._p_oid == self.fail:
            raise Boom(obj._p_oid)
        obj.__setstate__(self.states[obj._p_oid])

    def register(self, obj):
        self.log.append(('register', obj._p_oid))


def ghost_tests(cls, spec, stats, label):
    root = build(spec, cls)
    nodes = all_shadows(root)
    assert all(s.obj is not None for s in nodes)
    jar = Jar()
    # children first, so that parents' states refer to children with oids
    for n, sh in enumerate(reversed(nodes)):
        sh.oid = n.to_bytes(8, 'big')
        sh.obj._p_oid = sh.oid
        sh.obj._p_jar = jar
        jar.states[sh.oid] = sh.obj.__getstate__()

    def ghostify():
        for sh in nodes:
            sh.obj._p_deactivate()
        assert set(states(nodes)) == {-1}
        jar.log = []

    order = []

    def touch(node):
        if node.oid not in order:
            order.append(node.oid)

    want = predict_pointer(cls, root, touch)
    ghostify()
    rc = refcounts(nodes)
    got = run(lambda: root.obj._check())
    assert got == (('ok', None) if want is None else (AssertionError, want)), \
        (cls.name, label, got, want)
    assert jar.log == order, (cls.name, label, jar.log, order)
    untouched = [sh for sh in nodes if sh.oid not in order]
    assert all(sh.obj._p_state == -1 for sh in untouched)
    assert all(sh.obj._p_state == 0 for sh in nodes if sh.oid in order)
    stats.note(('ghosts', want or 'accept'))

    # a node that cannot be loaded: its error comes out, not AssertionError,
    # and nothing stays pinned
    for victim in nodes:
        if victim.oid not in order:
            continue
        ghostify()
        jar.fail = victim.oid
        got = run(lambda: root.obj._check())
        jar.fail = None
        assert got == (Boom, str(victim.oid)), (cls.name, label, got)
        assert jar.log == order[:order.index(victim.oid) + 1]
        assert victim.obj._p_state == -1
        assert set(states(nodes)) <= {0, -1}
        # and afterwards the very same objects check out as predicted
        got = run(lambda: root.obj._check())
        assert got == (('ok', None) if want is None
                       else (AssertionError, want))
        assert set(states(nodes)) <= {0, -1}
        stats.note(('ghosts', 'load failure'))
    del got
    ghostify()
    assert refcounts(nodes) == rc, (cls.name, label)


def ghost_matrix(class_list, stats):
    for cls in class_list:
        for name, spec in (('2 levels', make_spec(8, 3, 3)),
                           ('3 levels', make_spec(24, 3, 3)),
                           ('4 levels', make_spec(22, 2, 2))):
            ghost_tests(cls, spec, stats, name)
            for label, make in corruptions(spec):
                if 'next pointer' in label or 'emptied' in label \
                        or 'firstbucket' in label or 'replaced' in label:
                    ghost_tests(cls, make(), stats, name + ': ' + label)


def report(stats):
    for k in sorted(stats.by_outcome, key=repr):
        print('%6d  %s' % (stats.by_outcome[k], k))
    print('%6d  cases, all as predicted' % stats.cases)


# ---------------------------------------------------------------------------
# C18s: Walker.walk() in check.py - the range propagation
# ---------------------------------------------------------------------------

class Recorder(checkmod.Walker):
    """Records every visit with everything walk() hands over."""

    def __init__(self, obj):
        checkmod.Walker.__init__(self, obj)
        self.visits = []

    def visit_btree(self, obj, path, parent, is_mapping, keys, kids, lo, hi):
        self.visits.append(('T', obj, list(path), type(path), parent,
                            is_mapping, keys, type(keys), kids, type(kids),
                            lo, hi))

    def visit_bucket(self, obj, path, parent, is_mapping, keys, values,
                     lo, hi):
        self.visits.append(('L', obj, list(path), type(path), parent,
                            is_mapping, keys, type(keys), values,
                            type(values), lo, hi))


def walk_matches_model(cls, root, label):
    """walk() must visit exactly the nodes of the model, in preorder, with
    the model's path, parent, keys, children/values and (lo, hi) range."""
    model = []
    ref_value_complaints(root, visits=model)
    parents = {}
    for sh in all_shadows(root):
        for k in sh.kids:
            parents[id(k)] = sh
    rec = Recorder(root.obj)
    assert rec.walk() is None
    assert len(rec.visits) == len(model), (cls.name, label)
    synthesized = {}
    for got, (node, path, lo, hi) in zip(rec.visits, model):
        (kind, obj, gpath, tpath, parent, is_mapping, keys, tkeys, more,
         tmore, glo, ghi) = got
        where = (cls.name, label, path)
        assert kind == node.kind, where
        assert gpath == list(path) and tpath is list, where
        assert is_mapping is cls.mapping, where
        assert (glo, ghi) == (lo, hi), where + (glo, ghi, lo, hi)
        if node.obj is not None:
            assert obj is node.obj, where
        else:
            # the stand-in for a bucket squashed into its parent's state
            assert type(obj) is cls.B and obj is synthesized[id(node)], where
        want_parent = parents.get(id(node))
        assert parent is (want_parent.obj if want_parent else None), where
        if kind == 'T':
            assert tkeys is list and tmore is list, where
            assert keys == node.keys, where
            assert len(more) == len(node.kids), where
            for kid_obj, kid in zip(more, node.kids):
                if kid.obj is None:
                    assert type(kid_obj) is cls.B, where
                    synthesized[id(kid)] = kid_obj
                else:
                    assert kid_obj is kid.obj, where
        else:
            assert list(keys) == node.keys, where
            if cls.mapping:
                assert tkeys is list and tmore is list, where
                assert more == [cls.value(k) for k in node.keys], where
            else:
                assert tkeys is tuple and more == [] and tmore is list, where
    return len(model)


def unwrapped_single_buckets(root):
    """check.py never sees a one-bucket node whose bucket has no oid as such:
    __getstate__ squashes the bucket into the node's state.  Say so in the
    model: mark such a bucket as 'to be synthesized'."""
    for sh in all_shadows(root):
        if sh.kind == 'T' and len(sh.kids) == 1 and sh.kids[0].kind == 'L' \
                and sh.kids[0].obj is not None \
                and sh.kids[0].obj._p_oid is None:
            real = sh.kids[0]
            standin = Shadow('L', None)
            standin.keys, standin.len, standin.next = (
                real.keys, real.len, real.next)
            sh.kids = [standin]
    return root


def walk_cases(stats):
    for cls in [Classes(p, py, m) for p in ('OO', 'LF')
                for py in (False, True) for m in (True, False)]:
        # the empty tree: one visit, no keys, no kids
        rec = Recorder(cls.T())
        rec.walk()
        (v,) = rec.visits
        assert v[0] == 'T' and v[2:] == ([], list, None, cls.mapping, [],
                                         list, [], list, None, None), v
        # a lone bucket / set
        b = cls.B()
        b.__setstate__(((1, 1, 2, 2) if cls.mapping else (1, 2),))
        rec = Recorder(b)
        rec.walk()
        (v,) = rec.visits
        assert v[0] == 'L' and v[1] is b and v[2:6] == (
            [], list, None, cls.mapping) and list(v[6]) == [1, 2] \
            and v[10:] == (None, None), v
        stats.note(('walk', 'empty tree, lone bucket'))

        specs = [('one bucket', make_spec(3, 4, 3)),
                 ('2 levels', make_spec(8, 3, 3)),
                 ('3 levels', make_spec(24, 3, 3)),
                 ('4 levels', make_spec(22, 2, 2)),
                 ('5 levels, ragged', make_spec(59, 2, 3))]
        inl = make_spec(3, 4, 3)
        inl.inline = True
        specs.append(('one inlined bucket', inl))
        for name, spec in specs:
            root = unwrapped_single_buckets(build(spec, cls))
            n = walk_matches_model(cls, root, name)
            stats.note(('walk', '%d visits' % n))
            # the same shape with oids: a one-bucket node is then walked as
            # an ordinary node with one child
            if not spec.inline:
                root = build(spec, cls)
                for i, sh in enumerate(all_shadows(root)):
                    sh.obj._p_oid = i.to_bytes(8, 'big')
                walk_matches_model(cls, root, name + ' (oids)')
                stats.note(('walk', 'with oids'))
            # ranges are handed down whatever the keys say: walk corrupted
            # trees too (the model does not care about validity either)
            for n, (label, make) in enumerate(corruptions(spec)):
                if n % 5 == 0 and 'replaced' not in label:
                    root = unwrapped_single_buckets(build(make(), cls))
                    walk_matches_model(cls, root, name + ': ' + label)
                    stats.note(('walk', 'corrupted'))
        # public-API trees
        for t in (api_tree(cls, range(0, 6000, 3)),
                  api_tree(cls, range(0, 6000, 3),
                           delete=[k for k in range(0, 6000, 3) if k % 7]),
                  api_tree(cls, range(5))):
            root = build_from_objects(t, cls)
            walk_matches_model(cls, root, 'API tree')
            stats.note(('walk', 'API tree'))

    # a type check.py does not know: KeyError from classify, as ever
    class Mine(Classes('OO', False, True).T):
        pass
    got = run(Recorder(Mine()).walk)
    assert got[0] is KeyError, got
    got = run(Recorder(object()).walk)
    assert got[0] is KeyError, got
    # Walker itself is abstract
    for thing in (Classes('OO', True, True).T(), Classes('OO', True, True).B()):
        got = run(checkmod.Walker(thing).walk)
        assert got[0] is NotImplementedError, got
    stats.note(('walk', 'error paths'))


def build_from_objects(tree, cls):
    """Shadow graph of an existing public-API tree (own cracking code)."""
    def rec(t):
        st = t.__getstate__()
        sh = Shadow('T', t)
        if st is None:
            return sh
        if len(st) == 1:
            items = st[0][0][0]
            kid = Shadow('L', None)
            kid.keys = list(items[::2] if cls.mapping else items)
            sh.kids = [kid]
            return sh
        data = st[0]
        sh.keys = list(data[1::2])
        for k in data[0::2]:
            if type(k) is type(t):
                sh.kids.append(rec(k))
            else:
                kid = Shadow('L', k)
                items = k.__getstate__()[0]
                kid.keys = list(items[::2] if cls.mapping else items)
                sh.kids.append(kid)
        return sh
    return unwrapped_single_buckets(rec(tree))


def main():
    stats = Stats()
    walk_cases(stats)
    classes = [Classes(p, py, m) for p in ('OO', 'II')
               for py in (False, True) for m in (True, False)]
    classes += [Classes('LF', False, True), Classes('LF', True, False)]
    property_matrix(classes, stats)
    report(stats)
    print('C18s demo: OK')


if __name__ == '__main__':
    main()
