
# ---------------------------------------------------------------------------
# Common harness: paired execution of the C and the pure-Python implementation
# against an independent dict/set reference model.
# ---------------------------------------------------------------------------
import gc
import importlib
import pickle
import sys

FAILURES = []


def check(cond, *what):
    if not cond:
        FAILURES.append(what)
        if len(FAILURES) <= 25:
            print("FAIL:", *what)


def outcome(f, *args):
    try:
        return ('ok', f(*args))
    except Exception as e:  # noqa
        return ('exc', type(e).__name__)


I32 = (-2 ** 31, 2 ** 31 - 1)
I64 = (-2 ** 63, 2 ** 63 - 1)
U32 = (0, 2 ** 32 - 1)
U64 = (0, 2 ** 64 - 1)
INT_RANGE = {'I': I32, 'L': I64, 'U': U32, 'Q': U64}


class Kind:
    """Independent description of one key or value data type."""

    def __init__(self, code, is_key):
        self.code = code
        self.is_key = is_key

    def usable(self, x):
        c = self.code
        if c in INT_RANGE:
            lo, hi = INT_RANGE[c]
            return isinstance(x, int) and lo <= x <= hi
        if c == 'F':
            return isinstance(x, (int, float))
        if c == 'O':
            if not self.is_key:
                return True
            return x is None or type(x).__lt__ is not object.__lt__
        if c == 'f':
            n = 2 if self.is_key else 6
            return isinstance(x, bytes) and len(x) == n
        raise AssertionError(c)

    def convert(self, x):
        c = self.code
        if c in INT_RANGE:
            return int(x)
        if c == 'F':
            return float(x)
        return x

    def good(self):
        c = self.code
        if c in INT_RANGE:
            lo, hi = INT_RANGE[c]
            vals = [lo, lo + 1, hi - 1, hi, 0, 1, 2, 3, 5, 7, 100, 1000,
                    True, 65536, hi // 2, hi // 3]
            if lo < 0:
                vals += [-1, -2, -100, lo // 2]
            return vals
        if c == 'F':
            return [0.5, 2, -3, 1.25, 0, True, -0.75, 1024.0, 3, 7, 9, 11,
                    13.5, 15, 17, 19, 21, 23]
        if c == 'O':
            if self.is_key:
                return [None, 0, 1, 2, 3, 5, 7, -1, -2, 100, 1000, 2 ** 70,
                        -2 ** 70, 11, 13, 17, 19, 23, 29, 31]
            return [None, 'a', 1.5, (1, 2), 2 ** 70, b'x', 0, 1, 2, 3, 4,
                    5, 6, 7, 8, 9, 10, 11, 12, 13]
        if c == 'f':
            n = 2 if self.is_key else 6
            return [bytes([i, j]) * (n // 2) for i in (0, 1, 7, 200, 255)
                    for j in (0, 3, 9, 255)]
        raise AssertionError(c)

    def bad(self):
        c = self.code
        if c in INT_RANGE:
            lo, hi = INT_RANGE[c]
            return [None, 'a', 1.5, (1,), b'ab', lo - 1, hi + 1, 2 ** 70,
                    -2 ** 70, object(), [], 2 ** 64, -2 ** 63 - 1]
        if c == 'F':
            return [None, 'a', (1,), b'ab', object(), []]
        if c == 'O':
            if self.is_key:
                return [object()]
            return []
        if c == 'f':
            return [None, 'ab', 1, b'', b'abc', b'a', (1,), object(),
                    b'abcdefg']
        raise AssertionError(c)


FAMILIES = ['OO', 'OI', 'OL', 'OU', 'OQ',
            'IO', 'II', 'IF', 'IU',
            'LO', 'LL', 'LF', 'LQ',
            'UO', 'UU', 'UF', 'UI',
            'QO', 'QQ', 'QF', 'QL',
            'fs']


def family_classes(fam, kind):
    """Return (C class, Python class) for kind in BTree/Bucket/Set/TreeSet."""
    mod = importlib.import_module('BTrees.%sBTree' % fam)
    c = getattr(mod, fam + kind)
    py = getattr(mod, fam + kind + 'Py')
    check(c is not py, fam, kind, 'C extension not in use')
    return c, py


def small(cls):
    """A subclass with tiny nodes, so that few keys give interior nodes."""
    return type(cls)(cls.__name__ + 'Small', (cls,),
                     {'max_leaf_size': 3, 'max_internal_size': 3})


def norm_state(x, depth=0):
    """Implementation-independent rendering of a __getstate__() value."""
    if isinstance(x, tuple):
        return tuple(norm_state(i, depth + 1) for i in x)
    if hasattr(x, '_p_changed') and hasattr(x, '__getstate__'):
        return ('node', norm_state(x.__getstate__(), depth + 1))
    if isinstance(x, float):
        return repr(x)
    return x


def fkey(k):
    # order-independent comparison helper: floats vs ints etc.
    return k


class MapModel:
    """dict based reference model of a mapping with typed keys/values."""

    def __init__(self, kk, vk):
        self.kk, self.vk, self.d = kk, vk, {}

    def setitem(self, k, v):
        if not self.kk.usable(k) or not self.vk.usable(v):
            return ('exc', 'TypeError')
        self.d[self.kk.convert(k)] = self.vk.convert(v)
        return ('ok', None)

    def getitem(self, k):
        if self.kk.usable(k) and self.kk.convert(k) in self.d:
            return ('ok', self.d[self.kk.convert(k)])
        return ('exc', 'KeyError')

    def get(self, k, dflt):
        if self.kk.usable(k):
            return ('ok', self.d.get(self.kk.convert(k), dflt))
        return ('ok', dflt)

    def contains(self, k):
        return ('ok', self.kk.usable(k) and self.kk.convert(k) in self.d)

    def delitem(self, k):
        if not self.kk.usable(k):
            return ('exc', 'TypeError')
        if self.kk.convert(k) not in self.d:
            return ('exc', 'KeyError')
        del self.d[self.kk.convert(k)]
        return ('ok', None)

    def pop(self, k, dflt):
        if not self.kk.usable(k):
            return ('exc', 'TypeError')
        return ('ok', self.d.pop(self.kk.convert(k), dflt))

    def pop_nodefault(self, k):
        if not self.kk.usable(k):
            return ('exc', 'TypeError')
        if self.kk.convert(k) not in self.d:
            return ('exc', 'KeyError')
        return ('ok', self.d.pop(self.kk.convert(k)))

    def setdefault(self, k, v):
        # only called with a usable v or an unusable k (see notes)
        if not self.kk.usable(k) or not self.vk.usable(v):
            return ('exc', 'TypeError')
        return ('ok', self.d.setdefault(self.kk.convert(k),
                                        self.vk.convert(v)))

    def items(self):
        return sorted(self.d.items(),
                      key=lambda kv: (kv[0] is not None, kv[0]))


class SetModel:
    def __init__(self, kk):
        self.kk, self.s = kk, set()

    def add(self, k):
        if not self.kk.usable(k):
            return ('exc', 'TypeError')
        k = self.kk.convert(k)
        new = k not in self.s
        self.s.add(k)
        return ('ok', int(new))

    def remove(self, k):
        if not self.kk.usable(k):
            return ('exc', 'TypeError')
        if self.kk.convert(k) not in self.s:
            return ('exc', 'KeyError')
        self.s.remove(self.kk.convert(k))
        return ('ok', None)

    def contains(self, k):
        return ('ok', self.kk.usable(k) and self.kk.convert(k) in self.s)

    def keys(self):
        return sorted(self.s, key=lambda k: (k is not None, k))


class FakeJar:
    def __init__(self):
        self.registered = []

    def register(self, obj):
        self.registered.append(id(obj))

    def setstate(self, obj):
        pass

    def readCurrent(self, obj):
        pass


def attach(t, n):
    t._p_jar = FakeJar()
    t._p_oid = b'\0' * 7 + bytes([n])
    return t


def same_snapshot(tag, c, py, model_items, mapping):
    """C and Python object have equal contents, shape and state."""
    if mapping:
        ci, pi = list(c.items()), list(py.items())
    else:
        ci, pi = list(c.keys()), list(py.keys())
    check(ci == pi, tag, 'contents differ', ci, pi)
    check(ci == model_items, tag, 'contents differ from model', ci,
          model_items)
    check(len(c) == len(py) == len(model_items), tag, 'len')
    cs, ps = norm_state(c.__getstate__()), norm_state(py.__getstate__())
    check(cs == ps, tag, 'state differs', cs, ps)


def run_mapping_history(fam, kind, use_small=True, float_values=False):
    """Drive C, Python and the model through one history of calls."""
    kk, vk = Kind(fam[0], True), Kind(fam[1], False)
    if fam == 'fs':
        kk, vk = Kind('f', True), Kind('f', False)
    ccls, pycls = family_classes(fam, kind)
    if use_small and kind == 'BTree':
        ccls, pycls = small(ccls), small(pycls)
    c, py, m = attach(ccls(), 1), attach(pycls(), 2), MapModel(kk, vk)
    tag0 = (fam, kind)
    gk, bk, gv, bv = kk.good(), kk.bad(), vk.good(), vk.bad()
    # Object keys: the two implementations are known to disagree at HEAD
    # about reads/deletes with a default-comparison key, so those calls are
    # left to the recorded-constant section of the demo.
    rbk = [] if kk.code == 'O' else bk
    sentinel = ['default']
    step = [0]

    def both(name, mname, *args):
        step[0] += 1
        tag = tag0 + (step[0], name, args)
        c._p_changed = False
        py._p_changed = False
        rc = outcome(getattr(c, name), *args)
        rp = outcome(getattr(py, name), *args)
        before = dict(m.d)
        rm = getattr(m, mname)(*args)
        if name == 'has_key':
            # C reports the depth for trees: only truth is documented
            rc = (rc[0], bool(rc[1])) if rc[0] == 'ok' else rc
            rp = (rp[0], bool(rp[1])) if rp[0] == 'ok' else rp
        check(rc == rp, tag, 'C vs Py', rc, rp)
        check(rc == rm, tag, 'C vs model', rc, rm)
        if rc[0] == 'ok' and rm[0] == 'ok':
            check(type(rc[1]) is type(rp[1]), tag, 'result type',
                  type(rc[1]), type(rp[1]))
        if rm[0] == 'exc' or name in ('__getitem__', 'get', '__contains__',
                                      'has_key'):
            # nothing may have been changed or announced as changed
            check(not c._p_changed and not py._p_changed, tag,
                  '_p_changed set by a failing write / by a read')
        if before != m.d:
            # (a write that stores what is already there is reported
            # differently by the two implementations at HEAD: not compared)
            check(bool(c._p_changed) == bool(py._p_changed), tag,
                  '_p_changed', c._p_changed, py._p_changed)
        return rc

    def snap():
        same_snapshot(tag0 + (step[0],), c, py, m.items(), True)

    # 1. reads and failing writes on the empty container
    for k in rbk + gk[:3]:
        both('__getitem__', 'getitem', k)
        both('get', 'get', k, sentinel)
        both('__contains__', 'contains', k)
        both('has_key', 'contains', k)
    for k in bk:
        both('__setitem__', 'setitem', k, gv[0])
        both('setdefault', 'setdefault', k, gv[0])
    for k in rbk:
        both('__delitem__', 'delitem', k)
        both('pop', 'pop', k, sentinel)
        both('pop', 'pop_nodefault', k)
    snap()
    # 2. fill, interleaving failing writes
    for i, k in enumerate(gk):
        v = gv[i % len(gv)]
        both('__setitem__', 'setitem', k, v)
        if bv:
            both('__setitem__', 'setitem', k, bv[i % len(bv)])
            both('__setitem__', 'setitem', gk[(i + 1) % len(gk)],
                 bv[i % len(bv)])
        if bk:
            both('__setitem__', 'setitem', bk[i % len(bk)], v)
            both('__setitem__', 'setitem', bk[i % len(bk)],
                 bv[i % len(bv)] if bv else v)
        snap()
    # 3. reads with every key on the populated container
    for k in rbk + gk:
        both('__getitem__', 'getitem', k)
        both('get', 'get', k, sentinel)
        both('get', 'get', k, None)
        both('__contains__', 'contains', k)
        both('has_key', 'contains', k)
    snap()
    # 4. failing writes on the populated container
    for k in rbk:
        both('__delitem__', 'delitem', k)
        both('pop', 'pop', k, sentinel)
        both('pop', 'pop_nodefault', k)
    for k in bk:
        both('setdefault', 'setdefault', k, gv[1])
        for v in bv[:3]:
            both('__setitem__', 'setitem', k, v)
    snap()
    # 5. update() with a bad pair in the middle: pairs before it are kept
    pairs = [(gk[0], gv[2]), (gk[1], gv[3])]
    if bv:
        pairs.append((gk[2], bv[0]))
    elif bk:
        pairs.append((bk[0], gv[0]))
    pairs.append((gk[3], gv[4]))
    rc = outcome(c.update, pairs)
    rp = outcome(py.update, pairs)
    for k, v in pairs:
        if m.setitem(k, v)[0] == 'exc':
            rm = ('exc', 'TypeError')
            break
    else:
        rm = ('ok', None)
    check(rc[0] == rp[0] == rm[0], tag0, 'update', rc, rp, rm)
    if rm[0] == 'exc':
        check(rc == rp == rm, tag0, 'update exc', rc, rp, rm)
    snap()
    # 6. pickle round trip of both, then delete / pop / setdefault
    for proto in (2, pickle.HIGHEST_PROTOCOL):
        # (fsBucket pickles differently in C - toString - at HEAD)
        if not use_small and fam != 'fs':
            check(pickle.dumps(c, proto) == pickle.dumps(py, proto), tag0,
                  'pickles differ')
    for i, k in enumerate(gk):
        if i % 3 == 0:
            both('__delitem__', 'delitem', k)
            both('__delitem__', 'delitem', k)
        elif i % 3 == 1:
            both('pop', 'pop', k, sentinel)
            both('pop', 'pop', k, sentinel)
            both('pop', 'pop_nodefault', k)
        else:
            both('setdefault', 'setdefault', k, gv[0])
        both('__getitem__', 'getitem', k)
        both('__contains__', 'contains', k)
        if i % 4 == 0:
            snap()
    snap()
    return step[0]


def run_set_history(fam, kind, use_small=True):
    kk = Kind(fam[0], True)
    if fam == 'fs':
        kk = Kind('f', True)
    ccls, pycls = family_classes(fam, kind)
    if use_small and kind == 'TreeSet':
        ccls, pycls = small(ccls), small(pycls)
    c, py, m = attach(ccls(), 1), attach(pycls(), 2), SetModel(kk)
    tag0 = (fam, kind)
    gk, bk = kk.good(), kk.bad()
    rbk = [] if kk.code == 'O' else bk
    step = [0]

    def both(name, mname, *args):
        step[0] += 1
        tag = tag0 + (step[0], name, args)
        c._p_changed = False
        py._p_changed = False
        rc = outcome(getattr(c, name), *args)
        rp = outcome(getattr(py, name), *args)
        before = set(m.s)
        rm = getattr(m, mname)(*args)
        if name == 'has_key':
            rc = (rc[0], bool(rc[1])) if rc[0] == 'ok' else rc
            rp = (rp[0], bool(rp[1])) if rp[0] == 'ok' else rp
        check(rc == rp, tag, 'C vs Py', rc, rp)
        check(rc == rm, tag, 'C vs model', rc, rm)
        if rm[0] == 'exc' or name in ('__contains__', 'has_key'):
            check(not c._p_changed and not py._p_changed, tag,
                  '_p_changed set by a failing write / by a read')
        if before != m.s:
            check(bool(c._p_changed) == bool(py._p_changed), tag,
                  '_p_changed')

    def snap():
        same_snapshot(tag0 + (step[0],), c, py, m.keys(), False)

    for k in rbk + gk[:3]:
        both('__contains__', 'contains', k)
        both('has_key', 'contains', k)
    for k in bk:
        both('add', 'add', k)
    for k in rbk:
        both('remove', 'remove', k)
    snap()
    for i, k in enumerate(gk):
        both('add', 'add', k)
        both('add', 'add', k)
        if bk:
            both('add', 'add', bk[i % len(bk)])
        snap()
    for k in rbk + gk:
        both('__contains__', 'contains', k)
        both('has_key', 'contains', k)
    for k in rbk:
        both('remove', 'remove', k)
    snap()
    if not use_small and fam != 'fs':
        check(pickle.dumps(c, 2) == pickle.dumps(py, 2), tag0,
              'pickles differ')
    for i, k in enumerate(gk):
        if i % 2 == 0:
            both('remove', 'remove', k)
            both('remove', 'remove', k)
        both('__contains__', 'contains', k)
    snap()
    return step[0]


def refcount_stable(tag, f, objs, n=300):
    """Calling f() n times must not change the refcount of objs."""
    f()
    gc.collect()
    before = [sys.getrefcount(o) for o in objs]
    for _ in range(n):
        f()
    gc.collect()
    after = [sys.getrefcount(o) for o in objs]
    check(before == after, tag, 'refcount drift', before, after)


def finish(name, nsteps):
    if FAILURES:
        print("%s: %d FAILURES" % (name, len(FAILURES)))
        sys.exit(1)
    print("%s: OK (%d paired steps)" % (name, nsteps))
    sys.exit(0)

# ---------------------------------------------------------------------------
# C09r specific: the pure-Python lookups and pop/setdefault of _base.py
# (_BucketBase.__contains__, Bucket.setdefault/pop/get/__getitem__,
#  _Tree._search/__contains__/has_key, Tree.get/__getitem__)
# ---------------------------------------------------------------------------
def c09r_specific():
    n = 0
    dflt = ['d']

    def exc_info(f, *args):
        """(class name, class name of __context__, args) of what f raises."""
        try:
            f(*args)
        except Exception as e:  # noqa
            ctx = e.__context__
            return (type(e).__name__,
                    type(ctx).__name__ if ctx is not None else None,
                    e.args)
        return None

    # (a) every key and every gap, for all shapes of small trees
    for fam in ('II', 'OO', 'LF', 'UO', 'QQ', 'fs'):
        kk = Kind('f' if fam == 'fs' else fam[0], True)
        vk = Kind('f' if fam == 'fs' else fam[1], False)
        if fam == 'fs':
            def mk(i):
                return bytes([i // 256, i % 256])

            def mv(i):
                return bytes([i % 256]) * 6
        else:
            def mk(i):
                return i

            def mv(i):
                return vk.convert(i % 100)
        for kind in ('BTree', 'Bucket', 'TreeSet', 'Set'):
            ccls, pycls = family_classes(fam, kind)
            mapping = kind in ('BTree', 'Bucket')
            if 'Tree' in kind:
                ccls, pycls = small(ccls), small(pycls)
            for size in list(range(0, 14)) + [27, 28, 60, 81]:
                present = [2 * i + 1 for i in range(size)]
                model = dict((mk(i), mv(i)) for i in present)
                if mapping:
                    c = ccls([(mk(i), mv(i)) for i in present])
                    py = pycls([(mk(i), mv(i)) for i in present])
                else:
                    c, py = ccls(map(mk, present)), pycls(map(mk, present))
                check(norm_state(c.__getstate__())
                      == norm_state(py.__getstate__()), fam, kind, size,
                      'state')
                for i in range(0, 2 * size + 2):
                    k = mk(i)
                    n += 1
                    tag = (fam, kind, size, i)
                    want_in = k in model
                    for t, impl in ((c, 'C'), (py, 'Py')):
                        r = t.__contains__(k)
                        check(r is want_in, tag, impl, 'in', r)
                        check(bool(t.has_key(k)) is want_in, tag, impl,
                              'has_key')
                    check(type(py.has_key(k)) is type(c.has_key(k)) or
                          'Tree' in kind, tag, 'has_key type')
                    if mapping:
                        for t, impl in ((c, 'C'), (py, 'Py')):
                            check(t.get(k, dflt) is model.get(k, dflt)
                                  or t.get(k, dflt) == model.get(k, dflt),
                                  tag, impl, 'get')
                            check(t.get(k) == model.get(k), tag, impl,
                                  'get None')
                            if want_in:
                                check(t[k] == model[k], tag, impl, '[]')
                            else:
                                info = exc_info(t.__getitem__, k)
                                check(info == ('KeyError', None, (k,)), tag,
                                      impl, '[] absent', info)

    # (b) unusable keys: what is raised, and from which context
    from BTrees.IIBTree import IIBTreePy, IIBucketPy, IISetPy, IITreeSetPy
    from BTrees.IFBTree import IFBTreePy, IFBucketPy, IFBucket, IFBTree
    from BTrees.OOBTree import OOBTreePy, OOBucketPy, OOBucket, OOBTree
    for cls in (IIBucketPy, IIBTreePy):
        for size in (0, 5, 300):
            t = cls([(i, i) for i in range(size)])
            for k in ('a', None, 2 ** 31, 1.5, (1,)):
                n += 1
                tag = (cls.__name__, size, k)
                # recorded at HEAD: KeyError(key) raised while handling the
                # TypeError of the conversion
                check(exc_info(t.__getitem__, k)
                      == ('KeyError', 'TypeError', (k,)), tag,
                      exc_info(t.__getitem__, k))
                check(t.get(k, dflt) is dflt and t.get(k) is None, tag)
                check(t.__contains__(k) is False, tag)
                check(t.has_key(k) is False, tag)
                info = exc_info(t.pop, k)
                check(info is not None and info[0] == 'TypeError', tag, info)
                check(exc_info(t.pop, k, 1)[0] == 'TypeError', tag)
                check(exc_info(t.setdefault, k, 1)[0] == 'TypeError', tag)
                check(len(t) == size, tag)
    for cls in (IISetPy, IITreeSetPy):
        for size in (0, 5, 300):
            t = cls(range(size))
            for k in ('a', None, 2 ** 31, 1.5, (1,)):
                check(t.__contains__(k) is False and t.has_key(k) is False,
                      cls.__name__, size, k)

    # (c) pop() and setdefault(): results, and order of the conversions
    for ccls, pycls in ((IFBucket, IFBucketPy), (IFBTree, IFBTreePy)):
        for size in (0, 5, 300):
            c = ccls([(i, i) for i in range(size)])
            py = pycls([(i, i) for i in range(size)])
            model = dict((i, float(i)) for i in range(size))
            for t, impl in ((c, 'C'), (py, 'Py')):
                tag = (t.__class__.__name__, size)
                n += 1
                # absent key
                check(t.pop(1000, dflt) is dflt, tag, 'pop default')
                check(t.pop(1000, None) is None, tag, 'pop None default')
                info = exc_info(t.pop, 1000)
                check(info[0] == 'KeyError' and info[1] is None, tag, info)
                # unusable key: TypeError whatever the default
                check(exc_info(t.pop, 'a', dflt)[0] == 'TypeError', tag)
                check(exc_info(t.pop, 'a')[0] == 'TypeError', tag)
                # setdefault: absent key stores the converted value
                r = t.setdefault(2000, 7)
                # (recorded at HEAD: C hands back the argument itself, the
                # Python version the converted value)
                check(r == 7.0 and type(r) is (int if impl == 'C' else float),
                      tag, 'setdefault', r)
                check(t[2000] == 7.0 and type(t[2000]) is float, tag)
                r = t.setdefault(2000, 9)
                check(r == 7.0, tag, 'setdefault existing', r)
                check(t.pop(2000) == 7.0, tag, 'pop')
                check(2000 not in t, tag)
                # unusable key and/or value: TypeError, nothing stored
                check(exc_info(t.setdefault, 'a', 1)[0] == 'TypeError', tag)
                check(exc_info(t.setdefault, 3000, 'v')[0] == 'TypeError',
                      tag)
                check(exc_info(t.setdefault, 'a', 'v')[0] == 'TypeError',
                      tag)
                check(3000 not in t, tag)
                if size:
                    check(t.pop(3) == 3.0, tag)
                    check(t.pop(3, dflt) is dflt, tag)
                    t[3] = 3
                check(list(t.items()) == sorted(model.items()), tag,
                      'contents')
            # recorded at HEAD: the key is converted (and refused) first
            try:
                py.setdefault('a', 'v')
            except TypeError as e:
                check(e.args == ('32-bit integer expected',), 'order', e.args)
            check(norm_state(c.__getstate__())
                  == norm_state(py.__getstate__()), 'state', size)

    # (d) a tree holding an empty bucket (only reachable via __setstate__):
    # everything is absent
    for treecls, bcls in ((IIBTreePy, IIBucketPy), (OOBTreePy, OOBucketPy)):
        t = treecls()
        empty = bcls()
        t.__setstate__(((empty,), empty))
        n += 1
        check(t.__contains__(1) is False, treecls.__name__, 'empty bucket in')
        check(t.has_key(1) is False, treecls.__name__, 'empty bucket has_key')
        check(t.get(1, dflt) is dflt, treecls.__name__, 'empty bucket get')
        check(exc_info(t.__getitem__, 1) == ('KeyError', None, (1,)),
              treecls.__name__, exc_info(t.__getitem__, 1))

    # (e) comparisons that fail or misbehave inside _Tree._search and
    # Bucket._search are passed on unchanged
    class Evil:
        def __init__(self, exc):
            self.exc = exc

        def __lt__(self, other):
            raise self.exc('lt')

        __gt__ = __le__ = __ge__ = __lt__

        def __eq__(self, other):
            raise self.exc('eq')

        __hash__ = None

    for cls, size in ((OOBucketPy, 10), (OOBTreePy, 10), (OOBTreePy, 300)):
        t = cls([(i, i) for i in range(size)])
        for exc in (ValueError, TypeError, KeyError, RuntimeError):
            n += 1
            want = exc.__name__
            for f in (t.__getitem__, t.get, t.__contains__, t.has_key,
                      t.pop):
                info = exc_info(f, Evil(exc))
                check(info is not None and info[0] == want
                      and info[1] is None, cls.__name__, size, want,
                      f.__name__, info)
            info = exc_info(t.pop, Evil(exc), dflt)
            if exc is KeyError:
                # recorded: indistinguishable from "absent"
                check(t.pop(Evil(exc), dflt) is dflt, cls.__name__, 'pop')
            else:
                check(info[0] == want, cls.__name__, 'pop default', info)
            check(len(t) == size, cls.__name__, 'len')

    # three-way comparison results other than -1/0/1 (rich comparisons that
    # do not answer with bools)
    class Odd:
        # orders like its number, but > answers with floats
        def __init__(self, v):
            self.v = v

        def __gt__(self, other):
            return 2.5 if self.v > other.v else 0.0

        def __lt__(self, other):
            return other.__gt__(self)

        def __eq__(self, other):
            return self.v == other.v

        __hash__ = None

    for cls in (small(OOBTreePy), OOBucketPy, small(OOBTree), OOBucket):
        keys = [Odd(i) for i in range(1, 60, 2)]
        t = cls()
        for k in keys:
            t[k] = k.v
        n += 1
        check([k.v for k in t.keys()] == list(range(1, 60, 2)), cls.__name__)
        for i in range(0, 61):
            check((Odd(i) in t) is (i % 2 == 1), cls.__name__, 'Odd in', i)
            check(t.get(Odd(i), dflt) == (i if i % 2 else dflt),
                  cls.__name__, 'Odd get', i)
    return n


if __name__ == '__main__':
    total = 0
    for fam in FAMILIES:
        for kind in ('BTree', 'Bucket'):
            total += run_mapping_history(fam, kind, True)
            total += run_mapping_history(fam, kind, False)
        for kind in ('TreeSet', 'Set'):
            total += run_set_history(fam, kind, True)
            total += run_set_history(fam, kind, False)
    total += c09r_specific()
    finish('C09r demo', total)
