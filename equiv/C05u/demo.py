"""Differential demo for refactoring u (_BTree_get / _bucket_get lookups).

Run as:  PYTHONPATH=<tree>/src /venv/bin/python demo.py

C BTrees, TreeSets and Buckets with tiny nodes live in a stand-in jar with a
real persistent.PickleCache.  Every kind of lookup that ends in _BTree_get or
_bucket_get (tree[k], get, in, has_key, pop, setdefault, on trees, tree sets
and bare buckets) is run inside random histories, with cache sweeps between
the calls, inside key comparisons, while a comparison raises, while a key
cannot be converted and while a node cannot be loaded.  Results are compared
with a dict model and with a twin that is never evicted; after every call no
node may be left pinned (sticky), and during a comparison exactly the nodes
the search is working on are pinned.
"""
import hashlib
import random
import sys

from persistent import PickleCache

from BTrees.fsBTree import fsBTree
from BTrees.IIBTree import IIBTree, IIBucket, IITreeSet
from BTrees.LFBTree import LFBTree
from BTrees.OIBTree import OIBTree
from BTrees.OOBTree import OOBTree, OOBucket, OOTreeSet
from BTrees.QQBTree import QQBTree

GHOST, UPTODATE, CHANGED, STICKY = -1, 0, 1, 2

TRACE = hashlib.sha256()
CHECKS = [0]


def trace(*what):
    TRACE.update(repr(what).encode())


def check(cond, *msg):
    CHECKS[0] += 1
    if not cond:
        print("FAILED:", *msg)
        sys.exit(1)


class LoadError(Exception):
    pass


class Jar:
    """A tiny stand-in for a ZODB connection: states are kept in a dict."""

    def __init__(self):
        self.cache = PickleCache(self, 10000)
        self.store = {}
        self.objects = {}
        self.registered = []
        self.loads = 0
        self.fail = set()       # oids whose load fails
        self.on_load = None     # hook run inside setstate
        self.n = 0

    # -- protocol used by persistent --
    def setstate(self, ob):
        oid = ob._p_oid
        self.loads += 1
        trace('load', oid)
        if oid in self.fail:
            raise LoadError(oid)
        if self.on_load is not None:
            self.on_load(ob)
        ob.__setstate__(self.store[oid])

    def register(self, ob):
        self.registered.append(ob)

    def readCurrent(self, ob):
        pass

    # -- helpers --
    def _refs(self, state, out):
        if isinstance(state, tuple):
            for x in state:
                self._refs(x, out)
        elif hasattr(state, '_p_oid') and hasattr(state, '_p_jar'):
            out.append(state)

    def commit(self, root):
        todo = [root] + self.registered
        self.registered = []
        seen = set()
        while todo:
            ob = todo.pop()
            if id(ob) in seen:
                continue
            seen.add(id(ob))
            if ob._p_oid is not None and ob._p_state == GHOST:
                continue
            # state first: a tree inlines its only bucket while that bucket
            # has no oid yet, exactly as ZODB's serializer would see it
            state = ob.__getstate__()
            if ob._p_oid is None:
                self.n += 1
                oid = b'%08d' % self.n
                ob._p_jar = self
                ob._p_oid = oid
                self.cache[oid] = ob
                self.objects[oid] = ob
            self.store[ob._p_oid] = state
            ob._p_changed = False
            refs = []
            self._refs(state, refs)
            todo.extend(refs)

    def nodes(self):
        return [self.objects[k] for k in sorted(self.objects)]

    def sweep(self, rnd=None, p=1.0):
        """Evict (try to) every node, or a random subset."""
        for ob in self.nodes():
            if rnd is None or rnd.random() < p:
                ob._p_deactivate()

    def states(self):
        return [ob._p_state for ob in self.nodes()]

    def assert_unpinned(self, where):
        st = self.states()
        check(STICKY not in st, "a node is left sticky after", where, st)


def small(cls, leaf, internal):
    return type(cls)('Small' + cls.__name__, (cls,),
                     {'max_leaf_size': leaf, 'max_internal_size': internal})


def outcome(fn, *a, **k):
    try:
        return ('ok', fn(*a, **k))
    except LoadError as e:
        return ('LoadError', e.args)
    except (IndexError, KeyError, ValueError, TypeError, RuntimeError) as e:
        return (type(e).__name__, e.args)


MISSING = object()


def lookups(rnd, jar, tree, twin, model, key, mapping):
    """All read-only lookups of one key; compared with model and twin."""
    present = key in model
    ops = []
    ops.append(('in', lambda t: key in t, present))
    ops.append(('has_key', lambda t: t.has_key(key), present))
    if mapping:
        ops.append(('getitem', lambda t: t[key],
                    model[key] if present else KeyError))
        ops.append(('get', lambda t: t.get(key), model.get(key)))
        ops.append(('get2', lambda t: t.get(key, 'dflt'),
                    model.get(key, 'dflt')))
    rnd.shuffle(ops)
    for name, fn, want in ops:
        r = rnd.random()
        if r < 0.3:
            jar.sweep()
        elif r < 0.6:
            jar.sweep(rnd, 0.5)
        elif r < 0.65:
            jar.cache.minimize()
        got = outcome(fn, tree)
        jar.assert_unpinned(name)
        if want is KeyError:
            check(got == ('KeyError', (key,)), name, key, got)
        else:
            check(got == ('ok', want), name, key, got, want)
        check(outcome(fn, twin) == got, "twin differs", name, key)
        trace(name, key, got, jar.states())


def run_history(cls, seed, keygen, valgen, mapping=True, sizes=(4, 3)):
    rnd = random.Random(seed)
    jar = Jar()
    T = small(cls, *sizes)
    tree = T()
    twin = T()
    model = {}
    universe = [keygen(i) for i in range(150)]
    jar.commit(tree)
    for step in range(700):
        key = rnd.choice(universe)
        r = rnd.random()
        if r < 0.35:
            if mapping:
                v = valgen(rnd)
                tree[key] = v
                twin[key] = v
                model[key] = v
            else:
                tree.add(key)
                twin.add(key)
                model[key] = None
            jar.assert_unpinned('insert')
        elif r < 0.5:
            # pop / remove: the look-up half goes through _BTree_get
            if mapping:
                dflt = rnd.choice([MISSING, 'd'])
                args = (key,) if dflt is MISSING else (key, dflt)
                got = outcome(tree.pop, *args)
                tw = outcome(twin.pop, *args)
                if key in model:
                    want = ('ok', model.pop(key))
                elif dflt is MISSING:
                    want = ('KeyError', (key,))
                else:
                    want = ('ok', 'd')
                check(got == want == tw, "pop", key, got, want, tw)
            else:
                got = outcome(tree.remove, key)
                outcome(twin.remove, key)
                want = ('ok', None) if key in model else ('KeyError', (key,))
                model.pop(key, None)
                check(got == want, "remove", key, got, want)
            jar.assert_unpinned('pop')
        elif r < 0.6 and mapping:
            v = valgen(rnd)
            got = outcome(tree.setdefault, key, v)
            tw = outcome(twin.setdefault, key, v)
            want = ('ok', model.setdefault(key, v))
            check(got == want == tw, "setdefault", key, got, want)
            jar.assert_unpinned('setdefault')
        elif r < 0.7:
            jar.commit(tree)
        else:
            lookups(rnd, jar, tree, twin, model, key, mapping)
        if step % 97 == 0:
            jar.commit(tree)
            jar.sweep()
            check(list(tree.keys()) == sorted(model), "keys")
            tree._check()
    # empty the tree: the empty-root path of _BTree_get
    for key in list(model):
        if mapping:
            del tree[key], twin[key]
        else:
            tree.remove(key)
            twin.remove(key)
        del model[key]
    jar.commit(tree)
    for key in universe[:10]:
        lookups(rnd, jar, tree, twin, model, key, mapping)
    if mapping:
        jar.sweep()
        got = outcome(tree.pop, universe[0])
        check(got == ('KeyError', ('pop(): BTree is empty',)), "pop empty", got)
        jar.assert_unpinned('pop on empty')
    trace(jar.loads)
    return jar.loads


# ---------------------------------------------------------------------------
# keys that cannot be converted

def run_bad_keys():
    jar = Jar()
    res = []
    for cls, good, bads in (
        (IIBTree, 7, ['x', None, 2 ** 40, -2 ** 70, 1.5, (1,)]),
        (QQBTree, 7, ['x', None, -1, 2 ** 70, 1.5]),
        (LFBTree, 7, ['x', None, 2 ** 70, 1.5]),
        (fsBTree, b'ab', ['ab', b'abc', b'', 12, None]),
    ):
        T = small(cls, 4, 3)
        tree = T()
        twin = T()
        if cls is fsBTree:
            for i in range(40):
                k = bytes([97 + i // 26, 97 + i % 26])
                tree[k] = twin[k] = k * 3
        else:
            for i in range(40):
                tree[i] = twin[i] = i
        root = OOBTree()
        root['t'] = tree
        jar.commit(root)
        for bad in bads:
            for name, fn in (
                ('getitem', lambda t: t[bad]),
                ('get', lambda t: t.get(bad)),
                ('get2', lambda t: t.get(bad, 'd')),
                ('in', lambda t: bad in t),
                ('has_key', lambda t: t.has_key(bad)),
                ('pop', lambda t: t.pop(bad)),
                ('pop2', lambda t: t.pop(bad, 'd')),
                ('setdefault', lambda t: t.setdefault(bad, 1)),
            ):
                jar.sweep()
                got = outcome(fn, tree)
                jar.assert_unpinned(name)
                tw = outcome(fn, twin)
                check(got == tw, "twin differs on bad key", name, bad, got, tw)
                if name == 'getitem':
                    # PyErr_SetObject: None -> no args, a tuple -> the args
                    args = (() if bad is None else
                            bad if isinstance(bad, tuple) else (bad,))
                    check(got == ('KeyError', args), name, bad, got)
                elif name == 'get':
                    check(got == ('ok', None), name, bad, got)
                elif name == 'get2':
                    check(got == ('ok', 'd'), name, bad, got)
                elif name in ('in', 'has_key'):
                    check(got == ('ok', False), name, bad, got)
                else:
                    check(got[0] == 'TypeError', name, bad, got)
                res.append((cls.__name__, repr(bad), name, got[0],
                            repr(got[1])))
                trace(res[-1], jar.states())
        # the same through a bare bucket and a bare set kept in the jar
        check(tree[good] is not None, "good key")
    for cls, fill, bads in (
        (IIBucket, [(i, i) for i in range(10)], ['x', None, 2 ** 40]),
        (OOBucket, [(str(i), i) for i in range(10)], [None]),
    ):
        b = cls(fill)
        root = OOBTree()
        root['b'] = b
        jar.commit(root)
        check(b._p_oid is not None, "bucket has no oid")
        for bad in bads:
            for name, fn in (
                ('getitem', lambda t: t[bad]),
                ('get', lambda t: t.get(bad, 'd')),
                ('in', lambda t: bad in t),
                ('has_key', lambda t: t.has_key(bad)),
                ('pop', lambda t: t.pop(bad)),
                ('pop2', lambda t: t.pop(bad, 'd')),
            ):
                jar.sweep()
                check(b._p_state == GHOST, "bucket not evicted")
                got = outcome(fn, b)
                jar.assert_unpinned(name)
                res.append((cls.__name__, repr(bad), name, got[0],
                            repr(got[1])))
                trace(res[-1], jar.states())
        for k, v in fill:
            jar.sweep()
            check(b[k] == v and b.get(k) == v and k in b and b.has_key(k),
                  "bucket lookups")
            jar.assert_unpinned('bucket lookup')
    return res


# ---------------------------------------------------------------------------
# eviction / failure while a key comparison is running

class Stop(Exception):
    pass


class Key:
    hook = None
    __slots__ = ('v',)

    def __init__(self, v):
        self.v = v

    def __lt__(self, other):
        if Key.hook is not None:
            Key.hook()
        if not isinstance(other, Key):
            return NotImplemented
        return self.v < other.v

    def __eq__(self, other):
        if Key.hook is not None:
            Key.hook()
        return isinstance(other, Key) and self.v == other.v

    def __hash__(self):
        return hash(self.v)

    def __repr__(self):
        return 'Key(%r)' % (self.v,)


def run_compare_sweeps(cls, seed, mapping):
    rnd = random.Random(seed)
    jar = Jar()
    T = small(cls, 4, 3)
    tree = T()
    vals = sorted(rnd.sample(range(1000), 80))
    for v in vals:
        if mapping:
            tree[Key(v)] = v
        else:
            tree.add(Key(v))
    jar.commit(tree)
    count = [0]
    stop_at = [None]
    pinned_seen = set()

    def hook():
        count[0] += 1
        jar.sweep()
        st = jar.states()
        npinned = st.count(STICKY)
        # the node being searched, plus its parent when it is a leaf
        check(npinned in (1, 2), "pinned nodes during a comparison", st)
        check(CHANGED not in st, "changed node in a read-only history", st)
        check(st.count(GHOST) == len(st) - npinned,
              "an unused node survived the sweep", st)
        pinned_seen.add(npinned)
        trace('cmp', st)
        if stop_at[0] is not None and count[0] >= stop_at[0]:
            raise Stop(count[0])

    probes = vals + [v + 1 for v in vals[::3]] + [-5, 2000]
    for rnd_no in range(150):
        v = rnd.choice(probes)
        present = v in vals
        k = Key(v)
        names = ['in', 'has_key']
        if mapping:
            names += ['getitem', 'get', 'pop_missing']
        name = rnd.choice(names)
        fn = {'in': lambda: k in tree,
              'has_key': lambda: tree.has_key(k),
              'getitem': lambda: tree[k],
              'get': lambda: tree.get(k, 'd'),
              'pop_missing': lambda: tree.pop(Key(v + 0.5), 'nope'),
              }[name]
        # first without failure, counting the comparisons ...
        count[0] = 0
        stop_at[0] = None
        Key.hook = hook
        try:
            got = outcome(fn)
        finally:
            Key.hook = None
        jar.assert_unpinned(name)
        ncmp = count[0]
        if name in ('in', 'has_key'):
            check(got == ('ok', present), name, v, got)
        elif name == 'getitem':
            check(got == (('ok', v) if present else ('KeyError', (k,))),
                  name, v, got)
        elif name == 'get':
            check(got == ('ok', v if present else 'd'), name, v, got)
        else:
            check(got == ('ok', 'nope'), name, v, got)
        check(ncmp > 0, "no comparison ran")
        # ... then failing at each of the comparisons in turn
        for n in range(1, ncmp + 1):
            count[0] = 0
            stop_at[0] = n
            Key.hook = hook
            try:
                try:
                    fn()
                except Stop as e:
                    check(e.args == (n,), "Stop", e.args, n)
                else:
                    check(False, "failing comparison was swallowed", name, n)
            finally:
                Key.hook = None
            jar.assert_unpinned('%s failing at comparison %d' % (name, n))
            trace('stopped', name, n, jar.states())
    check(pinned_seen == {1, 2}, "pinned counts seen", pinned_seen)
    return count[0]


# ---------------------------------------------------------------------------
# nodes that cannot be loaded

def run_load_failures(seed):
    rnd = random.Random(seed)
    jar = Jar()
    T = small(OIBTree, 4, 3)
    tree = T()
    keys = ['k%03d' % i for i in range(120)]
    for i, k in enumerate(keys):
        tree[k] = i
    jar.commit(tree)
    nodes = jar.nodes()
    check(len(nodes) > 30, "nodes", len(nodes))
    nfail = 0
    for victim in nodes:
        for k in rnd.sample(keys, 12) + ['zzz', '']:
            jar.sweep()
            jar.fail = {victim._p_oid}
            name, fn = rnd.choice([
                ('getitem', lambda: tree[k]),
                ('get', lambda: tree.get(k, -1)),
                ('in', lambda: k in tree),
                ('pop', lambda: tree.pop(k + 'x', None)),
            ])
            got = outcome(fn)
            jar.fail = set()
            jar.assert_unpinned('lookup with a failing node')
            if got[0] == 'LoadError':
                nfail += 1
                check(victim._p_state == GHOST, "victim is not a ghost")
                check(got[1] == (victim._p_oid,), "wrong LoadError", got)
            again = outcome(fn)
            check(again[0] != 'LoadError', "still failing", again)
            if got[0] != 'LoadError':
                check(got == again, "unstable result", got, again)
            jar.assert_unpinned('lookup after a failing node')
            trace('loadfail', name, k, got, again, jar.states())
    check(nfail > 50, "failing loads were not reached", nfail)
    return nfail


# ---------------------------------------------------------------------------
# reference counts of keys, values and nodes

def run_refcounts():
    jar = Jar()
    T = small(OOBTree, 4, 3)
    tree = T()
    vals = {}
    for i in range(60):
        vals[i] = object()
        tree['k%02d' % i] = vals[i]
    jar.commit(tree)
    probe = ''.join(['k', '30'])        # not interned, not immortal
    absent = ''.join(['k', '30', 'x'])
    value = vals[30]
    nodes = jar.nodes()

    def counts():
        return ([sys.getrefcount(value), sys.getrefcount(probe),
                 sys.getrefcount(absent), sys.getrefcount(None)] +
                [sys.getrefcount(ob) for ob in nodes])

    class Raises:
        def __lt__(self, other):
            raise Stop()
        __gt__ = __le__ = __ge__ = __eq__ = __lt__
        __hash__ = None
    raises = Raises()
    jar.sweep()
    tree[probe]
    before = counts()
    rc_raises = sys.getrefcount(raises)
    for i in range(500):
        jar.sweep()
        x = tree[probe]
        check(x is value, "identity")
        check(sys.getrefcount(value) == before[0] + 1, "value refcount")
        del x
        check(tree.get(probe) is value, "get")
        check(tree.get(absent) is None, "get absent")
        check(tree.get(absent, value) is value, "get default")
        check(probe in tree and absent not in tree, "in")
        check(tree.has_key(probe) is True, "has_key")
        check(outcome(tree.__getitem__, absent) == ('KeyError', (absent,)),
              "getitem absent")
        check(tree.pop(absent, value) is value, "pop default")
        for fn in (tree.__getitem__, tree.get, tree.has_key, tree.pop):
            try:
                fn(raises)
            except Stop:
                pass
            else:
                check(False, "Raises was swallowed")
        del fn
    jar.sweep()
    tree[probe]
    after = counts()
    # None is immortal on recent Pythons; on older ones it must balance too
    check(after == before, "reference counts drifted", before, after)
    check(sys.getrefcount(raises) == rc_raises, "key argument leaked")
    jar.assert_unpinned('refcounts')


def main():
    loads = []
    loads.append(run_history(IIBTree, 11, lambda i: i * 7 - 300,
                             lambda r: r.randint(-99, 99)))
    loads.append(run_history(OOBTree, 12, lambda i: 'k%04d' % (i * 3),
                             lambda r: r.random()))
    loads.append(run_history(LFBTree, 13, lambda i: i * 2 ** 33 - 2 ** 39,
                             lambda r: float(r.randint(0, 50))))
    loads.append(run_history(QQBTree, 14, lambda i: i * 2 ** 56 + 5,
                             lambda r: r.randint(0, 2 ** 64 - 1), sizes=(2, 2)))
    loads.append(run_history(
        fsBTree, 15, lambda i: bytes([65 + i // 16, 65 + i % 16]),
        lambda r: bytes(r.randint(0, 255) for _ in range(6))))
    loads.append(run_history(IITreeSet, 16, lambda i: i * 5, None,
                             mapping=False))
    loads.append(run_history(OOTreeSet, 17, lambda i: '%02d-x-%d' % (i // 10, i), None,
                             mapping=False, sizes=(3, 2)))
    bad = run_bad_keys()
    n1 = run_compare_sweeps(OOBTree, 18, True)
    n2 = run_compare_sweeps(OOTreeSet, 19, False)
    nfail = run_load_failures(20)
    run_refcounts()
    print("loads per family:", loads)
    print("bad-key outcomes:", len(bad), "failing loads:", nfail)
    print("checks:", CHECKS[0], "trace digest:", TRACE.hexdigest())
    print("OK")


if __name__ == '__main__':
    main()
