#!/venv/bin/python
"""Ad-hoc mutation probe: tools_mutate.py <repo-relative file> <python regex> <replacement> <check id> [...]
Applies the substitution (first match) to a scratch copy of /repo's sources and
runs the given checks on it (static, nothing is built).  Prints exit codes."""
import os, re, shutil, subprocess, sys, tempfile
rel, pat, rep = sys.argv[1:4]
checks = sys.argv[4:]
root = tempfile.mkdtemp(prefix="mut-", dir="/dev/shm")
try:
    for d in ("src", "include"):
        shutil.copytree(os.path.join("/repo", d), os.path.join(root, d),
                        ignore=shutil.ignore_patterns("*.so", "__pycache__"))
    shutil.copy("/repo/setup.py", root)
    p = os.path.join(root, rel)
    s = open(p).read()
    s2, n = re.subn(pat, rep, s, count=1, flags=re.M)
    if n != 1:
        sys.exit("pattern matched %d times" % n)
    open(p, "w").write(s2)
    env = dict(os.environ, VERIF_REPO=root, VERIF_CACHE=root + "-cache", VERIF_NO_EVIDENCE="1")
    for c in checks:
        q = subprocess.run(["/venv/bin/python", "-m", "sa.main", c], cwd=os.path.dirname(os.path.abspath(__file__)),
                           env=env, capture_output=True, text=True)
        rules = sorted(set(l.split("rule=")[1].split()[0] for l in q.stdout.splitlines() if l.strip().startswith("rule=")))
        print(c, "exit", q.returncode, rules, (q.stdout.strip().splitlines() or [""])[-1][:160] if q.returncode == 2 else "")
finally:
    shutil.rmtree(root, ignore_errors=True)
    shutil.rmtree(root + "-cache", ignore_errors=True)
