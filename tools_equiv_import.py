#!/venv/bin/python
"""Imports the behaviour-preserving refactorings of one sub-agent into
/verif/equiv.  Usage: tools_equiv_import.py <delivery dir> <property> t u v
Each is re-verified (scratch worktree of /repo HEAD, build, unedited suite,
demo exits 0 on /repo and on the refactored tree) before it is kept."""
import json
import os
import shutil
import sys

import tools_seed_verify as V

VERIF = os.path.dirname(os.path.abspath(__file__))


def main():
    src, prop = sys.argv[1], sys.argv[2]
    for a in sys.argv[3:]:
        d = os.path.join(src, a)
        name = prop + a
        dst = os.path.join(VERIF, "equiv", name)
        if not os.path.isfile(os.path.join(d, "patch.diff")) or not os.path.isfile(os.path.join(d, "demo.py")):
            print(name, "NOT DELIVERED")
            continue
        if os.path.isdir(dst):
            shutil.rmtree(dst)
        os.makedirs(dst)
        for f in os.listdir(d):
            p = os.path.join(d, f)
            if os.path.isfile(p) and os.path.getsize(p) < 300000 and not f.endswith((".so", ".o", ".pyc")):
                shutil.copy(p, os.path.join(dst, f))
        r = V.verify(os.path.join(VERIF, "equiv"), name)
        ok = r.get("suite_ok") and r.get("demo_exit_unmodified") == 0 and r.get("demo_exit_with_change") == 0
        if not ok:
            print(name, "REJECTED", {k: v for k, v in r.items() if k != "seed"})
            shutil.rmtree(dst)
            continue
        json.dump({"property": prop, "name": name, "round": 2, "verified": {
            "patch": r.get("patch"), "build": r.get("build"), "suite": r.get("suite"),
            "demo_exit_unmodified": 0, "demo_exit_refactored": 0,
            "repo_head": os.popen("git -C /repo rev-parse --short HEAD").read().strip()}},
            open(os.path.join(dst, "meta.json"), "w"), indent=1)
        print(name, "KEPT", r.get("suite"))


if __name__ == "__main__":
    main()
