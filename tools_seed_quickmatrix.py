#!/venv/bin/python
"""Quick re-run of seeded defects against the current rules: for every seed
named on the command line (default: round 4, suffix i/j/k) its own property's
check and the checks that reported it in seeded/MATRIX.json are run on a
scratch copy with the patch applied (tools_seedrun.sh).  Writes
seeded/MATRIX_round4_final.json.  (The full 19-check matrix is
tools_seed_matrix.py; this is the fast regression form.)"""
import json
import os
import subprocess
import sys
from concurrent.futures import ThreadPoolExecutor

V = os.path.dirname(os.path.abspath(__file__))
M = json.load(open(V + "/seeded/MATRIX.json"))
EXTRA = {"C01j": ["C01", "C03"], "C02i": ["C02"], "C02j": ["C02"], "C04j": ["C04", "C06"], "C06j": ["C06"],
         "C15j": ["C15"], "C18k": ["C18"], "C02k": ["C05"], "C11k": ["C05"], "C01k": ["C13"]}


def run(seed):
    own = seed[:3]
    props = sorted(set([own]) | set(M.get(seed, {}).get("detected_by", {}).keys()) | set(EXTRA.get(seed, [])))
    det, err = {}, {}
    for p in props:
        q = subprocess.run([V + "/tools_seedrun.sh", V + "/seeded/%s/patch.diff" % seed, V + "/check", p,
                            "--tier", "quick"], cwd=V, capture_output=True, text=True)
        out = q.stdout
        if q.returncode == 3 and "PATCH-DOES-NOT-APPLY" in out:
            err[p] = "patch does not apply any more"
        elif q.returncode == 1:
            det[p] = sorted(set(l.split("rule=")[1].split()[0] for l in out.splitlines()
                                if l.strip().startswith("rule=")))
        elif q.returncode != 0:
            err[p] = (out.strip().splitlines() or ["exit %d" % q.returncode])[-1][:200]
    return seed, props, det, err


def main():
    seeds = sys.argv[1:] or sorted(s for s in os.listdir(V + "/seeded")
                                   if s[-1] in "ijk" and os.path.isdir(V + "/seeded/" + s))
    res = {}
    with ThreadPoolExecutor(max_workers=4) as ex:
        for seed, props, det, err in ex.map(run, seeds):
            res[seed] = {"checks_run": props, "detected_by": det, "errors": err}
            print(seed, "own" if seed[:3] in det else "NOT-OWN", det, err or "", flush=True)
    json.dump(res, open(V + "/seeded/" + (os.environ.get("QM_OUT") or "MATRIX_round4_final.json"), "w"), indent=1, sort_keys=True)


if __name__ == "__main__":
    main()
