#!/venv/bin/python
"""Re-verifies independently written seeded defects before they are kept:
for each <dir>/<seed>/ (patch.diff, demo.py) a scratch git worktree of /repo's
HEAD is created under /tmp, the patch applied (3-way if needed), the extensions
built, the unedited suite run, and the demonstration run against the patched
worktree and against /repo itself.  The worktree is removed afterwards.

Usage: tools_seed_verify.py <dir> [seed ...]   -> <dir>/VERIFY.json
"""
import json
import os
import shutil
import subprocess
import sys
import tempfile
from concurrent.futures import ThreadPoolExecutor

PY = "/venv/bin/python"


def sh(cmd, cwd=None, env=None, timeout=1800):
    p = subprocess.run(cmd, cwd=cwd, env=env, capture_output=True, text=True,
                       timeout=timeout)
    return p.returncode, (p.stdout + p.stderr)


def demo(d, tree):
    env = dict(os.environ, PYTHONPATH=os.path.join(tree, "src"))
    env.pop("PURE_PYTHON", None)
    try:
        rc, out = sh([PY, os.path.join(d, "demo.py")], cwd=d, env=env, timeout=900)
    except subprocess.TimeoutExpired:
        return -999, "timeout"
    return rc, out[-400:]


def verify(root, seed):
    d = os.path.join(root, seed)
    res = {"seed": seed}
    wt = tempfile.mkdtemp(prefix="sv-%s-" % seed, dir="/tmp")
    os.rmdir(wt)
    try:
        subprocess.check_call(["git", "-C", "/repo", "worktree", "add", "-f", "--detach", wt, "HEAD"],
                              stdout=subprocess.DEVNULL, stderr=subprocess.DEVNULL)
        rc, out = sh(["git", "-C", wt, "apply", os.path.join(d, "patch.diff")])
        res["patch"] = "as delivered"
        if rc != 0:
            rc, out = sh(["git", "-C", wt, "apply", "-3", os.path.join(d, "patch.diff")])
            res["patch"] = "3-way"
            if rc != 0:
                res["patch"] = "DOES NOT APPLY: " + out[-300:]
                return res
        rc, out = sh([PY, "setup.py", "build_ext", "--inplace", "-j", "4"], cwd=wt)
        res["build"] = "ok" if rc == 0 else "FAILED: " + out[-400:]
        if rc != 0:
            return res
        rc, out = sh([PY, "-m", "pytest", "-q", "-p", "no:cacheprovider", "-x"], cwd=wt)
        res["suite"] = (out.strip().splitlines() or [""])[-1]
        res["suite_ok"] = rc == 0 and "1468 passed" in res["suite"]
        rc0, out0 = demo(d, "/repo")
        rc1, out1 = demo(d, wt)
        res["demo_exit_unmodified"] = rc0
        res["demo_exit_with_change"] = rc1
        if rc0 != 0:
            res["demo_out_unmodified"] = out0
        res["demo_out_with_change"] = out1
        res["ok"] = bool(res["suite_ok"] and rc0 == 0 and rc1 != 0)
    finally:
        subprocess.call(["git", "-C", "/repo", "worktree", "remove", "--force", wt],
                        stdout=subprocess.DEVNULL, stderr=subprocess.DEVNULL)
        shutil.rmtree(wt, ignore_errors=True)
    return res


def main():
    root = sys.argv[1]
    seeds = sys.argv[2:] or sorted(s for s in os.listdir(root)
                                   if os.path.isfile(os.path.join(root, s, "patch.diff")))
    path = os.path.join(root, "VERIFY.json")
    old = json.load(open(path)) if os.path.exists(path) else {}
    with ThreadPoolExecutor(max_workers=4) as ex:
        for r in ex.map(lambda s: verify(root, s), seeds):
            old[r["seed"]] = r
            print(r["seed"], "OK" if r.get("ok") else "PROBLEM",
                  {k: v for k, v in r.items() if k not in ("seed", "demo_out_with_change")}, flush=True)
    json.dump(old, open(path, "w"), indent=1, sort_keys=True)


if __name__ == "__main__":
    main()
