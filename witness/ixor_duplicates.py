"""Triage witness (not a check): `s ^= iterable` toggled an element once per
occurrence, so an element occurring twice in the iterable was added and removed
again (or removed and added again) - unlike set.symmetric_difference_update,
which the interface documents as the model.

Usage: PYTHONPATH=<tree>/src python ixor_duplicates.py   (exit 1 = defect)
"""
import sys
from BTrees.OOBTree import OOSet, OOSetPy, OOTreeSet, OOTreeSetPy
from BTrees.IIBTree import IISet, IISetPy, IITreeSet, IITreeSetPy
from BTrees.LFBTree import LFTreeSet


def main():
    bad = 0
    for cls in (OOSet, OOSetPy, OOTreeSet, OOTreeSetPy, IISet, IISetPy, IITreeSet,
                IITreeSetPy, LFTreeSet):
        for base, other in (([2, 3], [1, 1, 3]), ([2, 3], [3, 3]), ([], [5, 5, 5]),
                            (list(range(100)), [7, 7, 200, 200, 8])):
            s = cls(base)
            s ^= iter(other)
            want = sorted(set(base) ^ set(other))
            if list(s) != want:
                print("%s(%r) ^= %r -> %r, expected %r" % (cls.__name__, base[:5], other, list(s)[:8], want[:8]))
                bad += 1
            if hasattr(s, "_check"):
                s._check()
    return 1 if bad else 0


if __name__ == "__main__":
    sys.exit(main())
