"""Triage witness (not a check): a weak-reference callback (or finalizer) of a
stored key / value / separator runs while the container still points at the
object being released.

Usage: PYTHONPATH=<tree>/src python release_single_item.py <case>
Run with PYTHONMALLOC=debug so that freed memory is poisoned.
A crash (signal) or a wrong answer is the failure; prints 'ok <case>' otherwise.

  bucket_del_key    del b[k]       - callback of the stored key lists the bucket
  bucket_del_value  del b[k]       - callback of the stored value lists the values
  bucket_replace    b[k] = v2      - callback of the old value reads b[k]
  tree_sep_replace  del t[k], k smallest of a non-first leaf whose separator is
                    the last reference to the key object - callback looks up
  tree_child_remove del t[k], k only key of a non-first leaf - callback of the
                    separator key looks up a key
"""
import gc
import sys
import weakref

from BTrees.OOBTree import OOBTree, OOBucket


class K:
    def __init__(self, n):
        self.n = n

    def __lt__(self, o):
        return self.n < o.n

    def __eq__(self, o):
        return isinstance(o, K) and self.n == o.n

    def __hash__(self):
        return self.n

    def __repr__(self):
        return 'K(%d)' % self.n


class T(OOBTree):
    max_leaf_size = 2
    max_internal_size = 3


def main(case):
    refs = []
    seen = []
    if case == 'bucket_del_key':
        b = OOBucket()

        def cb(r):
            seen.append([k.n for k in b.keys()])
        for i in range(20):
            k = K(i)
            refs.append(weakref.ref(k, cb))
            b[k] = i
        del k
        del b[K(7)]
        assert seen and all(7 not in s for s in seen), seen
    elif case == 'bucket_del_value':
        b = OOBucket()

        def cb(r):
            seen.append([v.n for v in b.values()])
        for i in range(20):
            v = K(i)
            refs.append(weakref.ref(v, cb))
            b[i] = v
        del v
        del b[7]
        assert seen and all(7 not in s for s in seen), seen
    elif case == 'bucket_replace':
        b = OOBucket()

        def cb(r):
            seen.append(repr(b[7]))
        for i in range(20):
            v = K(i)
            refs.append(weakref.ref(v, cb))
            b[i] = v
        del v
        b[7] = 'new'
        assert seen == ["'new'"], seen
    elif case == 'tree_sep_replace':
        t = T()

        def cb(r):
            seen.append(t.get(K(target[0])))
            seen.append(t.get(K(target[0] + 1)))
            seen.append([k.n for k in t.keys()])
        target = [0]
        for i in range(0, 40, 2):
            t[K(i)] = i
        # find a key that is the smallest of a non-first leaf
        b = t._firstbucket._next
        first = list(b.keys())[0]
        n = target[0] = first.n
        refs.append(weakref.ref(first, cb))
        del first, b
        gc.collect()
        del t[K(n)]
        t._check()
    elif case == 'tree_child_remove':
        t = T()

        def cb(r):
            seen.append(t.get(K(target[0])))
            seen.append(t.get(K(target[0] + 1)))
            seen.append([k.n for k in t.keys()])
        target = [0]
        for i in range(0, 40, 2):
            t[K(i)] = i
        b = t._firstbucket._next._next
        ks = [k.n for k in b.keys()]
        target[0] = ks[0]
        first = list(b.keys())[0]
        refs.append(weakref.ref(first, cb))
        del first, b
        gc.collect()
        for n in reversed(ks):
            del t[K(n)]
        t._check()
    else:
        raise SystemExit('unknown case')
    print('ok', case, len(seen))


if __name__ == '__main__':
    main(sys.argv[1])
