"""Triage witness (not a check): BTreeItems_subscript computes the length of
the lazy sequence and goes on when that fails (-1 with an exception set):
`t.keys()[-1]` on a tree one of whose leaves cannot be loaded raises IndexError
("index out of range") - as if the tree were empty - in place of the load
error; a slice raises SystemError.
Usage: PYTHONPATH=<tree>/src python items_index_masks_load_error.py  (exit 1 = defect)
"""
import os
import sys
sys.path.insert(0, os.path.dirname(os.path.abspath(__file__)))
import minizodb
from BTrees.IIBTree import IIBTree


class LoadError(Exception):
    pass


class T(IIBTree):
    max_leaf_size = 4
    max_internal_size = 4


def fresh():
    st = minizodb.Storage()
    c1 = minizodb.Connection(st)
    t = T()
    for i in range(40):
        t[i] = i
    c1.add(t)
    c1.commit()
    c2 = minizodb.Connection(st)
    t2 = c2.get(t._p_oid, T)
    ks = t2.keys()                     # lazy sequence over all leaves
    for o in c2.objects.values():
        if o is not t2:
            o._p_deactivate()
    real = c2.setstate
    count = [0]

    def failing(obj):
        if not isinstance(obj, T):
            count[0] += 1
            if count[0] == 3:
                raise LoadError("cannot load leaf")
        return real(obj)
    c2.setstate = failing
    return ks


bad = 0
for name, op in (("keys()[-1]", lambda ks: ks[-1]), ("keys()[2:-2]", lambda ks: list(ks[2:-2]))):
    ks = fresh()
    try:
        r = op(ks)
        got = "no error: %r" % (r,)
    except LoadError:
        got = "LoadError reported"
    except Exception as e:
        got = "%s: %s" % (type(e).__name__, str(e)[:60])
    print("%-14s %s" % (name, got))
    bad += got != "LoadError reported"
print("DEFECT" if bad else "ok")
sys.exit(1 if bad else 0)
