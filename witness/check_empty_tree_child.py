"""Witness: a tree whose interior child is empty passes the C _check()
(and check()), although 'no interior node of a non-empty tree is empty'.
exit 1 = accepted (defect), 0 = rejected with AssertionError."""
import sys
from BTrees.OOBTree import OOBTree, OOBucket
from BTrees.check import check
b = OOBucket({1: 1})
t0 = OOBTree()
t0.__setstate__(((b,), b))
empty = OOBTree()
root = OOBTree()
root.__setstate__(((t0, 5, empty), b))
try:
    root._check()
    check(root)
except AssertionError as e:
    print("rejected:", e)
    sys.exit(0)
print("accepted by _check() and check()  (iterating it would crash)")
sys.exit(1)
