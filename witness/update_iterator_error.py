"""Triage witness (not a check): C Set.update / TreeSet.update return the count
of added keys although the iterator failed: the interpreter raises
SystemError("returned a result with an exception set") in place of the
iterator's exception (the Python classes raise the original exception).
Usage: PYTHONPATH=<tree>/src python update_iterator_error.py   (exit 1 = defect)
"""
import sys
from BTrees.OOBTree import OOSet, OOTreeSet, OOSetPy, OOTreeSetPy
from BTrees.IIBTree import IISet, IITreeSet


def gen():
    yield 1
    raise ValueError("boom")


bad = 0
for cls in (OOSet, OOTreeSet, IISet, IITreeSet, OOSetPy, OOTreeSetPy):
    s = cls()
    try:
        s.update(gen())
        got = "no exception"
    except ValueError:
        got = "ValueError"
    except SystemError as e:
        got = "SystemError: %s" % e
    ok = got == "ValueError"
    print("%-12s %s  contents=%s" % (cls.__name__, got, list(s)))
    bad += not ok
    # the constructor uses the same code
    try:
        cls(gen())
        got = "no exception"
    except ValueError:
        got = "ValueError"
    except SystemError as e:
        got = "SystemError"
    print("%-12s constructor: %s" % (cls.__name__, got))
    bad += got != "ValueError"
print("DEFECT" if bad else "ok")
sys.exit(1 if bad else 0)
