"""Triage witness (not a check): C BTree_rangeSearch returned a wrapped,
non-empty range when one end came from an exclusive omitted bound, the other
from a given bound (or also from an exclusive omitted bound), the true range is
empty and the two end positions lie in different leaves.

Usage: PYTHONPATH=<tree>/src python range_crossed_ends.py   (exit 1 = defect)
"""
import sys
from BTrees.OOBTree import OOBTree, OOTreeSet
from BTrees.IIBTree import IIBTree


def ref(keys, mn, mx, emin, emax):
    ks = sorted(keys)
    if mn is None:
        if emin:
            ks = ks[1:]
    else:
        ks = [k for k in ks if (k > mn if emin else k >= mn)]
    if mx is None:
        if emax:
            ks = ks[:-1]
    else:
        ks = [k for k in ks if (k < mx if emax else k <= mx)]
    return ks


def main():
    bad = []
    for base in (OOBTree, IIBTree):
        class T(base):
            max_leaf_size = 2
            max_internal_size = 2
        for n in range(0, 8):
            for thin in (False, True):
                keys = [2 * i + 2 for i in range(n)]
                t = T()
                if thin:
                    for k in range(2, 42, 2):
                        t[k] = k
                    for k in range(2, 42, 2):
                        if k not in keys:
                            del t[k]
                else:
                    for k in keys:
                        t[k] = k
                bounds = [None] + list(range(0, 2 * n + 4))
                for mn in bounds:
                    for mx in bounds:
                        for emin in (False, True):
                            for emax in (False, True):
                                got = list(t.keys(mn, mx, emin, emax))
                                exp = ref(keys, mn, mx, emin, emax)
                                if got != exp:
                                    bad.append((base.__name__, keys, mn, mx, emin, emax, got, exp))
    for b in bad[:10]:
        print("WRONG", b)
    print("%d wrong ranges" % len(bad))
    return 1 if bad else 0


if __name__ == "__main__":
    sys.exit(main())
