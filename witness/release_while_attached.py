"""Triage witness (not a check): finalizers that look at the container while
its contents are being released.

Usage: PYTHONPATH=<tree>/src python release_while_attached.py <case>
Each case runs in its own process (a crash is the expected failure mode on a
tree without the repair):

  clear_bucket    OOBucket.clear(): value finalizer iterates the bucket
  clear_tree      OOBTree.clear(): value finalizer iterates the tree
  setstate_bucket OOBucket.__setstate__ on a non-empty bucket
  setstate_set    OOSet.__setstate__ on a non-empty set
  del_item        del bucket[k]: key finalizer lists the bucket
  replace_value   bucket[k] = v2: old value finalizer reads bucket[k]
"""
import gc
import sys

from BTrees.OOBTree import OOBTree, OOBucket, OOSet


class Probe:
    """Object whose finalizer inspects the container it lived in."""
    def __init__(self, owner, n, how):
        self.owner = owner
        self.n = n
        self.how = how

    def __lt__(self, other):
        return self.n < other.n

    def __eq__(self, other):
        return isinstance(other, Probe) and self.n == other.n

    def __hash__(self):
        return self.n

    def __del__(self):
        o = self.owner[0]
        if o is None:
            return
        self.how(o)


def look(o):
    # touch every stored object: a released one is garbage memory
    for k in list(o.keys()):
        repr(k)
    if hasattr(o, 'values'):
        for v in list(o.values()):
            repr(v)


def main(case):
    owner = [None]
    if case == 'clear_bucket':
        b = OOBucket()
        owner[0] = b
        for i in range(20):
            b[i] = Probe(owner, i, look)
        b.clear()
    elif case == 'clear_tree':
        t = OOBTree()
        owner[0] = t
        for i in range(500):
            t[i] = Probe(owner, i, look)
        t.clear()
    elif case == 'setstate_bucket':
        b = OOBucket()
        owner[0] = b
        for i in range(20):
            b[i] = Probe(owner, i, look)
        b.__setstate__(((1, 2),))
    elif case == 'setstate_set':
        s = OOSet()
        owner[0] = s
        for i in range(20):
            s.add(Probe(owner, i, look))
        s.__setstate__(((1, 2),))
    elif case == 'del_item':
        b = OOBucket()
        owner[0] = b
        ks = [Probe(owner, i, look) for i in range(20)]
        for k in ks:
            b[k] = 1
        victim = Probe(owner, 7, look)
        del ks
        gc.collect()
        del b[victim]
    elif case == 'replace_value':
        b = OOBucket()
        owner[0] = b
        for i in range(20):
            b[i] = Probe(owner, i, look)
        b[7] = 'new'
    else:
        raise SystemExit('unknown case')
    owner[0] = None
    print('ok', case)


if __name__ == '__main__':
    main(sys.argv[1])
