"""A tiny stand-in for ZODB: optimistic concurrency control with conflict
resolution and read-current checks, just enough to commit BTrees.

Storage   : oid -> list of (serial, pickle) revisions.
Connection: a data manager (``_p_jar``) with ``setstate``, ``register``,
            ``readCurrent`` and ``commit``.
"""
import io
import pickle

from persistent import Persistent


class ConflictError(Exception):
    pass


class ReadConflictError(ConflictError):
    pass


class Storage:

    def __init__(self):
        self.revisions = {}      # oid -> [(serial, data), ...]
        self._tid = 0
        self._oid = 0

    def new_oid(self):
        self._oid += 1
        return self._oid.to_bytes(8, 'big')

    def new_tid(self):
        self._tid += 1
        return self._tid.to_bytes(8, 'big')

    def load(self, oid):
        serial, data = self.revisions[oid][-1]
        return data, serial

    def load_serial(self, oid, serial):
        for s, data in self.revisions[oid]:
            if s == serial:
                return data
        raise KeyError((oid, serial))

    def current_serial(self, oid):
        revs = self.revisions.get(oid)
        return revs[-1][0] if revs else None


class _Ref:
    """Placeholder for a persistent reference during conflict resolution."""

    __slots__ = ('oid', 'cls')

    def __init__(self, oid, cls):
        self.oid = oid
        self.cls = cls

    def __eq__(self, other):
        return isinstance(other, _Ref) and other.oid == self.oid

    def __ne__(self, other):
        return not self.__eq__(other)

    __hash__ = None


class Connection:

    def __init__(self, storage):
        self.storage = storage
        self._cache = self           # for pure-Python Persistent
        self.objects = {}            # oid -> object
        self.registered = []         # objects changed in this transaction
        self.read_current = {}       # oid -> serial
        self.log = []                # ('readCurrent'|'register', obj)
        self.resolved = []           # oids whose conflict was resolved

    def mru(self, oid):
        pass

    # -- data manager protocol used by persistent / BTrees ---------------

    def setstate(self, obj):
        data, serial = self.storage.load(obj._p_oid)
        cls, state = self._loads(data)
        obj.__setstate__(state)
        obj._p_serial = serial

    def register(self, obj):
        self.log.append(('register', obj))
        self.registered.append(obj)

    def readCurrent(self, obj):
        self.log.append(('readCurrent', obj))
        if obj._p_oid is not None and obj._p_oid not in self.read_current:
            self.read_current[obj._p_oid] = obj._p_serial

    # -- object access -----------------------------------------------------

    def get(self, oid, cls=None):
        obj = self.objects.get(oid)
        if obj is None:
            if cls is None:
                cls, _ = self._loads(self.storage.load(oid)[0], refs=False)
            obj = cls.__new__(cls)
            obj._p_oid = oid
            obj._p_jar = self
            obj._p_deactivate()
            assert obj._p_state == -1, obj._p_state
            self.objects[oid] = obj
        return obj

    def add(self, obj):
        assert obj._p_oid is None
        obj._p_oid = self.storage.new_oid()
        obj._p_jar = self
        self.objects[obj._p_oid] = obj
        self.registered.append(obj)
        self._added = getattr(self, '_added', set()) | {obj._p_oid}
        return obj._p_oid

    # -- serialisation -------------------------------------------------------

    def _dumps(self, obj, state, queue):
        f = io.BytesIO()
        p = pickle.Pickler(f, 2)

        def persistent_id(o):
            if isinstance(o, _Ref):
                return (o.oid, o.cls)
            if isinstance(o, Persistent) and o is not obj:
                if o._p_oid is None:
                    o._p_oid = self.storage.new_oid()
                    o._p_jar = self
                    self.objects[o._p_oid] = o
                    queue.append(o)
                return (o._p_oid, type(o))
            return None

        p.persistent_id = persistent_id
        p.dump((obj if isinstance(obj, type) else type(obj), state))
        return f.getvalue()

    def _loads(self, data, refs=True, resolver=None):
        u = pickle.Unpickler(io.BytesIO(data))

        def persistent_load(ref):
            oid, cls = ref
            if resolver is not None:
                r = resolver.get(oid)
                if r is None:
                    r = resolver[oid] = _Ref(oid, cls)
                return r
            if not refs:
                return None
            return self.get(oid, cls)

        u.persistent_load = persistent_load
        return u.load()

    # -- commit ----------------------------------------------------------------

    def commit(self):
        storage = self.storage
        added = getattr(self, '_added', set())
        queue = []
        seen = set()
        for o in self.registered:
            if id(o) not in seen:
                seen.add(id(o))
                queue.append(o)
        to_store = []                # (oid, data, obj)
        new_oids = set(added)
        i = 0
        while i < len(queue):
            obj = queue[i]
            i += 1
            n = len(queue)
            data = self._dumps(obj, obj.__getstate__(), queue)
            for o in queue[n:]:
                new_oids.add(o._p_oid)
            to_store.append((obj._p_oid, data, obj))

        # Validation: nothing is written unless everything validates.
        final = []
        written = set()
        for oid, data, obj in to_store:
            written.add(oid)
            if oid in new_oids:
                final.append((oid, data, obj))
                continue
            cur = storage.current_serial(oid)
            if cur != obj._p_serial:
                data = self._resolve(oid, obj, data)
                self.resolved.append(oid)
            final.append((oid, data, obj))
        for oid, serial in self.read_current.items():
            if oid in written:
                continue
            if storage.current_serial(oid) != serial:
                raise ReadConflictError(oid)

        tid = storage.new_tid()
        for oid, data, obj in final:
            storage.revisions.setdefault(oid, []).append((tid, data))
            obj._p_serial = tid
            obj._p_changed = False
        for oid in self.resolved:
            self.objects[oid]._p_invalidate()
        self.registered = []
        self.read_current = {}
        self._added = set()
        return tid

    def _resolve(self, oid, obj, newdata):
        storage = self.storage
        resolver = {}
        try:
            old = self._loads(storage.load_serial(oid, obj._p_serial),
                              resolver=resolver)[1]
            com = self._loads(storage.load(oid)[0], resolver=resolver)[1]
            cls, new = self._loads(newdata, resolver=resolver)
            inst = cls.__new__(cls)
            resolve = inst._p_resolveConflict
        except (KeyError, AttributeError) as e:
            raise ConflictError(oid, e)
        from BTrees.Interfaces import BTreesConflictError
        try:
            merged = resolve(old, com, new)
        except BTreesConflictError as e:
            raise ConflictError(oid, e)
        return self._dumps(cls, merged, [])
