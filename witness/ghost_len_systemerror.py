"""Triage witness (not a check): len()/bool() of a ghost C Bucket whose load
fails raised SystemError instead of the loader's exception (Bucket_length
returned int through a lenfunc slot).  Exit 1 = defect."""
import sys
from BTrees.OOBTree import OOBucket, OOBucketPy


class Jar:
    def register(self, o):
        pass

    def setstate(self, o):
        raise LookupError("cannot load")


bad = 0
for cls in (OOBucket, OOBucketPy):
    b = cls()
    b._p_jar = Jar()
    b._p_oid = b"1" * 8
    b._p_changed = None
    for f in (len, bool):
        try:
            f(b)
            r = "no exception"
        except LookupError:
            r = "LookupError"
        except Exception as e:
            r = type(e).__name__
        if r != "LookupError":
            print(cls.__name__, f.__name__, "->", r)
            bad += 1
sys.exit(1 if bad else 0)
