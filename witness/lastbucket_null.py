"""Triage witness (not a check): BTree_maxminKey (maxKey) and BTree_rangeSearch
(keys(max=..) / values / items with the high end open) dereference the result
of BTree_lastBucket() without a NULL test.  BTree_lastBucket returns NULL when
an interior node on the right spine is a ghost that cannot be activated (its
load raises: POSKeyError, ReadConflictError, MemoryError ...): the process
crashes with SIGSEGV instead of reporting the error.

Runs each call in a child process.  Usage:
  PYTHONPATH=<tree>/src python lastbucket_null.py     (exit 1 = defect present)
"""
import os
import subprocess
import sys

HERE = os.path.dirname(os.path.abspath(__file__))

CHILD = r'''
import sys
sys.path.insert(0, %(here)r)
import minizodb
from BTrees.OOBTree import OOBTree

class T(OOBTree):
    max_leaf_size = 2
    max_internal_size = 2

st = minizodb.Storage()
c1 = minizodb.Connection(st)
t = T()
for i in range(40):
    t[i] = i
c1.add(t); c1.commit()
c2 = minizodb.Connection(st)
t2 = c2.get(t._p_oid, T)
list(t2.keys())                       # load everything once
interior = [o for o in c2.objects.values() if isinstance(o, T) and o is not t2]
assert interior, "tree too shallow"
for o in c2.objects.values():
    if o is not t2:
        o._p_deactivate()
real = c2.setstate
class LoadError(Exception):
    pass
def failing(obj):
    if isinstance(obj, T) and obj is not t2:
        raise LoadError("cannot load interior node")
    return real(obj)
c2.setstate = failing
try:
    %(call)s
except LoadError:
    print("LoadError reported")
    sys.exit(0)
print("no error?")
sys.exit(3)
'''

CALLS = {"maxKey": "t2.maxKey()", "keys()": "t2.keys()"}


def main():
    bad = 0
    for name, call in CALLS.items():
        p = subprocess.run([sys.executable, "-c", CHILD % {"here": HERE, "call": call}],
                           capture_output=True, text=True, env=dict(os.environ))
        print("%-12s exit %s %s" % (name, p.returncode, (p.stdout + p.stderr).strip().splitlines()[-1:]))
        if p.returncode != 0:
            bad += 1
    print("DEFECT" if bad else "ok")
    return 1 if bad else 0


if __name__ == "__main__":
    sys.exit(main())
