"""Triage script (not a check): exclusive omitted bounds of keys()/values()/items().

Run as  PYTHONPATH=/repo/src /venv/bin/python witness/range_exclude_unbounded.py
Before fix bc6c5e4 the C part fails (empty range when the root has a single
interior child); before fix 1523115 the Python part fails (one key dropped per
leaf).  Exit 0 = both implementations agree with sorted(keys)[1:] / [:-1].
"""
import random, sys
from BTrees.OOBTree import OOBTree, OOBTreePy
from BTrees.IIBTree import IITreeSet
def probe(cls, seed):
    class T(cls):
        max_leaf_size = 2
        max_internal_size = 2
    rnd = random.Random(seed)
    t = T()
    keys = set()
    for i in range(40):
        t[i] = i; keys.add(i)
    for step in range(200):
        if not keys: break
        k = rnd.choice(sorted(keys))
        del t[k]; keys.discard(k)
        s = sorted(keys)
        for kw, exp in (({'excludemin': True}, s[1:]), ({'excludemax': True}, s[:-1])):
            got = list(t.keys(**kw))
            if got != exp:
                return (seed, step, kw, got, exp, t.__getstate__())
    return None
bad = False
for cls in (OOBTree, OOBTreePy):
    for seed in range(300):
        r = probe(cls, seed)
        if r:
            print(cls.__name__, r); bad = True; break
    else:
        print(cls.__name__, "no failure")
sys.exit(1 if bad else 0)
