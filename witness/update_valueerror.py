"""Triage witness (not a check): Python Bucket/Tree.update() reported a
ValueError raised by a key comparison (or by a value conversion) as
TypeError('items must be a sequence of 2-tuples'); the C types let it through.
Exit 1 = defect."""
import sys
from BTrees.OOBTree import OOBucket, OOBucketPy, OOBTree, OOBTreePy


class K:
    def __init__(self, n):
        self.n = n

    def __lt__(self, o):
        raise ValueError("cannot order")

    def __eq__(self, o):
        return self is o

    def __hash__(self):
        return self.n


bad = 0
for cls in (OOBucket, OOBucketPy, OOBTree, OOBTreePy):
    b = cls()
    try:
        b.update([(K(1), 1), (K(2), 2)])
        r = "no exception"
    except Exception as e:
        r = type(e).__name__
    if r != "ValueError":
        print(cls.__name__, "->", r)
        bad += 1
    # malformed items still give TypeError
    try:
        cls().update([(1, 2, 3)])
        r = "no exception"
    except Exception as e:
        r = type(e).__name__
    if r != "TypeError":
        print(cls.__name__, "3-tuple item ->", r)
        bad += 1
sys.exit(1 if bad else 0)
