"""Witness (triage only, not a check): the C set operations and the C tree
__setstate__ classified their argument with PyObject_IsInstance, which asks
__class__ - and the pure-Python classes answer with the C class.  A *Py object
was then read as a C struct.  Each case runs in a child process (some crash).
Run: /venv/bin/python witness/py_operand_read_as_c_struct.py"""
import subprocess
import sys

CASES = [
    ("union(OOSetPy([1,2,3]), OOSet([2,3,4]))",
     "from BTrees import OOBTree as O; r = list(O.union(O.OOSetPy([1,2,3]), O.OOSet([2,3,4]))); "
     "assert r == [1,2,3,4], r"),
    ("OOSet([1,2,3]) - OOSetPy([2,3])",
     "from BTrees import OOBTree as O; r = list(O.OOSet([1,2,3]) - O.OOSetPy([2,3])); assert r == [1], r"),
    ("multiunion([IISetPy([1,2,3]), 9])",
     "import BTrees.IIBTree as m; r = list(m.multiunion([m.IISetPy([1,2,3]), 9])); assert r == [1,2,3,9], r"),
    ("union(IISetPy(range(5)), IISet([9]))",
     "import BTrees.IIBTree as m; r = list(m.union(m.IISetPy(range(5)), m.IISet([9]))); assert r == [0,1,2,3,4,9], r"),
    ("copy.copy(OOBTreePy with several leaves) must not build a C tree over Python leaves",
     "import copy\nfrom BTrees.OOBTree import OOBTreePy\nt = OOBTreePy({i: i for i in range(100)})\n"
     "try:\n    c = copy.copy(t)\nexcept TypeError:\n    pass\nelse:\n    assert sorted(c.keys()) == list(range(100))"),
]
bad = 0
for name, code in CASES:
    p = subprocess.run([sys.executable, "-c", code], capture_output=True, text=True)
    ok = p.returncode == 0
    bad += not ok
    print("ok  " if ok else "FAIL", name, "" if ok else "(exit %d) %s" % (p.returncode, p.stderr.strip().splitlines()[-1:] ))
raise SystemExit(1 if bad else 0)
