"""Witness (triage only, not a check): pure-Python minKey(b) for b in the gap
behind a leaf's last key.  Before the fix in /repo it raised ValueError; C
returns the next leaf's first key.  Run: /venv/bin/python witness/py_minkey_gap.py"""
from BTrees.OOBTree import OOBTree, OOBTreePy


def mk(cls):
    class T(cls):
        max_leaf_size = 2
        max_internal_size = 2
    return T


bad = 0
for cls in (OOBTree, OOBTreePy):
    t = mk(cls)()
    keys = list(range(0, 40, 4))
    for k in keys:
        t[k] = k
    for x in range(-1, 41):
        exp = min([k for k in keys if k >= x], default="VE")
        try:
            got = t.minKey(x)
        except ValueError:
            got = "VE"
        if got != exp:
            bad += 1
            print(cls.__name__, "minKey(%d) ->" % x, got, "expected", exp)
print("wrong answers:", bad)
raise SystemExit(1 if bad else 0)
