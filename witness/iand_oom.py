"""Triage witness (not a check): `s &= other` on a C Set / TreeSet clears the
container and re-inserts the kept keys; an allocation failure during the
re-insertion raises MemoryError and leaves a partial result.

Uses the LD_PRELOAD shim of oom_bucket_grow.py (same directory).
Usage: PYTHONPATH=<tree>/src python iand_oom.py     (exit 1 = defect shown)
"""
import os
import sys

sys.path.insert(0, os.path.dirname(os.path.abspath(__file__)))
from oom_bucket_grow import ensure_shim  # noqa: E402


def main():
    shim = ensure_shim()
    from BTrees.IIBTree import IISet, IITreeSet
    bad = 0
    for cls in (IISet, IITreeSet):
        for n in range(1, 12):
            s = cls(range(200))
            before = list(s)
            other = list(range(0, 200, 2))
            shim.shim_arm(n)
            try:
                s &= other
                raised = False
            except MemoryError:
                raised = True
            shim.shim_disarm()
            after = list(s)
            if raised and after not in (before, other):
                print("%s: allocation #%d failed -> MemoryError, %d elements left "
                      "(previous contents %d, intersection %d)" % (
                          cls.__name__, n, len(after), len(before), len(other)))
                bad += 1
                break
    return 1 if bad else 0


if __name__ == "__main__":
    sys.exit(main())
