"""Witness for the known finding C14 / CMP-AFTER-COMMIT (C and Python):
a key comparison that raises after the leaf deletion leaves the leaf chain
damaged.  Run: PYTHONPATH=/repo/src /venv/bin/python witness/cmp_after_commit.py
Exit status 1 = defect reproduced (as recorded), 0 = not reproduced."""
import sys
from BTrees.OOBTree import OOBTree, OOBTreePy


class Boom(Exception):
    pass


class K(object):
    budget = None       # comparisons allowed before raising
    count = 0

    def __init__(self, v):
        self.v = v

    def _tick(self):
        K.count += 1
        if K.budget is not None and K.count > K.budget:
            raise Boom()

    def __lt__(self, o):
        self._tick()
        return self.v < o.v

    def __eq__(self, o):
        self._tick()
        return self.v == o.v

    def __hash__(self):
        return hash(self.v)


def build(base):
    class T(base):
        max_leaf_size = 4
        max_internal_size = 4
    K.budget = None
    t = T()
    for i in range(0, 120, 2):
        t[K(i)] = i
    del t[K(16)]
    return t


bad = []
for base in (OOBTree, OOBTreePy):
    for n in range(1, 40):
        t = build(base)
        K.count = 0
        K.budget = n
        try:
            del t[K(18)]
            K.budget = None
            break
        except Boom:
            K.budget = None
            try:
                t._check()
                list(t.keys())
            except Exception as e:
                bad.append((base.__name__, n, type(e).__name__, str(e)))
for b in bad:
    print(b)
sys.exit(1 if bad else 0)
