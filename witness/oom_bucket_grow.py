"""C17 / seeded defect b -- demo.

Fails the SECOND allocation (the values vector of the new right-hand leaf) of
a leaf split in a C mapping (OOBTree, and LLBTree as a second family), checks
that the caller sees MemoryError, and then keeps using the tree.  The property
demands that the tree stays sound and that no freed or unowned memory is
referenced afterwards.  A TreeSet (no values vector) goes through the same
steps as a control.

Allocation failures are injected, and heap misuse is detected, by a small
LD_PRELOAD shim that this script compiles for itself (gcc) and re-executes
under.  The shim only looks at malloc/realloc/free calls whose *caller* lives
in one of the BTrees extension modules:

  * shim_arm(n)    -> the n-th such allocation from now on returns NULL
  * every such block gets a 32 byte guard zone behind it;  shim_check()
    reports guard zones that were written to (heap overflow) and free()/
    realloc() calls on blocks the module does not own (double / invalid free)

Run:  PYTHONPATH=/tmp/wt/C17/src /venv/bin/python demo.py
Exit status 0 = property held, non-zero = property violated.
"""
import ctypes
import os
import subprocess
import sys
import tempfile

SHIM_SRC = r'''
#define _GNU_SOURCE
#include <dlfcn.h>
#include <errno.h>
#include <stddef.h>
#include <string.h>
#include <unistd.h>

extern void *__libc_malloc(size_t);
extern void *__libc_realloc(void *, size_t);
extern void __libc_free(void *);

#define GUARD 32
#define GUARD_BYTE 0xA5
#define MAXLIVE 200000
#define MAXLOG 64

static struct { void *p; size_t sz; } live[MAXLIVE];
static int nlive;
static __thread int busy;
static long countdown = -1;     /* <0: disarmed */
static long seen;               /* BTrees allocations since last arm */
static long overflows, bad_frees, injected;
static struct { int kind; size_t sz; } alog[MAXLOG];

static int from_btrees(void *ra)
{
    Dl_info info;
    int r;
    if (busy) return 0;
    busy = 1;
    r = dladdr(ra, &info) && info.dli_fname
        && strstr(info.dli_fname, "/BTrees/_") != NULL;
    busy = 0;
    return r;
}

static int find(void *p)
{
    int i;
    for (i = nlive; --i >= 0; )
        if (live[i].p == p) return i;
    return -1;
}

static int guard_ok(int i)
{
    unsigned char *g = (unsigned char *)live[i].p + live[i].sz;
    int j;
    for (j = 0; j < GUARD; j++)
        if (g[j] != GUARD_BYTE) return 0;
    return 1;
}

static void say(const char *s) { if (write(2, s, strlen(s)) < 0) {} }

static int should_fail(int kind, size_t sz)
{
    if (countdown < 0) return 0;
    if (seen < MAXLOG) { alog[seen].kind = kind; alog[seen].sz = sz; }
    seen++;
    if (--countdown == 0) { countdown = -1; injected++; errno = ENOMEM; return 1; }
    if (countdown < 0) countdown = 0x7fffffff;
    return 0;
}

void *malloc(size_t sz)
{
    void *p;
    if (!from_btrees(__builtin_return_address(0)))
        return __libc_malloc(sz);
    if (should_fail('m', sz)) return NULL;
    p = __libc_malloc(sz + GUARD);
    if (p && nlive < MAXLIVE) {
        memset((char *)p + sz, GUARD_BYTE, GUARD);
        live[nlive].p = p; live[nlive].sz = sz; nlive++;
    }
    return p;
}

void *realloc(void *old, size_t sz)
{
    void *p;
    int i;
    if (!from_btrees(__builtin_return_address(0)))
        return __libc_realloc(old, sz);
    if (should_fail('r', sz)) return NULL;
    i = old ? find(old) : -1;
    if (old && i < 0) {
        bad_frees++;
        say("[shim] realloc() of a block the BTrees module does not own\n");
        old = NULL;
    }
    if (i >= 0 && !guard_ok(i)) {
        overflows++;
        say("[shim] heap overflow: bytes behind a BTrees block were overwritten (seen at realloc)\n");
    }
    p = __libc_realloc(old, sz + GUARD);
    if (!p) return NULL;
    memset((char *)p + sz, GUARD_BYTE, GUARD);
    if (i < 0 && nlive < MAXLIVE) i = nlive++;
    if (i >= 0) { live[i].p = p; live[i].sz = sz; }
    return p;
}

void free(void *p)
{
    int i;
    if (!p) return;
    if (!from_btrees(__builtin_return_address(0))) { __libc_free(p); return; }
    i = find(p);
    if (i < 0) {
        bad_frees++;
        say("[shim] free() of a block the BTrees module does not own (double free / dangling pointer)\n");
        return;                 /* do not let glibc abort; we report instead */
    }
    if (!guard_ok(i)) {
        overflows++;
        say("[shim] heap overflow: bytes behind a BTrees block were overwritten (seen at free)\n");
    }
    live[i] = live[--nlive];
    __libc_free(p);
}

void shim_arm(long n) { seen = 0; countdown = n > 0 ? n : 0x7fffffff; }
long shim_disarm(void) { countdown = -1; return seen; }
long shim_injected(void) { return injected; }
int shim_log_kind(int i) { return i < MAXLOG && i < seen ? alog[i].kind : 0; }
long shim_log_size(int i) { return i < MAXLOG && i < seen ? (long)alog[i].sz : -1; }
long shim_bad_frees(void) { return bad_frees; }
long shim_overflows(void)
{
    long n = overflows;
    int i;
    for (i = 0; i < nlive; i++)
        if (!guard_ok(i)) n++;
    return n;
}
'''


def ensure_shim():
    """Compile the shim and re-exec under LD_PRELOAD; return the ctypes handle."""
    path = os.environ.get('C17_SHIM')
    if path and path in os.environ.get('LD_PRELOAD', ''):
        lib = ctypes.CDLL(path)
        for name in ('shim_disarm', 'shim_injected', 'shim_log_size',
                     'shim_bad_frees', 'shim_overflows'):
            getattr(lib, name).restype = ctypes.c_long
        lib.shim_arm.argtypes = [ctypes.c_long]
        lib.shim_log_kind.argtypes = [ctypes.c_int]
        lib.shim_log_size.argtypes = [ctypes.c_int]
        return lib
    d = tempfile.mkdtemp(prefix='c17shim')
    src = os.path.join(d, 'shim.c')
    so = os.path.join(d, 'shim.so')
    with open(src, 'w') as f:
        f.write(SHIM_SRC)
    subprocess.check_call(['gcc', '-O1', '-shared', '-fPIC', '-o', so, src, '-ldl'])
    env = dict(os.environ, LD_PRELOAD=so, C17_SHIM=so)
    sys.stdout.flush()
    rc = subprocess.call([sys.executable] + sys.argv, env=env)
    try:
        os.unlink(src); os.unlink(so); os.rmdir(d)
    except OSError:
        pass
    if rc < 0:
        print("child killed by signal %d" % -rc)
        rc = 128 - rc
    sys.exit(rc)


def alloc_log(shim, n):
    return [(chr(shim.shim_log_kind(i)), shim.shim_log_size(i)) for i in range(n)]



def main():
    shim = ensure_shim()
    from BTrees.OOBTree import OOBucket
    b = OOBucket()
    for i in range(16):
        b[i] = i
    shim.shim_arm(2)          # 1st = keys realloc (succeeds), 2nd = values realloc (fails)
    try:
        b[16] = 16
    except MemoryError:
        print("MemoryError raised, as expected")
    else:
        print("no MemoryError?!")
    shim.shim_disarm() if hasattr(shim, "shim_disarm") else None
    try:
        print("len", len(b), "first keys", list(b.keys())[:3])
        b[17] = 17
        del b
    except Exception as e:
        print("after:", type(e).__name__, e)
    rep = (shim.shim_bad_frees(), shim.shim_overflows())
    print("bad_frees, overflows ->", rep)
    return 1 if any(rep) else 0

if __name__ == "__main__":
    sys.exit(main())
