"""_BTree_set releases an emptied child (Py_DECREF(d->child)) while
self->data[min].child still points at it and self->len still counts it.
A weakref callback on that bucket runs in between and sees the dangling slot."""
import sys, weakref
from BTrees.OOBTree import OOBTree, OOBucket

class B(OOBucket):          # a Python subclass can be weakly referenced
    pass

class T(OOBTree):
    max_leaf_size = 2
    max_internal_size = 10
    _bucket_type = B

t = T()
for i in range(8):
    t[i] = i
b = t._firstbucket._next          # second bucket of the root
keys = list(b.keys())
seen = []

def cb(wr):
    # the bucket is being deallocated; the root still lists it as a child
    st = t.__getstate__()
    kids = st[0][0::2]
    seen.append([ (type(k).__name__, sys.getrefcount(k)) for k in kids ])
    seen.append(('len(root children) in callback', len(kids)))
    try:
        seen.append(('lookup', t.get(keys[0], 'absent')))
    except BaseException as e:
        seen.append(('lookup raised', repr(e)))
    stash.append(kids[1])         # keep the dead child

stash = []
wr = weakref.ref(b, cb)
del b
for k in keys:
    del t[k]
print(seen)
print('stashed child:', type(stash[0]), sys.getrefcount(stash[0]))
try:
    print('stashed child keys:', list(stash[0].keys()))
except BaseException as e:
    print('raised', repr(e))
t._check()
print('still alive')
