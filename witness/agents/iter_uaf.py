"""Unmodified tree: BTreeIter_next, when it steps off the end of a bucket, does

    Py_XINCREF(bucket->next);
    items->currentbucket = bucket->next;
    Py_DECREF(bucket);          <- may be the last reference
    ...
  Done:
    PER_UNUSE(bucket);          <- reads and writes the freed bucket

The iterator's reference can be the last one when the bucket has been taken out
of the tree in the meantime (here: emptied through the tree, which unlinks it,
then given a key again through a direct reference)."""
from BTrees.OOBTree import OOBTree

class T(OOBTree):
    max_leaf_size = 2
    max_internal_size = 10

t = T()
for i in range(10):
    t[i] = i
b1 = t._firstbucket._next
it = iter(t)
while True:                       # walk the iterator to the start of b1
    k = next(it)
    if k + 1 == b1.minKey():
        break
for k in list(b1.keys()):         # empty b1 through the tree: it is unlinked
    del t[k]
t._check()
b1[100] = 100                     # ... and no longer empty
del b1                            # now only the iterator holds it
print('next ->', next(it))        # frees the bucket, then PER_UNUSE()s it
print('rest ->', list(it))
