"""Triage witness (not a check): nextBTreeItems / nextTreeSetItems (the cursor
functions the C set operations use for tree operands) call PyErr_Clear() on
*every* failure of BTreeItems_seek and end the iteration.  Only IndexError
means "end of sequence": when a leaf cannot be activated (its load raises) the
error is swallowed and union / intersection / difference / multiunion /
weightedUnion silently return a truncated result.

Usage: PYTHONPATH=<tree>/src python setop_swallows_load_error.py  (exit 1 = defect)
"""
import os
import sys
sys.path.insert(0, os.path.dirname(os.path.abspath(__file__)))
import minizodb
from BTrees.IIBTree import IIBTree, IITreeSet, IISet, union, intersection, difference, multiunion


class LoadError(Exception):
    pass


def run(cls, fill, op):
    class T(cls):
        max_leaf_size = 4
        max_internal_size = 4
    T.__name__ = T.__qualname__ = "T_" + cls.__name__
    globals()[T.__name__] = T
    st = minizodb.Storage()
    c1 = minizodb.Connection(st)
    t = T()
    fill(t)
    c1.add(t)
    c1.commit()
    c2 = minizodb.Connection(st)
    t2 = c2.get(t._p_oid, T)
    full = list(t2.keys())
    leaves = [o for o in c2.objects.values() if not isinstance(o, T)]
    for o in c2.objects.values():
        if o is not t2:
            o._p_deactivate()
    real = c2.setstate
    count = [0]

    def failing(obj):
        if not isinstance(obj, T):
            count[0] += 1
            if count[0] == 3:           # the third leaf cannot be loaded
                raise LoadError("cannot load leaf")
        return real(obj)
    c2.setstate = failing
    try:
        r = op(t2)
    except LoadError:
        return "LoadError reported", True
    got = list(r.keys()) if hasattr(r, "keys") else list(r)
    return "no error, %d of %d keys" % (len(got), len(full)), got == full


bad = 0
for name, cls, fill, op in (
        ("union(tree, set)", IIBTree, lambda t: [t.__setitem__(i, i) for i in range(40)], lambda t: union(t, IISet())),
        ("difference(treeset, set)", IITreeSet, lambda t: t.update(range(40)), lambda t: difference(t, IISet())),
        ("multiunion([treeset])", IITreeSet, lambda t: t.update(range(40)), lambda t: multiunion([t])),
):
    what, ok = run(cls, fill, op)
    print("%-26s %s" % (name, what))
    bad += not ok
print("DEFECT" if bad else "ok")
sys.exit(1 if bad else 0)
