"""Triage witness (not a check).  BTree.__getstate__ writes the state of a single
leaf that has no oid *inline* ("embedded" form) whenever the node has exactly one
child - also for a node below the root.  There the leaf is also referenced by
its predecessor's `next` pointer: when that predecessor is written after the
interior node, the leaf gets an oid and is stored a second time as an object of
its own.  After a reload the tree holds two copies of the leaf: `_check()`
reports a damaged chain, and later writes reach one copy only.

The store below writes objects in ZODB's order (Connection._commit: registered
objects in registration order, objects newly reachable from one of them right
after it - ObjectWriter / NewObjectIterator pop from a stack).  With a
breadth-first order the leaf already has its oid when the node is written and
the history is harmless - shown for contrast.

History found by an equivalence-round sub-agent (random search, shrunk).
Usage: PYTHONPATH=<tree>/src python embedded_leaf_below_root.py   (exit 1 = defect)
"""
import io
import pickle
import sys

from persistent import Persistent, PickleCache
from BTrees.OOBTree import OOTreeSet, OOTreeSetPy

OPS = [('remove', 40), ('add', 108), ('remove', 10), ('add', 41), ('add', 42),
       ('add', 89), ('remove', 50), ('add', 3)]
CLASSES = {}


class Store(object):
    def __init__(self):
        self.records = {}
        self.n = 0

    def new_oid(self):
        self.n += 1
        return self.n.to_bytes(8, 'big')


class Jar(object):
    def __init__(self, store, zodb_order=True):
        self.store = store
        self.cache = PickleCache(self)
        self.registered = []
        self.zodb_order = zodb_order

    def register(self, obj):
        self.registered.append(obj)

    def readCurrent(self, obj):
        pass

    def setstate(self, obj):
        cls, data = self.store.records[obj._p_oid]
        u = pickle.Unpickler(io.BytesIO(data))
        u.persistent_load = self._ghost
        obj.__setstate__(u.load())

    def _ghost(self, ref):
        oid, name = ref
        obj = self.cache.get(oid)
        if obj is None:
            cls = CLASSES[name]
            obj = cls.__new__(cls)
            self.cache.new_ghost(oid, obj)
        return obj

    def add(self, obj):
        obj._p_jar = self
        obj._p_oid = self.store.new_oid()
        self.cache[obj._p_oid] = obj
        self.registered.append(obj)

    def get(self, oid):
        cls, _ = self.store.records[oid]
        return self._ghost((oid, cls.__name__))

    def commit(self):
        todo = list(self.registered)
        self.registered = []
        seen = set()
        while todo:
            obj = todo.pop(0)
            if obj._p_oid in seen:
                continue
            seen.add(obj._p_oid)
            new = []
            f = io.BytesIO()
            p = pickle.Pickler(f, 3)

            def persistent_id(o):
                if not isinstance(o, Persistent):
                    return None
                if o._p_oid is None:
                    o._p_jar = self
                    o._p_oid = self.store.new_oid()
                    self.cache[o._p_oid] = o
                    new.append(o)
                CLASSES[type(o).__name__] = type(o)
                return (o._p_oid, type(o).__name__)
            p.persistent_id = persistent_id
            p.dump(obj.__getstate__())
            CLASSES[type(obj).__name__] = type(obj)
            self.store.records[obj._p_oid] = (type(obj), f.getvalue())
            obj._p_changed = False
            if self.zodb_order:
                todo[0:0] = list(reversed(new))       # right after the referencing object (stack)
            else:
                todo.extend(new)                      # breadth first
        assert not self.registered


def run(base, zodb_order):
    T = type("T_" + base.__name__, (base,), {"max_leaf_size": 3, "max_internal_size": 3})
    st = Store()
    jar = Jar(st, zodb_order)
    t = T()
    jar.add(t)
    t.update(range(0, 110, 10))
    jar.commit()
    for op, k in OPS:
        getattr(t, op)(k)
    want = list(t.keys())
    t._check()
    jar.commit()
    r = Jar(st).get(t._p_oid)
    same = list(r.keys()) == want
    try:
        r._check()
        chk = "ok"
    except AssertionError as e:
        chk = "AssertionError: %s" % e
    return same, chk


bad = 0
for base in (OOTreeSet, OOTreeSetPy):
    for order in (True, False):
        same, chk = run(base, order)
        print("%-12s %-14s keys equal after reload: %s; _check(): %s"
              % (base.__name__, "ZODB order" if order else "breadth first", same, chk))
        if order:
            bad += (not same) or chk != "ok"
print("DEFECT" if bad else "ok")
sys.exit(1 if bad else 0)
