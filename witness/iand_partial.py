"""Triage witness (not a check): `s &= other` on C Set / TreeSet clears the
container and then re-inserts the kept keys; a key comparison that raises
during the re-insertion leaves a partial result (elements of the true
intersection are lost).

Usage: PYTHONPATH=<tree>/src python iand_partial.py   (exit 1 = defect shown)
"""
import sys
from BTrees.OOBTree import OOSet, OOTreeSet, OOSetPy, OOTreeSetPy

COUNT = [None]


class Boom(Exception):
    pass


class K:
    def __init__(self, n):
        self.n = n

    def _tick(self):
        if COUNT[0] is not None:
            COUNT[0] -= 1
            if COUNT[0] <= 0:
                COUNT[0] = None
                raise Boom()

    def __lt__(self, o):
        self._tick()
        return self.n < o.n

    def __eq__(self, o):
        return self.n == o.n

    def __hash__(self):
        return self.n


def main():
    bad = 0
    for cls in (OOSet, OOTreeSet, OOSetPy, OOTreeSetPy):
        for n in range(1, 80):
            s = cls([K(i) for i in range(12)])
            before = [k.n for k in s]
            other = [K(i) for i in range(0, 12, 2)]
            want = [k.n for k in other]
            COUNT[0] = n
            try:
                s &= other
                raised = False
            except Boom:
                raised = True
            COUNT[0] = None
            after = [k.n for k in s]
            if raised and after not in (before, want):
                print("%s: comparison #%d raised, contents %s (neither %s nor %s)" % (
                    cls.__name__, n, after, before, want))
                bad += 1
                break
            if not raised:
                break
    return 1 if bad else 0


if __name__ == "__main__":
    sys.exit(main())
