"""Triage witness (not a check): a pure-Python tree is damaged when its nodes
are turned into ghosts during a key comparison inside `del t[k]` (the C tree
pins the nodes it works on).  _Tree._del keeps `data = self._data` across the
descent; after the node was ghosted and reloaded, `del data[index]` removes the
emptied child from the stale list and the reloaded node keeps it.

Uses minizodb.py (written by a seed sub-agent: a tiny stand-in for ZODB).
Usage: PYTHONPATH=<tree>/src python py_ghost_during_compare.py  (exit 1 = defect)
"""
import sys
import os
sys.path.insert(0, os.path.dirname(os.path.abspath(__file__)))
import minizodb
from BTrees.OOBTree import OOBTreePy, OOBTree

HOOK=[None]
class K:
    def __init__(s,n): s.n=n
    def __lt__(s,o):
        if HOOK[0]: HOOK[0]()
        return s.n<o.n
    def __eq__(s,o): return isinstance(o,K) and s.n==o.n
    def __hash__(s): return s.n
    def __reduce__(s): return (K,(s.n,))
    def __repr__(s): return "K(%d)"%s.n

def run(base, sweep_at):
    class T(base):
        max_leaf_size=2; max_internal_size=3
    globals()['T_'+base.__name__]=T; T.__qualname__=T.__name__='T_'+base.__name__
    st=minizodb.Storage()
    c1=minizodb.Connection(st)
    t=T()
    for i in range(0,40,2): t[K(i)]=i
    c1.add(t); c1.commit()
    c2=minizodb.Connection(st)
    t2=c2.get(t._p_oid, T)
    keys=[k.n for k in t2.keys()]
    # find a leaf with 1..2 keys that is not first: delete all its keys
    count=[0]
    def sweep():
        count[0]+=1
        if count[0]==sweep_at:
            # ghostify every unmodified object of c2
            for o in list(c2.objects.values()):
                if not o._p_changed: o._p_deactivate()
    HOOK[0]=sweep
    try:
        del t2[K(20)]
        del t2[K(22)]
    finally:
        HOOK[0]=None
    try:
        t2._check()
        ok=[k.n for k in t2.keys()]==[k for k in keys if k not in (20,22)]
    except Exception as e:
        ok=False; print("  ",type(e).__name__, e)
    return ok, count[0]

FAIL = []
for base in (OOBTree, OOBTreePy):
    ok0,total=run(base, 10**9)
    print(base.__name__, "no sweep:", ok0, "comparisons:", total)
    bad=[]
    for n in range(1,total+1):
        ok,_=run(base,n)
        if not ok: bad.append(n)
    print(base.__name__, "sweep positions that break the tree:", bad)
    if bad:
        FAIL.append(base.__name__)
sys.exit(1 if FAIL else 0)
