"""Witness: multiunion of an unsigned family on the radix-sort path (> 800
keys) with keys on both sides of the top bit.  exit 1 = unsorted result."""
import sys
from BTrees.UUBTree import multiunion as mu32, UUSet
from BTrees.QQBTree import multiunion as mu64
bad = []
for name, mu, top in (("UU", mu32, 2 ** 31), ("QQ", mu64, 2 ** 63)):
    keys = list(range(0, 1000)) + [top + i for i in range(1000)]
    r = list(mu([keys[::2], keys[1::2]]))
    if r != sorted(set(keys)):
        bad.append((name, r[:3], r[-3:]))
print(bad)
sys.exit(1 if bad else 0)
