#!/venv/bin/python
"""Imports the deliveries of one seed-writing sub-agent into /verif/seeded.

Usage: tools_seed_import.py <delivery dir> <property> <round> f:i g:j h:k
  <delivery dir>/<f>/{patch.diff,demo.py,notes.md}  ->  seeded/<property><i>/

Each change is re-verified first (tools_seed_verify.verify: scratch worktree of
/repo HEAD, build, unedited suite, demonstration both ways); only verified
changes are kept, with a meta.json recording what was run.
"""
import json
import os
import shutil
import sys

import tools_seed_verify as V

VERIF = os.path.dirname(os.path.abspath(__file__))


def main():
    src, prop, rnd = sys.argv[1], sys.argv[2], int(sys.argv[3])
    for pair in sys.argv[4:]:
        a, b = pair.split(":")
        d = os.path.join(src, a)
        seed = prop + b
        dst = os.path.join(VERIF, "seeded", seed)
        if not os.path.isfile(os.path.join(d, "patch.diff")) or not os.path.isfile(os.path.join(d, "demo.py")):
            print(seed, "NOT DELIVERED", d)
            continue
        if os.path.isdir(dst):
            shutil.rmtree(dst)
        os.makedirs(dst)
        for f in os.listdir(d):
            p = os.path.join(d, f)
            if os.path.isfile(p) and os.path.getsize(p) < 200000 and not f.endswith((".so", ".o", ".pyc")):
                shutil.copy(p, os.path.join(dst, f))
        r = V.verify(os.path.join(VERIF, "seeded"), seed)
        if not r.get("ok"):
            print(seed, "REJECTED", {k: v for k, v in r.items() if k != "seed"})
            shutil.rmtree(dst)
            continue
        files = sorted(set(l[6:].strip() for l in open(os.path.join(dst, "patch.diff"))
                           if l.startswith("+++ b/")))
        meta = {
            "property": prop, "seed": seed, "round": rnd, "files": files,
            "origin": "independent sub-agent given only the property text and a scratch worktree "
                      "(round %d: three changes per property, delivered as %s)" % (rnd, a),
            "needs_to_manifest": "see notes.md (written by the sub-agent)",
            "verified": {
                "patch": r.get("patch"), "build": r.get("build"),
                "test_suite_with_change": r.get("suite"),
                "demo_exit_unmodified": r.get("demo_exit_unmodified"),
                "demo_exit_with_change": r.get("demo_exit_with_change"),
                "repo_head": os.popen("git -C /repo rev-parse --short HEAD").read().strip(),
                "how": "tools_seed_verify.py: scratch git worktree of /repo HEAD under /tmp, git apply, "
                       "setup.py build_ext --inplace, pytest (unedited suite), demo.py with "
                       "PYTHONPATH=<worktree>/src and against /repo",
            },
            "applies_to_current_repo": True,
        }
        json.dump(meta, open(os.path.join(dst, "meta.json"), "w"), indent=1)
        print(seed, "KEPT", r.get("suite"), "demo", r.get("demo_exit_unmodified"), r.get("demo_exit_with_change"))


if __name__ == "__main__":
    main()
