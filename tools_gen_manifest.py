#!/venv/bin/python
"""Regenerates MANIFEST.json from the tables below (kept valid at all times)."""
import json, os, sys
HERE = os.path.dirname(os.path.abspath(__file__))

CLAIMED = {
 "C05": dict(
   category="other",
   text="Static typestate analysis (path-sensitive, interprocedural summaries) of the activate/pin/release protocol over the type-checked clang AST of all 22 extension translation units: every exit of every function is shown to release every pin it took (PIN-LEAK), no data field of a possibly-ghost node is touched outside an activation (GHOST-READ), no pin is released by a frame that does not hold it (PIN-OWNER). This is the property's mechanism on every path incl. error exits the tests never take; it does not establish equality of results with an uncached twin.",
   design_ref="DESIGN.md 4.1, 5 (C05)",
   note="Trusted: clang's AST, the engine's CFG/dataflow (sa/), persistent's cPersistenceCAPI contract; lifecycle slots are accepted behind an explicit ghost test.",
   technique="typestate dataflow over clang AST CFGs (pin/unpin pairing on all exits), interprocedural needs-pinned summaries"),
}

NA_PENDING = "check not built yet (engine under construction); see DESIGN.md section 11"
NA = {}

def main():
    props = [json.loads(l)["id"] for l in open(os.path.join(HERE, "properties.jsonl"))]
    checks = []
    for pid in props:
        if pid in CLAIMED:
            c = CLAIMED[pid]
            checks.append({
                "property_id": pid,
                "quick_cmd": "./check %s --tier quick" % pid,
                "thorough_cmd": "./check %s --tier thorough" % pid,
                "evidence_file": "evidence/%s.json" % pid,
                "replay_cmd_template": "./check %s --replay {path}" % pid,
                "engine": "sa",
                "level_claimed": {"category": c["category"], "text": c["text"],
                                  "design_ref": c["design_ref"]},
                "level_note": c["note"],
                "technique": c["technique"],
            })
    na = [{"property_id": pid, "reason": NA.get(pid, NA_PENDING)}
          for pid in props if pid not in CLAIMED]
    m = {
     "version": 1,
     "setup_cmd": "/venv/bin/python -m sa.main --selfcheck",
     "hooks": {
       "guard": "BTREES_VERIF",
       "enable": "not used by any check (static analysis executes nothing of BTrees)",
       "baseline_off_cmd": "cd /repo && /venv/bin/python -m pytest -ra -q -p no:cacheprovider --timeout=900 --continue-on-collection-errors",
       "source_commits": [],
       "add_only": True},
     "engines": [{"name": "sa", "path": "sa/", "serves_properties": sorted(CLAIMED),
                  "kind_free_text": "custom static analysis: clang JSON AST -> CFG -> disjunctive dataflow / decision tables; Python ast checkers"}],
     "checks": checks,
     "not_applicable": na,
     "notes": "Static analysis only; see DESIGN.md. Genuine defects found are in known_findings.json (fixed ones name their fix: commit in /repo).",
    }
    with open(os.path.join(HERE, "MANIFEST.json"), "w") as f:
        json.dump(m, f, indent=1)
    print("claimed:", sorted(CLAIMED), "n/a:", len(na))

if __name__ == "__main__":
    main()
