#!/venv/bin/python
"""Regenerates MANIFEST.json from the tables below (kept valid at all times)."""
import json, os, sys
HERE = os.path.dirname(os.path.abspath(__file__))

CLAIMED = {
 "C05": dict(
   category="other",
   text="Static typestate analysis (path-sensitive, interprocedural summaries) of the activate/pin/release protocol over the type-checked clang AST of all 22 extension translation units: every exit of every function is shown to release every pin it took (PIN-LEAK), no data field of a possibly-ghost node is touched outside an activation (GHOST-READ), no pin is released by a frame that does not hold it (PIN-OWNER). This is the property's mechanism on every path incl. error exits the tests never take; it does not establish equality of results with an uncached twin.",
   design_ref="DESIGN.md 4.1, 5 (C05)",
   note="Trusted: clang's AST, the engine's CFG/dataflow (sa/), persistent's cPersistenceCAPI contract; lifecycle slots are accepted behind an explicit ghost test.",
   technique="typestate dataflow over clang AST CFGs (pin/unpin pairing on all exits), interprocedural needs-pinned summaries"),
 "C04": dict(
   category="other",
   text="Must-follow dataflow on the clang CFGs of all 22 translation units: every store into persisted node data (len/next/firstbucket/keys[]/values[]/data[] incl. memmove and interior pointers) of a non-fresh node is followed on every success path by change registration (PER_CHANGED directly or via the flag-tracked `changed` accumulator); helpers that leave a parameter unregistered export caller-must-mark summaries checked at every call site; the embedded-single-leaf clause (tree registered when its oid-less only leaf changes) is checked as an implication between the guards of _BTree_set and BTree_getstate. Python: in-place list/_TreeItem mutation needs _p_changed or a persistent attribute store on the same path. Decides the registration mechanism, not commit/reload equality.",
   design_ref="DESIGN.md 4.2, 5 (C04)",
   note="Trusted: clang AST, sa/ dataflow, semantics of cPersistenceCAPI->changed and of Persistent attribute assignment. State loaders and lifecycle slots are exempt; one accepted idiom (first-leaf creation) is listed in the evidence.",
   technique="must-follow (mutation -> PER_CHANGED) dataflow with caller-marks summaries; guard-implication check for the embedded-leaf clause; Python ast path walk"),
 "C08": dict(
   category="other",
   text="Dominator check on the CFG of every function that descends a write into a child of an interior node: a readCurrent(X) call dominates each _BTree_set/_bucket_set call on X's child (22 TUs); call-graph reachability shows no registered read-only entry point reaches readCurrent. Python twin on _Tree._set/_del. This decides the sentence of the property about declared read dependencies; the outcomes of concurrent schedules are not decided by static analysis.",
   design_ref="DESIGN.md 4.3, 5 (C08)",
   note="Trusted: ZODB's readCurrent semantics; the refusal reasons of leaf merges are covered under C07.",
   technique="dominator analysis + call-graph reachability (who may reach readCurrent)"),
 "C19": dict(
   category="proof",
   text="Length._p_resolveConflict is shown equal to the polynomial s1 + s2 - old on every syntactic path by canonical-form normalisation over Z (exact for Python's unbounded ints), also under exchange of s1 and s2; the cell API is matched structurally (unconditional store/add/read of the single attribute value, nothing else written). This decides the property's formula for all integers and both orders.",
   design_ref="DESIGN.md 4.8, 5 (C19)",
   note="Trusted base: the polynomial normaliser in sa/rules/length.py (~60 lines), CPython's ast, Python integer semantics; pickling is persistent.Persistent's.",
   technique="polynomial canonical form (ring identity) over the method's AST, structural match of the cell methods"),
 "C17": dict(
   category="other",
   text="Path-sensitive dataflow over the clang CFG of every allocating function of all 22 translation units: every allocation result is NULL-tested before any dereference / stealing store (ALLOC-CHECKED), a successful BTree_Realloc result is stored back before any return and never freed (REALLOC-DISC), freed member pointers are reset (FREE-DISC), size fields are not raised before the backing allocation succeeded (SIZE-BEFORE-ALLOC), raw malloc/realloc/free stay inside wrappers and confirmed owners, wrappers raise MemoryError. Covers every failure exit statically, which a test can reach only with fault injection; does not decide container soundness after the n-th failure of an arbitrary history.",
   design_ref="DESIGN.md 4.7, 5 (C17)",
   note="Trusted: clang AST, sa/ dataflow, the table of allocating / NULL-intolerant CPython APIs in sa/rules/alloc.py. The allocation-failure hook named in the property is for dynamic techniques and is not used.",
   technique="dataflow over clang AST CFGs: unchecked-NULL propagation, realloc store-back and free/reset typestate, who-may-call table"),
 "C16": dict(
   category="other",
   text="Ownership dataflow over the clang CFG of every function of all 22 translation units (alias classes with owned-reference counts, NULL refinement, inferred returns-new-reference and out-parameter summaries): every acquired reference is released/returned/stored/stolen on every path to every return, NULL never reaches Py_DECREF/Py_INCREF (LOCAL-REF); the set-iteration cursor functions preserve 'cached key owned iff position > 0' and never release it twice (CURSOR-HOLD, object-key TUs). Decides the local part of the reference discipline on all paths incl. error exits; cross-function ownership of node fields and out-of-bounds accesses need a sanitizer and are not decided.",
   design_ref="DESIGN.md 4.7, 5 (C16)",
   note="Trusted: the new-reference / stealing API tables in sa/rules/refs.py, clang AST, sa/ dataflow. One accepted idiom (dead error exit of nextGenericKeyIter) is listed in the evidence.",
   technique="ownership/typestate dataflow on clang AST CFGs with inferred interprocedural summaries"),
 "C07": dict(
   category="other",
   text="Exhaustive decision-table extraction: for every consistent valuation of the finitely many observations the merge can make (signs of the three key comparisons, value equalities, cursor liveness, first-position flags; mappings and sets) the action of C bucket_merge (22 translation units, both modes) and of the two Python _p_resolveConflict methods is computed from the code by constant propagation and compared pairwise incl. reason code and against a specification table derived from the property statement; refusal prelude (successor link over all three states, empty side, empty result, successor carried) and tree-state unwrapping (multi-leaf -> 11) are checked over enumerated shapes. Exhaustive over the abstract atom space, so it holds for all key/value universes, under the assumption that cursors yield strictly increasing keys.",
   design_ref="DESIGN.md 3.5, 4.4, 5 (C07)",
   note="Trusted: the specification table in sa/rules/merge.py (spec()), the two small interpreters over the C IR / Python ast; an unrecognised construct aborts the run (exit 2) instead of being skipped.",
   technique="finite-domain conditional constant propagation (decision-table extraction) + sibling/spec table comparison"),
 "C10": dict(
   category="other",
   text="Exhaustive decision-table extraction for difference/union/intersection over the finite abstract space (None-ness and kind of both operands, cursor liveness, comparison sign): the action of each C entry point through set_operation/copyRemaining (22 translation units) and of each Python function is computed from the code and compared with the table written from Interfaces.py (which key is emitted with which value, which cursors advance, kind of the fresh result, None short-circuits). Structural rules add: operator slots and dunder methods reach the documented function with operands in order, in-place -=/^= guard the aliased operand, set-operation code mutates only objects it created, arbitrary iterables are sorted and de-duplicated. Necessary conditions of the mathematical result on every operand pair; equality on concrete operands additionally needs sorted, duplicate-free cursors (C01).",
   design_ref="DESIGN.md 3.5, 4.4, 5 (C10)",
   note="Trusted: spec() in sa/rules/setops.py, the interpreters over C IR / Python ast (unknown construct = exit 2), classification of operand kinds by initSetIteration/_SetIteration.",
   technique="finite-domain constant propagation (decision tables) + call-graph wiring and freshness checks"),
 "C12": dict(
   category="other",
   text="Exhaustive decision-table extraction for weightedUnion/weightedIntersection with symbolic weights and values: the emitted value of every situation is computed as a polynomial over (v1,v2,w1,w2) through the MERGE/MERGE_WEIGHT/MERGE_DEFAULT macro expansions of every numeric value family in C (incl. the operand swap; a narrowing conversion of a weight is made visible) and through the functions _module_builder wires per value datatype in Python, and compared - with result kind, advanced cursors and returned weight - to the table written from Interfaces.py. Decides the documented formula and conventions for all operand kinds and weights as an algebraic identity; overflow and float rounding of concrete arithmetic are not decided.",
   design_ref="DESIGN.md 3.5, 4.4, 5 (C12)",
   note="Trusted: spec() and the polynomial normaliser, the interpreters (unknown construct = exit 2).",
   technique="finite-domain constant propagation with polynomial (ring) normalisation of value expressions"),
 "C03": dict(
   category="other",
   text="Structural necessary conditions of the tree invariants, decided from the code of both implementations: split thresholds (leaf > max_leaf_size, interior child > max_internal_size, root >= 2*max_internal_size, each wired to the attribute of the right child kind, non-positive sizes rejected) and default split points (len/2) are extracted as fact tables from all 22 translation units and from _base.py and compared with the specification; the delete path's 'first bucket went away' status is shown (flag-sensitive dataflow in C, path enumeration in Python) never to be returned after this frame already relinked the predecessor leaf. It does NOT decide that _check()/check() succeed after every step of every history: that quantifies over reachable shapes and is outside static analysis.",
   design_ref="DESIGN.md 4.4, 5 (C03)",
   note="Necessary conditions only. An unrecognised shape of the size tests is exit 2, not a pass.",
   technique="fact-table extraction from clang AST / Python ast + flag-sensitive dataflow on the unlink status"),
 "C09": dict(
   category="other",
   text="Agreement of the C and Python implementations on the structural points the property names, decided from source: Python taint analysis of every key/value parameter of the shared public methods (converted before the conversion-free layer; reads translate the conversion TypeError to absence); C flag-sensitive dataflow (no node mutation after a failed conversion, no conversion failure after a mutation, first-leaf rollback on every later error exit) and an abstract pending-exception dataflow with per-call-site summaries showing that after a failed conversion [] exits with KeyError, get with the default, in/has_key with false, and writes with TypeError; agreement tables: resolved C slot types vs Python struct formats, family registries, per-family module-function inventory, split thresholds and split points. Equality of results, shapes and pickles over call histories is not decided.",
   design_ref="DESIGN.md 4.5, 5 (C09)",
   note="Assumes the layers pass the same key object down (a conversion that succeeded in the caller cannot fail in the callee). Known findings: C __setstate__ empties the container before converting (3 entries).",
   technique="taint analysis (Python ast), flag/exception-state dataflow with call-site summaries (clang AST), table agreement"),
 "C13": dict(
   category="other",
   text="Guard-dominates-store dataflow over every function of the 22 translation units that calls a CPython converter: on every path to a store into a key/value slot the converter's error indicator has been tested and every narrowing conversion has passed a round-trip/sign test; wrapping converter variants are forbidden; byte-string slots (fs) are filled only under an exact type+length test; no node mutation on a path with conversion status 0 and no conversion failure after a mutation; resolved C slot types equal the Python struct formats; Python key/value parameters pass _to_key/_to_value before the conversion-free layer and the native datatype validates by struct packing and returns the normalised value on every path. Decides 'rejected before modified / never truncated or wrapped' structurally for every family; value-by-value read-back equality is not decided.",
   design_ref="DESIGN.md 4.5, 5 (C13)",
   note="Known findings (genuine, recorded): float32 overflow stores inf, C __setstate__ empties before converting, Python __setstate__ stores unconverted data.",
   technique="guard-dominates-store dataflow on clang AST CFGs, taint analysis on Python ast, type-table agreement"),
 "C14": dict(
   category="other",
   text="Path rules over the clang CFG of every function that compares keys or owns a SetIteration (22 translation units; comparison error exits are live in the five object-key units): from the error successor of every key comparison the function returns its error sentinel without clearing the exception; initialised SetIterations are finalised on every exit; a first leaf grown into an empty tree is rolled back on every later error exit; no reference leaks on the error exits; and in the tree mutators (C and Python) no key comparison that can raise is executed after the child was modified. This covers every comparison site and every error exit statically, where a test must fail the n-th comparison of a concrete operation. It does not decide the contents of the container after a failed comparison.",
   design_ref="DESIGN.md 4.6, 5 (C14)",
   note="Known findings (recorded, reproduced by witness/cmp_after_commit.py): the separator comparison after the leaf deletion in _BTree_set and _Tree._del.",
   technique="typestate / must-reach dataflow on clang AST CFGs (error-successor rules), Python ast ordering rule"),
 "C11": dict(
   category="other",
   text="For each of the 16 integer-key translation units, with its own resolved element type: the byte order of the final radix pass is extracted by typed constant folding of the pass-selection conditions and must match the signedness of the key type (0x80..0xff,0x00..0x7f iff signed, 0x00..0xff iff unsigned), lower bytes plain; histogram rows == key width and all filled; uniq() reaches every non-trivial return only through the `in != out` copy decision and writes the caller's array; multiunion_m appends under the capacity test and takes the result length from the sorter; the Python fallback merges every operand unconditionally. Settles the sign/width handling for all 16 families (the tests run none of them on the radix path); correctness of quicksort/insertion sort as algorithms is not decided.",
   design_ref="DESIGN.md 4.8, 5 (C11)",
   note="Trusted: endianness handling of the byte pointer; quicksort/insertionsort.",
   technique="typed constant folding + structural extraction over clang AST per family, dominator check (uniq), Python ast rule"),
 "C15": dict(
   category="other",
   text="Memory safety of the C cursors under concurrent mutation, decided statically on all 22 translation units: every bucket subscript whose index comes from a cursor field that survives calls into Python is dominated by a bounds test against the bucket's current len whose failing edge cannot reach the use (or follows a successful BTreeItems_seek); constants stored into cursor fields are caught by their consumers' guards; failed tests raise only RuntimeError/IndexError; next-link pointers are NULL-tested before dereference. This is the 'never crashes' half of the property on every path; which entry an interleaving yields and the final contents are not decided; the Python iterators are memory-safe by construction.",
   design_ref="DESIGN.md 4.6, 5 (C15)",
   note="One accepted idiom (BTree_rangeSearch first-leaf successor under self->len >= 2).",
   technique="dominator / reachability checks and a NULL-ness dataflow on clang AST CFGs"),
 "C06": dict(
   category="other",
   text="Agreement of the state codecs, decided from source: the facts that fix the shape of a node's serialized state (Py_BuildValue/PyArg_ParseTuple formats, tuple sizes, key/value/child layout order, reader length arithmetic, None for the empty tree, guard of the embedded single-leaf form) are extracted from the C writers and readers of all 22 translation units and from the six Python codec methods and compared with the common format; the 22x4 tp_name strings equal the names the Python class swap pickles under; resolved C slot types equal the Python struct formats; the Python native datatype stores normalised plain values. These are necessary conditions for 'each loads the other's pickles / byte-identical pickles'; byte identity over histories and pickle protocols, and float32 rounding of Python float values, are not decided.",
   design_ref="DESIGN.md 4.8, 5 (C06)",
   note="Known divergence outside the rules: Python float values keep the double (DESIGN.md section 9).",
   technique="fact-table extraction from clang AST / Python ast and table agreement (writer = reader, C = Python)"),
 "C18": dict(
   category="other",
   text="Inventory and agreement of what the checkers assert, decided from source: every assertion of BTree_check_inner (22 translation units) and of _Tree._check is normalised to a predicate atom with scope; each pointer/shape corruption class of the property (leaf linking, child-kind uniformity, node non-emptiness) must be covered in both implementations, no assertion may be weakened by a disjunction, and the two atom sets must agree; in BTrees.check the three key comparisons are made for every key and reach AssertionError, and the key range handed to each child is extracted as a decision table and must be lo'=keys[i-1]|lo, hi'=keys[i]|hi. These are necessary conditions for 'detect every corruption'; that every valid tree is accepted and every concrete corruption caught is not decided.",
   design_ref="DESIGN.md 4.8, 5 (C18)",
   note="State cracking (crack_btree/crack_bucket) is trusted.",
   technique="predicate-inventory extraction from clang AST / Python ast, sibling agreement, small decision table for range propagation"),
 "C02": dict(
   category="other",
   text="Leaf-level and cursor-level pieces of the range machinery, decided from source and exhaustive over their finite abstract spaces: the endpoint chosen by C Bucket_findRangeEnd (22 translation units) and Python _range for every valuation of (found, low/high, exclusive[, bound given]) is extracted as an affine offset of the search index and equals the specification; omitted bound and None are tested together at every range entry point; along every path of the two loops of BTreeItems_seek the updates of (pseudoindex, delta, currentoffset) are the affine functions the leaf geometry dictates (polynomial normalisation); the Python lazy sequence continues to the next leaf unless a later leaf yielded nothing (decision table); exclusion flags of omitted bounds must not be re-applied per leaf. The tree-level endpoint search with move-left/right repair and the dependence on reachable tree shapes are NOT decided.",
   design_ref="DESIGN.md 4.4, 5 (C02)",
   note="Known finding: Python keys(excludemin/excludemax) with the bound omitted drops one key per leaf. Out of reach (DESIGN 9): C single-interior-child root, Python minKey gap.",
   technique="decision-table extraction with affine/polynomial values (clang AST + Python ast), structural pairing rule"),
 "C01": dict(
   category="other",
   text="Structural necessary conditions of sorted-map behaviour, decided from source for all 22 translation units and the Python classes: None-smallest ordering decided before any rich comparison (COMPARE expansions of both headers and Python compare evaluated over the None-ness grid; gates accept None); the slot index used to replace/delete/insert is the one the search produced, insertion only on the absent branch and removal only on the found branch (unique keys), KeyError only for an absent key and before any modification; no modification after a failed conversion and no conversion failure after a modification; first-leaf rollback; the delete path never reports 'first bucket went away' after relinking it; in-place -=/^= guard the aliased operand; Python methods convert before the conversion-free layer. It does NOT decide equality with a reference sorted map over call histories (binary-search correctness over runtime keys, split/unlink paths over reachable shapes).",
   design_ref="DESIGN.md 4.5, 5 (C01)",
   note="Necessary conditions only; the behavioural core of C01 is outside static analysis.",
   technique="finite-grid evaluation of the comparison (clang AST / Python ast), def-use and dominator rules, flag-sensitive dataflow"),
}

# rules added after the first version of the texts above (appended to the text
# and to the technique of the property)
ADDENDA = {
 "C02": (" ENDS-CROSS: decision table of the emptiness tests BTree_rangeSearch runs once both end positions are known (min given, excludemin, max given, excludemax, same leaf): crossed ends in different leaves are detected by an end-key comparison whenever both ends were moved inward. ERR-IGNORED: a local holding the result of a repository function that reports failure by a negative constant is only compared with constants, returned or copied until a branch edge has excluded the negative values.",
         "; decision table of the emptiness tests; error-value typestate of call results"),
 "C03": (" SPLIT-COMMIT: after bucket_split/BTree_split succeeded no return is reachable in the caller before the sibling is stored as a child and len is increased; the split functions have no failure exit after their first store into the split node or the sibling's len.",
         "; path rule between split success and child store"),
 "C04": (" A new helper that leaves its node parameter unregistered is followed down chains of such helpers and reported at the innermost one when some caller does not register (void helpers included: falling off the end of a body is a return).", ""),
 "C06": (" The class swap is decided on facts keyed on attribute names (_BTree_reduce_as set unconditionally for the four kinds; __name__ and __qualname__ renamed together; __reduce__ returns the class taken from the __class__ property, which returns _BTree_reduce_as). The layout facts of the five C codecs and six Python codecs come from role-stream abstract interpreters (loops peeled and run generically with solved induction variables, helpers inlined): which node slot each tuple slot carries and vice versa, as slot families over the iteration index, compared exactly with one specification table.",
         "; abstract interpretation of the codecs into slot families"),
 "C08": (" A function whose whole body is the jar/oid/serial-guarded readCurrent of its parameter counts as the registration when called on self before the descent, and may be called from writing methods only.", ""),
 "C07": (" The Python merge is interpreted by a small interpreter with frames, function values (local, module-level and passed-in helpers), loops over literal tuples and list sinks; the successor-carried clause also rejects any state loader / clear / rebinding of the result after the link was carried.", ""),
 "C09": (" SLOT-SIG: every function cast into a type-object slot returns the class of value (void / pointer / integer width) the slot's function-pointer type promises - a narrower integer makes the error return unrecognisable (SystemError in place of the function's exception, where the Python class raises the original one). PY-TAINT also requires the absence handler of a read to enclose the conversion only. EXC-LEAK: no C function returns a non-error value (constant, further call, counter) on a path where a failing API or activation has certainly left an exception set - the Python class raises the original exception where C would raise SystemError.",
         "; prototype agreement of slot functions; exception-state dataflow with value-set refinement"),
 "C10": (" INPLACE-MONOTONE: no loop of an in-place operator both adds to and removes from the container (per-occurrence toggling; C x22 and Python). INPLACE-OPERAND: the Python in-place operators consume their operand exactly once and never through a membership test. INPLACE-REPLACE: the rebuild step of C &= dominates every success result. ALIAS-GUARD is required only where a loop over the operand modifies self in the same pass. ERR-SWALLOW: every PyErr_Clear() is dominated by a test of the exception's class, or replaced by another exception on every path, or an accepted protocol idiom - a cursor that clears unguarded truncates the result silently.",
         "; loop-effect and dominator rules for the in-place operators; dominator rule for exception clears"),
 "C13": (" *AndOverflow converters are modelled by their out-parameter (both signs of the indicator must be excluded, or the negative one by a `result < 0` rejection); the 64-bit helpers are interpreted per argument class including single-digit (compact) ints; conversions factored into functions are followed (stores through an out-parameter; functions returning a converter result with a success flag).", ""),
 "C14": (" CLEAR-THEN-FILL: no operation empties its own container and then rebuilds it through calls from which a key comparison is reachable (object-key units; known finding: C &=). PY-CMP-SWALLOW: no Python try whose handler answers or raises another class encloses a call into the comparing layer.",
         "; call-graph reach after a clearing call; Python handler-scope rule"),
 "C15": (" BTreeItems_seek itself is checked to commit a finger position only after testing 0 <= offset < len against the current len of that very bucket, the failing side unable to reach the commit.", ""),
 "C16": (" RELEASE-ATTACHED: a key/value/separator/child/successor slot of a node is never released in place, and a reference loaded from such a slot is released only after the slot was overwritten, shifted over or cut off by a length store (releasing runs arbitrary code: finalizers, weakref callbacks). SETITEM-FRESH: the unchecked *_SET_ITEM macros are applied only to containers created empty on that path (reaching definitions). SPLIT-COMMIT: a split function has no failure exit once the sibling's len is set. NULL-RESULT: the result of every repository function that has a `return NULL` path (inferred set) is tested before it is dereferenced or passed to a NULL-intolerant API, on every path.",
         "; slot detach-before-release typestate; reaching-definitions rule for SET_ITEM; may-return-NULL inference + unchecked-result dataflow"),
 "C17": (" EXC-PENDING: no success return with the wrapper's MemoryError pending. CLEAR-THEN-FILL (allocation flavour): no operation empties its own container and then rebuilds it through allocating calls (known finding: C &=). SPLIT-COMMIT as in C03. FREE-DISC understands the detach-then-free idiom and store-back aliases.",
         "; call-graph reach after a clearing call; split commit rule"),
}

NA_PENDING = "check not built yet (engine under construction); see DESIGN.md section 11"
NA = {}


# rules added in the third and fourth seeding rounds (appended after ADDENDA)
ADDENDA2 = {
 "C01": (" FIRSTBUCKET-INV: a node's firstbucket is computed from the node's own contents (helper parameters decided at the call sites). SEP-REFRESH: decision table of the separator-refresh guard over (child index, entries left), C = Python. PY-DEL-TAIL: decision table over (child lost its first leaf, child 0, child empty, child is a leaf) of what _Tree._del does behind the child's delete - unlink calls, _firstbucket, removal of the child, flag returned. NARROW-GUARD (integer conversions): every key of the declared type is storable - the range test of the key converter is exact. INPLACE-OPERAND / INPLACE-MONOTONE: the Python in-place set operators consume their operand once and never add and remove in one loop.",
         "; root/provenance analysis of firstbucket stores; decision tables of the delete tail"),
 "C02": (" MINMAX-TABLE: minKey(b)/maxKey(b) of the Python leaves and tree nodes and of C BTree_maxminKey/Bucket_maxminKey are walked by abstract interpreters over position atoms (bound before / on / on the last / between / behind the keys of the leaf it sorts into, successor present, child index 0, child's smallest key above the bound; C: empty, bound given, min/max, result of the endpoint search) and compared with the specification. FINDEND-TABLE: C BTree_findRangeEnd, descent included, over node roles for 72 valuations (levels, child index 0 or not per level, leaf search result, low/high, successor). RANGE-WIRING: with both bounds given BTree_rangeSearch searches (min, low=1, excludemin) and (max, low=0, excludemax) and builds the sequence from (LOW, LOW offset, HIGH, HIGH offset). ITER-CONTINUE is computed for five forms of the range arguments. SEEK-NET: BTreeItems_seek is interpreted abstractly as a whole, path by path over its syntax tree (polynomial values; helpers inlined, out-parameters followed, loops unrolled three times, contradictory paths dropped by bounds on linear forms); every successful return has committed pseudoindex == i and base(committed leaf) + offset == i, base being the index of a leaf's first item along the walk. ITER-ADVANCE: BTreeIter_next parks the finger at (leaf, offset + 1) exactly while offset + 1 < len and at (next leaf, 0) otherwise (same interpreter). GHOST-READ (pin typestate of C05) on the range / seek / min-max functions, their helpers and callers.",
         "; abstract interpretation of minKey/maxKey, the tree-level endpoint search and the range wiring over role / position atoms; path-sensitive abstract interpretation of the seek function (polynomial values, interval bounds on linear forms, bounded unrolling - no solver)"),
 "C03": (" FIRSTBUCKET-INV and PY-DEL-TAIL as in C01; UNLINK-STATUS additionally requires status 2 to be returned only with the child index tested zero. GHOST-READ (pin typestate of C05) on the split / unlink functions, their helpers and callers.", "; pin typestate on the split / unlink functions"),
 "C04": (" SAME-VALUE: the equal-value shortcut that skips store and registration is for native values only (C: no (in)equality test of an object value slot in a storing function; Python: the comparison is conjoined with a class attribute that is False for object values), followed through single-definition locals.",
         "; guard analysis of the equal-value shortcut"),
 "C05": (" PER_PREVENT_DEACTIVATION does not make a possible ghost readable. PY-STALE-ALIAS: the Python nodes never write through a local copy of a state list taken before a call that can run a key comparison (a cache sweep there reloads the node with new lists).",
         "; Python alias staleness walk over comparing calls"),
 "C06": (" SAME-VALUE and SEP-REFRESH as necessary conditions of equal states in C and Python; the class of a freshly built embedded leaf comes from self._bucket_type; PY-CLASS-IDENTITY: self.__class__ (a property that names the pickle replacement class) is never an operand of a type test or a constructor in _base.py.",
         "; who-may-use rule for the __class__ property"),
 "C09": (" PY-TAINT also forbids a modifying method to decide presence of the raw key through a read entry point; a success-flag out-parameter is an accepted way of reporting a failed conversion (EXC-LEAK). NARROW-GUARD (integer conversions): the C converters accept exactly the range of the slot type, as the Python datatypes do.", ""),
 "C10": (" ITER-EXHAUST: a success return after PyIter_Next produced an element is reachable only through the iterator's exhaustion. REAL-TYPE: no PyObject_IsInstance against the unit's own type objects in front of a struct cast (it asks __class__, which the pure-Python classes override to name the C class). ERR-SWALLOW decides 'guarded' as unreachability once the success edges of the class tests are removed.",
         "; typestate of PyIter_Next loops; who-may-call rule for PyObject_IsInstance"),
 "C11": (" UNIQ-COPY is a path rule for where the sorted keys are when uniq reads them. GHOST-READ (pin typestate of C05) on multiunion: the operands' keys are read from activated leaves.", "; pin typestate on multiunion"),
 "C13": (" KEY-CHECK-DOM: in the object-key units every store of the key argument is dominated by the comparability check.",
         "; dominator rule for the key check"),
 "C15": (" An object release between the bounds test and the use spoils the test. LEN-NONNEG: a length slot returns an error constant or a provably non-negative value. PY-LIST-IDENTITY: the Python leaves rebind _keys/_values only in whole-state operations (parked iterators capture the lists). PY-CURSOR-EXC: every next() of the Python lazy sequences sits under a StopIteration handler.",
         "; sign analysis of length returns; rebinding and handler-scope rules for the Python sequences"),
 "C16": (" An owned reference is not released twice by explicit DECREFs. SHIFT-BOUNDS: in-place memmove shifts of node arrays read only entries the node held (affine bounds against len with the decrements executed before). REAL-TYPE as in C10. USE-AFTER-RELEASE: a local that only borrows a container field's reference is not used after that reference was released (no own INCREF on the path). The two accepted idioms of RELEASE-ATTACHED in _BTree_set were wrong and were removed (code repaired).",
         "; affine bound analysis of memmove shifts; borrowed-reference typestate"),
 "C18": (" CHECK-TABLES: the dispatch tables of check.py are evaluated from their module-level loops and compared with the specification for every family and both implementations. CHECK-TRANSPARENT: no de-duplicating / re-ordering operation on state data whose result, as a sequence, reaches the order check of check.py (sequence-level taint through assignments, arguments and returns; re-ordering the work list of nodes is not a finding). The Python _check is read through a sequence domain (lists derived from the node's items, zip / enumerate case split, helper methods), RANGE-PROP finds the child loop by roles. The C assertions are found by what they do (CHECK macro, message stored into the reported variable, message returned by a helper and reported unconditionally); GHOST-READ (pin typestate of C05) on the functions of the C checker: what it compares is read from activated nodes only. An assertion switched off by a guard that looks at the asserted value itself counts as weakened.",
         "; partial evaluation of module-level table construction; interprocedural sequence taint"),
 "C19": (" sum() over literal collections (a set literal loses equal elements), stores through self.__dict__ and the class's own methods called unbound are followed.", ""),
}

def main():
    props = [json.loads(l)["id"] for l in open(os.path.join(HERE, "properties.jsonl"))]
    checks = []
    for pid in props:
        if pid in CLAIMED:
            c = dict(CLAIMED[pid])
            if pid in ADDENDA:
                c["text"] = c["text"] + ADDENDA[pid][0]
                c["technique"] = c["technique"] + ADDENDA[pid][1]
            if pid in ADDENDA2:
                c["text"] = c["text"] + ADDENDA2[pid][0]
                c["technique"] = c["technique"] + ADDENDA2[pid][1]
            checks.append({
                "property_id": pid,
                "quick_cmd": "./check %s --tier quick" % pid,
                "thorough_cmd": "./check %s --tier thorough" % pid,
                "evidence_file": "evidence/%s.json" % pid,
                "replay_cmd_template": "./check %s --replay {path}" % pid,
                "engine": "sa",
                "level_claimed": {"category": c["category"], "text": c["text"],
                                  "design_ref": c["design_ref"]},
                "level_note": c["note"],
                "technique": c["technique"],
            })
    na = [{"property_id": pid, "reason": NA.get(pid, NA_PENDING)}
          for pid in props if pid not in CLAIMED]
    m = {
     "version": 1,
     "setup_cmd": "/venv/bin/python -m sa.main --selfcheck",
     "hooks": {
       "guard": "BTREES_VERIF",
       "enable": "not used by any check (static analysis executes nothing of BTrees)",
       "baseline_off_cmd": "cd /repo && /venv/bin/python -m pytest -ra -q -p no:cacheprovider --timeout=900 --continue-on-collection-errors",
       "source_commits": [],
       "add_only": True},
     "engines": [{"name": "sa", "path": "sa/", "serves_properties": sorted(CLAIMED),
                  "kind_free_text": "custom static analysis: clang JSON AST -> CFG -> disjunctive dataflow / decision tables; Python ast checkers"}],
     "checks": checks,
     "not_applicable": na,
     "notes": "Static analysis only; see DESIGN.md. Genuine defects found are in known_findings.json (fixed ones name their fix: commit in /repo).",
    }
    with open(os.path.join(HERE, "MANIFEST.json"), "w") as f:
        json.dump(m, f, indent=1)
    print("claimed:", sorted(CLAIMED), "n/a:", len(na))

if __name__ == "__main__":
    main()
