#!/venv/bin/python
"""Merges a targeted re-run (tools_targeted_matrix.py ... equiv ...) into the
logs of the full equivalence matrices: for the properties that were re-run the
new result replaces the old one, the others keep theirs.
Usage: tools_equiv_merge.py <targeted.json>   (rewrites equiv/MATRIX1.log, equiv/MATRIX2.log)"""
import ast, json, os, re, sys

V = os.path.dirname(os.path.abspath(__file__))


def main():
    new = json.load(open(sys.argv[1]))
    for log in ("MATRIX1.log", "MATRIX2.log"):
        p = os.path.join(V, "equiv", log)
        rows = {}
        for line in open(p):
            m = re.match(r"^(C\d\d[p-v]) (applies|NO-APPLY) alarms=(\[.*?\]) (\{.*?\}) ?(\{.*\})?\s*$", line)
            if m:
                name, ap, _, det, err = m.groups()
                rows[name] = [ap, ast.literal_eval(det), ast.literal_eval(err) if err else {}]
        for name, r in new.items():
            if name not in rows:
                continue
            ap, det, err = rows[name]
            if not r["applies"]:
                continue
            for prop in r["props"]:
                det.pop(prop, None)
                err.pop(prop, None)
                if prop in r["exit1"]:
                    det[prop] = r["exit1"][prop]
                if prop in r["exit2"]:
                    err[prop] = r["exit2"][prop]
        with open(p, "w") as f:
            for name in sorted(rows):
                ap, det, err = rows[name]
                f.write("%s %s alarms=%s %s %s\n" % (name, ap, sorted(det), det, err or ""))
        print(log, len(rows), "rows;", sum(1 for a, d, e in rows.values() if a == "applies" and not d and not e), "silent")


if __name__ == "__main__":
    main()
