#!/venv/bin/python
"""Targeted regression run after a rule change: for every seeded defect and
every behaviour-preserving refactoring, the checks of the properties given on
the command line whose inputs the patch touches (see RELEVANT) - plus, for a
seed, its own property - are run on a scratch copy with the patch applied
(static checks only, one clang cache per patch).  Prints one row per patch;
writes <out.json>.
Usage: tools_targeted_matrix.py <out.json> seeded|equiv <prop> [<prop> ...]"""
import json, os, re, shutil, subprocess, sys
from concurrent.futures import ThreadPoolExecutor

V = os.path.dirname(os.path.abspath(__file__))
# property -> files (substrings) whose change can alter what its changed rules read
RELEVANT = {
    "C02": ("BTreeItemsTemplate.c", "BTreeModuleTemplate.c", "BTreeTemplate.c", "BucketTemplate.c"),
    "C03": ("BTreeTemplate.c", "BucketTemplate.c"),
    "C11": ("SetOpTemplate.c", "sorters.c"),
    "C01": ("macros.h", "BTreeModuleTemplate.c"),
    "C15": ("BTreeItemsTemplate.c", "BTreeModuleTemplate.c"),
    "C06": ("_base.py", "BucketTemplate.c", "BTreeTemplate.c", "SetTemplate.c", "TreeSetTemplate.c", "macros.h",
            "BTreeModuleTemplate.c"),
    "C18": ("check.py", "_base.py", "BTreeTemplate.c"),
    "C09": (".c", ".h"),
    "C14": (".c", ".h"),
}


def run(kind, name, props):
    d = os.path.join(V, kind, name)
    patch = os.path.join(d, "patch.diff")
    files = [l[6:].strip() for l in open(patch) if l.startswith("+++ b/")]
    mine = [p for p in props if any(any(f.endswith(s) or s in f for s in RELEVANT.get(p, ())) for f in files)]
    if kind == "seeded" and name[:3] not in mine:
        mine.append(name[:3])
    out = {"props": sorted(mine), "exit1": {}, "exit2": {}, "applies": True}
    if not mine:
        return name, out
    root = "/dev/shm/tm-%s-%s" % (kind, name)
    shutil.rmtree(root, ignore_errors=True)
    os.makedirs(root)
    try:
        subprocess.check_call(["rsync", "-a", "--exclude", "*.so", "--exclude", "__pycache__", "--exclude", "build",
                               "/repo/src", "/repo/include", "/repo/setup.py", root + "/"])
        p = subprocess.run(["patch", "-s", "-p1", "-F3", "-d", root], stdin=open(patch), capture_output=True, text=True)
        if p.returncode != 0:
            out["applies"] = False
            return name, out
        env = dict(os.environ, VERIF_REPO=root, VERIF_CACHE=root + "-cache", VERIF_NO_EVIDENCE="1")
        for prop in sorted(mine):
            q = subprocess.run([V + "/check", prop, "--tier", "quick"], cwd=V, env=env, capture_output=True, text=True)
            if q.returncode == 1:
                out["exit1"][prop] = sorted(set(l.split("rule=")[1].split()[0] for l in q.stdout.splitlines()
                                                if l.strip().startswith("rule=")))
            elif q.returncode != 0:
                out["exit2"][prop] = (q.stdout.strip().splitlines() or ["exit %d" % q.returncode])[-1][:200]
    finally:
        shutil.rmtree(root, ignore_errors=True)
        shutil.rmtree(root + "-cache", ignore_errors=True)
    return name, out


def main():
    outp, kind, props = sys.argv[1], sys.argv[2], sys.argv[3:]
    pat = r"^C\d\d[a-k]$" if kind == "seeded" else r"^C\d\d[p-v]$"
    names = sorted(n for n in os.listdir(os.path.join(V, kind)) if re.match(pat, n)
                   and re.match(os.environ.get("TM_NAMES", ""), n))
    res = {}
    if os.path.exists(outp):
        res = json.load(open(outp))      # rows of an earlier (partial) run are kept
    with ThreadPoolExecutor(max_workers=int(os.environ.get("TM_WORKERS", "4"))) as ex:
        for name, r in ex.map(lambda n: run(kind, n, props), names):
            if name in res and res[name].get("applies", True) and r["applies"]:
                # merge with the earlier row: the properties re-run now replace their old result
                old = res[name]
                for prop in r["props"]:
                    old["exit1"].pop(prop, None)
                    old["exit2"].pop(prop, None)
                old["exit1"].update(r["exit1"])
                old["exit2"].update(r["exit2"])
                old["props"] = sorted(set(old["props"]) | set(r["props"]))
                r = old
            res[name] = r
            json.dump(res, open(outp, "w"), indent=1, sort_keys=True)
            print(name, " ".join(r["props"]) or "-", "exit1=%s" % r["exit1"] if r["exit1"] else "",
                  "exit2=%s" % r["exit2"] if r["exit2"] else "", "" if r["applies"] else "NO-APPLY", flush=True)
    json.dump(res, open(outp, "w"), indent=1, sort_keys=True)


if __name__ == "__main__":
    main()
