#!/bin/bash
# usage: tools_seedrun.sh <patch.diff> <command ...>
# Runs a command with VERIF_REPO pointing at a scratch copy of /repo's working
# tree with the patch applied (static checks only: nothing is built).
set -e  # a patch that does not apply ends the run with exit 3 (see below)
patch=$1; shift
tag=$(echo "$patch" | md5sum | cut -c1-8)
root=/dev/shm/seedrun-$tag
rm -rf $root $root-cache; mkdir -p $root
rsync -a --exclude '*.so' --exclude '__pycache__' --exclude 'build' /repo/src /repo/include /repo/setup.py $root/
if ! patch -s -p1 -d $root < "$patch" > /dev/null; then
  echo "PATCH-DOES-NOT-APPLY $patch"; rm -rf $root $root-cache; exit 3
fi
set +e
VERIF_REPO=$root VERIF_CACHE=$root-cache VERIF_NO_EVIDENCE=1 "$@"
rc=$?
rm -rf $root $root-cache
exit $rc
