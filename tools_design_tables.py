#!/venv/bin/python
"""Fills the two generated tables of DESIGN.md (sections 7.1d and 7.1e) from
seeded/MATRIX_round4_final.json and the log of tools_equiv_matrix.py
(equiv/MATRIX2.log -> equiv/MATRIX2.json).  Usage: tools_design_tables.py"""
import ast
import json
import os
import re

V = os.path.dirname(os.path.abspath(__file__))


def files_of(d):
    try:
        return ", ".join(sorted(set(os.path.basename(l[6:].strip()) for l in open(os.path.join(d, "patch.diff"))
                                    if l.startswith("+++ b/"))))
    except OSError:
        return "?"


def round4():
    p = os.path.join(V, "seeded", "MATRIX_round4_final.json")
    pall = os.path.join(V, "seeded", "MATRIX_all_final.json")
    if not os.path.exists(p) and not os.path.exists(pall):
        return "(table not generated: %s missing)" % os.path.basename(p)
    m = json.load(open(p)) if os.path.exists(p) else {}
    allm = json.load(open(pall)) if os.path.exists(pall) else {}
    for k, v in allm.items():
        if k[-1] in "ijk":
            m[k] = v              # the later run (all rounds, final rules) wins
    rows = ["| seed | files | caught by (final rules) |", "|------|-------|-------------------------|"]
    own = other = missed = 0
    for s in sorted(m):
        det = m[s]["detected_by"]
        txt = "; ".join("%s %s" % (k, "/".join(v)) for k, v in sorted(det.items())) or "**not detected**"
        if m[s].get("errors"):
            txt += " (exit 2: %s)" % ", ".join(sorted(m[s]["errors"]))
        if s[:3] in det:
            own += 1
        elif det:
            other += 1
        else:
            missed += 1
        rows.append("| %s | %s | %s |" % (s, files_of(os.path.join(V, "seeded", s)), txt))
    rows.append("")
    rows.append("%d seeds re-run: %d detected by their own property's check, %d by another property's check "
                "only, %d not detected." % (len(m), own, other, missed))
    if allm:
        o = sum(1 for k, v in allm.items() if k[:3] in v["detected_by"])
        a = sum(1 for k, v in allm.items() if v["detected_by"] and k[:3] not in v["detected_by"])
        z = sorted(k for k, v in allm.items() if not v["detected_by"])
        e2 = sorted(k for k, v in allm.items() if v.get("errors"))
        rows.append("")
        rows.append("All rounds with the final rules (`seeded/MATRIX_all_final.json`, `tools_seed_quickmatrix.py`: "
                    "own property + every check that reported the seed in the full matrix): %d seeds, %d detected "
                    "by their own property's check, %d by another property's check only, not detected: %s; runs "
                    "ending in exit 2 for some check: %s." % (
                        len(allm), o, a, ", ".join(z) or "none", ", ".join(e2) or "none"))
    return "\n".join(rows)


def equiv2():
    log = os.path.join(V, "equiv", "MATRIX2.log")
    if not os.path.exists(log):
        return "(table not generated: equiv/MATRIX2.log missing)"
    res = {}
    for line in open(log):
        m = re.match(r"^(C\d\d[tuv]) (applies|NO-APPLY) alarms=(\[.*?\]) (\{.*?\}) ?(\{.*\})?\s*$", line)
        if not m:
            continue
        name, ap, alarms, det, err = m.groups()
        res[name] = {"applies": ap == "applies", "alarms": ast.literal_eval(det),
                     "errors": ast.literal_eval(err) if err else {}}
    json.dump(res, open(os.path.join(V, "equiv", "MATRIX2.json"), "w"), indent=1, sort_keys=True)
    allnames = sorted(d for d in os.listdir(os.path.join(V, "equiv")) if re.match(r"^C\d\d[tuv]$", d))
    rows = ["| refactoring | files | result |", "|-------------|-------|--------|"]
    silent = ex1 = ex2 = noap = notrun = 0
    for n in allnames:
        r = res.get(n)
        if r is None:
            notrun += 1
            txt = "not run before the session ended"
        elif not r["applies"]:
            noap += 1
            txt = "does not apply any more (written before a later fix)"
        elif not r["alarms"] and not r["errors"]:
            silent += 1
            txt = "all 19 checks exit 0"
        else:
            parts = []
            if r["alarms"]:
                ex1 += 1
                parts.append("exit 1: " + "; ".join("%s %s" % (k, "/".join(v)) for k, v in sorted(r["alarms"].items())))
            if r["errors"]:
                if not r["alarms"]:
                    ex2 += 1
                by = {}
                for k, v in r["errors"].items():
                    key = re.sub(r"^ANALYSIS-ERROR property=C\d\d ", "", v)
                    key = re.sub(r"^[A-Za-z]{2}: ", "", key)[:90]
                    by.setdefault(key, []).append(k)
                parts.append("exit 2: " + "; ".join("%s (%s)" % (k, ",".join(sorted(v))) for k, v in sorted(by.items())))
            txt = " - ".join(parts)
        rows.append("| %s | %s | %s |" % (n, files_of(os.path.join(V, "equiv", n)), txt))
    rows.append("")
    rows.append("%d refactorings: %d silent in all 19 checks, %d with at least one exit 1 (false alarm, or the "
                "re-introduced release order of section 9 where RELEASE-ATTACHED is named), %d with exit 2 only "
                "(extractor stops), %d no longer applicable, %d not run (final run, rules as committed)."
                % (len(allnames), silent, ex1, ex2, noap, notrun))
    return "\n".join(rows)


def main():
    p = os.path.join(V, "DESIGN.md")
    s = open(p).read()
    for tag, gen in (("ROUND4TABLE", round4), ("EQUIV2TABLE", equiv2)):
        begin, end = "<!-- %s begin -->" % tag, "<!-- %s end -->" % tag
        block = begin + "\n" + gen() + "\n" + end
        if "@@%s@@" % tag in s:
            s = s.replace("@@%s@@" % tag, block)
        elif begin in s and end in s:
            s = s[:s.index(begin)] + block + s[s.index(end) + len(end):]
    open(p, "w").write(s)


if __name__ == "__main__":
    main()
