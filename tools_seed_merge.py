#!/venv/bin/python
"""Merges a targeted re-run of the seeded defects (tools_targeted_matrix.py ...
seeded ...) into seeded/MATRIX_all_final.json: the properties that were re-run
replace their old result, the others keep theirs.
Usage: tools_seed_merge.py <targeted.json>"""
import json, os, sys

V = os.path.dirname(os.path.abspath(__file__))


def main():
    new = json.load(open(sys.argv[1]))
    p = os.path.join(V, "seeded", "MATRIX_all_final.json")
    allm = json.load(open(p))
    for seed, r in new.items():
        row = allm.setdefault(seed, {"checks_run": [], "detected_by": {}, "errors": {}})
        if not r.get("applies", True):
            continue
        for prop in r["props"]:
            row["detected_by"].pop(prop, None)
            row["errors"].pop(prop, None)
        row["detected_by"].update(r["exit1"])
        row["errors"].update(r["exit2"])
        row["checks_run"] = sorted(set(row["checks_run"]) | set(r["props"]))
    json.dump(allm, open(p, "w"), indent=1, sort_keys=True)
    own = sum(1 for k, v in allm.items() if k[:3] in v["detected_by"])
    other = sorted(k for k, v in allm.items() if v["detected_by"] and k[:3] not in v["detected_by"])
    none = sorted(k for k, v in allm.items() if not v["detected_by"])
    print(len(allm), "seeds:", own, "by their own check; other only:", other, "; not detected:", none,
          "; exit 2:", sorted(k for k, v in allm.items() if v["errors"]))


if __name__ == "__main__":
    main()
