"""SEP-REFRESH (C01, C06): after a delete the separator of child i is refreshed
exactly when i > 0 and the child still has entries.

C `_BTree_set` and Python `_Tree._del` compare the deleted key with the
separator stored for the child (and replace it by the child's new smallest key
when they are equal) under a guard.  The guard is evaluated as a decision table
over (index in {0, 1, 2}) x (entries left in the child in {0, 1, 2, 3}) and
must be true exactly for index > 0 and entries > 0 - in both implementations
(sibling agreement).  A narrower guard keeps the deleted key as separator: the
tree stays searchable, but the state written differs from the other
implementation's for the same history and the deleted key is kept alive; a
wider one reads keys[0] of an empty child.
"""
import ast
import itertools

from ..cir import strip, path, callee, const_int, text
from ..common import AnalysisError, SRC
from .. import pyfront

REL = SRC + "/_base.py"
IDX = (0, 1, 2)
LEN = (0, 1, 2, 3)


def _want(i, n):
    return i > 0 and n > 0


# ---- C -------------------------------------------------------------------------

def _cev(e, env):
    e = strip(e)
    c = const_int(e)
    if c is not None:
        return c
    if e.k == "DeclRefExpr":
        if e.n in env:
            return env[e.n]
        raise AnalysisError("SEP-REFRESH: variable %s in the guard is neither the child index nor the "
                            "child's length" % e.n)
    if e.k == "UnaryOperator" and e.v == "!":
        return int(not _cev(e.kids[0], env))
    if e.k == "BinaryOperator":
        if e.v == "&&":
            return int(bool(_cev(e.kids[0], env)) and bool(_cev(e.kids[1], env)))
        if e.v == "||":
            return int(bool(_cev(e.kids[0], env)) or bool(_cev(e.kids[1], env)))
        a, b = _cev(e.kids[0], env), _cev(e.kids[1], env)
        if e.v in ("<", ">", "<=", ">=", "==", "!="):
            return int({"<": a < b, ">": a > b, "<=": a <= b, ">=": a >= b, "==": a == b, "!=": a != b}[e.v])
        if e.v in ("+", "-"):
            return a + b if e.v == "+" else a - b
    raise AnalysisError("SEP-REFRESH: unrecognised guard expression %s" % text(e)[:60])


def c_table(tu):
    fn = tu.func("_BTree_set")
    body = tu.body("_BTree_set")
    idx = set()
    clen = set()
    for n in body.walk():
        rhs = lhs = None
        if n.k == "BinaryOperator" and n.v == "=":
            lhs, rhs = path(n.kids[0]), strip(n.kids[1])
        elif n.k == "VarDecl" and n.kids and n.kids[-1].k != "Absent":
            lhs, rhs = n.n, strip(n.kids[-1])
        if rhs is None or lhs is None:
            continue
        if rhs.k == "BinaryOperator" and rhs.v == "+":
            a, b = strip(rhs.kids[0]), strip(rhs.kids[1])
            if a is not None and a.k == "MemberExpr" and a.n == "data" and b is not None and b.k == "DeclRefExpr":
                idx.add(b.n)
        if rhs.k == "MemberExpr" and rhs.n == "len" and "child" in (path(rhs.kids[0]) or ""):
            clen.add(lhs)
    if not idx or not clen:
        raise AnalysisError("anchor vanished: child index / child length variables of _BTree_set")
    # the guard: IfStmts (outside the comparison macro) enclosing the comparison with the separator
    parents = {}
    stack = [body]
    while stack:
        x = stack.pop()
        for c in x.kids:
            parents[id(c)] = x
            stack.append(c)
    target = None
    for n in body.walk():
        if n.k == "IfStmt" and n.mi == "TEST_KEY_SET_OR" and any(
                m.k == "MemberExpr" and m.n == "key" for m in n.kids[0].walk()):
            target = n
    if target is None:
        raise AnalysisError("anchor vanished: comparison with the child's separator in _BTree_set")
    conds = []
    cur = target
    while id(cur) in parents:
        par = parents[id(cur)]
        if par.k == "IfStmt" and par.kids[0] is not cur and par.mi != "TEST_KEY_SET_OR":
            in_then = len(par.kids) > 1 and (par.kids[1] is cur)
            conds.append((par.kids[0], in_then))
        cur = par
    if not conds:
        raise AnalysisError("SEP-REFRESH: the separator comparison of _BTree_set is unguarded")
    table = {}
    for i, n in itertools.product(IDX, LEN):
        env = {}
        for v in idx:
            env[v] = i
        for v in clen:
            env[v] = n
        # variables of enclosing guards that are neither (e.g. `status`): skip those guards
        ok = True
        for c, in_then in conds:
            names = set(x.n for x in c.walk() if x.k == "DeclRefExpr" and x.rk in ("VarDecl", "ParmVarDecl"))
            if not names <= set(env):
                continue
            if bool(_cev(c, env)) != in_then:
                ok = False
        table[(i, n)] = ok
    return table, target


def c_check(tu):
    table, site = c_table(tu)
    findings = []
    bad = sorted(k for k, v in table.items() if v != _want(*k))
    if bad:
        i, n = bad[0]
        findings.append(dict(
            rule="SEP-REFRESH", function="_BTree_set", file=site.f, line=site.l,
            construct="separator refresh %s for child index %d with %d entries left (%d of %d cases wrong)"
                      % ("runs" if table[(i, n)] else "is skipped", i, n, len(bad), len(table)),
            detail="the deleted key is compared with (and replaces) the child's separator exactly when "
                   "the child is not child 0 and still has entries; otherwise the deleted key stays in "
                   "the node (kept alive, written into the state - the Python implementation writes a "
                   "different state for the same history) or keys[0] of an empty child is read", path=[]))
    return dict(findings=findings, n=len(table))


# ---- Python ----------------------------------------------------------------------

def _pev(e, env, fn, depth=0):
    if isinstance(e, ast.Constant):
        return e.value
    if isinstance(e, ast.Attribute):
        k = pyfront.unparse(e)
        if k in env:
            return env[k]
        raise AnalysisError("SEP-REFRESH (py): %s in the guard" % k)
    if isinstance(e, ast.Name):
        if e.id in env:
            return env[e.id]
        defs = [a.value for a in ast.walk(fn) if isinstance(a, ast.Assign) and len(a.targets) == 1
                and isinstance(a.targets[0], ast.Name) and a.targets[0].id == e.id]
        if len(defs) == 1 and depth < 4:
            return _pev(defs[0], env, fn, depth + 1)
        raise AnalysisError("SEP-REFRESH (py): %s in the guard" % e.id)
    if isinstance(e, ast.UnaryOp) and isinstance(e.op, ast.Not):
        return not _pev(e.operand, env, fn, depth)
    if isinstance(e, ast.BoolOp):
        vals = [_pev(v, env, fn, depth) for v in e.values]
        return all(vals) if isinstance(e.op, ast.And) else any(vals)
    if isinstance(e, ast.Compare) and len(e.ops) == 1:
        a, b = _pev(e.left, env, fn, depth), _pev(e.comparators[0], env, fn, depth)
        op = e.ops[0]
        return {ast.Lt: a < b, ast.Gt: a > b, ast.LtE: a <= b, ast.GtE: a >= b,
                ast.Eq: a == b, ast.NotEq: a != b}[type(op)]
    raise AnalysisError("SEP-REFRESH (py): unrecognised guard %s" % pyfront.unparse(e)[:60])


def py_check(res):
    tree = pyfront.base_py()
    fn = pyfront.class_members(pyfront.classes(tree)["_Tree"]).get("_del")
    if not isinstance(fn, ast.FunctionDef):
        raise AnalysisError("anchor vanished: _Tree._del")
    # roles: the index is the result of self._search(...), the child data[index].child
    idx = child = None
    for a in ast.walk(fn):
        if isinstance(a, ast.Assign) and len(a.targets) == 1 and isinstance(a.targets[0], ast.Name):
            v = a.value
            if isinstance(v, ast.Call) and isinstance(v.func, ast.Attribute) and v.func.attr == "_search":
                idx = a.targets[0].id
            if isinstance(v, ast.Attribute) and v.attr == "child" and isinstance(v.value, ast.Subscript):
                child = a.targets[0].id
    for a in ast.walk(fn):
        # the child is the object the delete is delegated to
        if isinstance(a, ast.Call) and isinstance(a.func, ast.Attribute) and a.func.attr == "_del" and \
                isinstance(a.func.value, ast.Name) and a.func.value.id != "self":
            child = a.func.value.id
    if idx is None or child is None:
        raise AnalysisError("anchor vanished: index / child locals of _Tree._del")
    def find_cmp(f):
        out = None
        for c in ast.walk(f):
            if isinstance(c, ast.Call) and isinstance(c.func, ast.Name) and c.func.id == "compare" and any(
                    isinstance(x, ast.Attribute) and x.attr == "key" for a in c.args for x in ast.walk(a)):
                out = c
        return out
    cmp_call = find_cmp(fn)
    outer_conds = []
    if cmp_call is None:
        # the refresh factored into a method of the class: follow the call, with the
        # helper's parameters standing for the caller's index / child
        members = pyfront.class_members(pyfront.classes(tree)["_Tree"])
        for call in ast.walk(fn):
            if isinstance(call, ast.Call) and isinstance(call.func, ast.Attribute) and \
                    isinstance(call.func.value, ast.Name) and call.func.value.id == "self" and \
                    isinstance(members.get(call.func.attr), ast.FunctionDef) and find_cmp(members[call.func.attr]):
                helper = members[call.func.attr]
                params = [a.arg for a in helper.args.args][1:]
                amap = dict(zip(params, [pyfront.unparse(a) for a in call.args]))
                inv = {v: k for k, v in amap.items()}
                if idx not in inv or child not in inv:
                    continue          # (the search itself compares separators too)
                # guards around the call in _del
                p0 = call
                while getattr(p0, "_parent", None) is not None and p0 is not fn:
                    par = p0._parent
                    if isinstance(par, ast.If) and not any(x is p0 for x in ast.walk(par.test)):
                        outer_conds.append((par.test, any(x is p0 for b in par.body for x in ast.walk(b)), idx, child))
                    p0 = par
                idx, child = inv[idx], inv[child]
                fn = helper
                cmp_call = find_cmp(helper)
                break
    if cmp_call is None:
        raise AnalysisError("anchor vanished: comparison with the separator in _Tree._del")
    conds = []
    # guard clauses in front of the comparison: `if T: return` makes (not T) a guard
    stmt = cmp_call
    while getattr(stmt, "_parent", None) is not None and not isinstance(stmt, ast.stmt):
        stmt = stmt._parent
    blk = stmt
    while getattr(blk, "_parent", None) is not None and blk is not fn:
        par = blk._parent
        for field in ("body", "orelse"):
            seq = getattr(par, field, None)
            if isinstance(seq, list) and blk in seq:
                for prev in seq[:seq.index(blk)]:
                    if isinstance(prev, ast.If) and not prev.orelse and len(prev.body) == 1 and \
                            isinstance(prev.body[0], ast.Return):
                        conds.append((prev.test, False))
        blk = par
    p = cmp_call
    while getattr(p, "_parent", None) is not None and p is not fn:
        par = p._parent
        if isinstance(par, ast.BoolOp) and isinstance(par.op, ast.And):
            for v in par.values:
                if v is p or any(x is p for x in ast.walk(v)):
                    break
                conds.append((v, True))
        if isinstance(par, ast.If) and not any(x is p for x in ast.walk(par.test)):
            in_body = any(x is p for b in par.body for x in ast.walk(b))
            conds.append((par.test, in_body))
        p = par
    table = {}
    for i, n in itertools.product(IDX, LEN):
        env = {idx: i, "%s.size" % child: n}
        ok = True
        for c, pol, oidx, ochild in outer_conds:
            try:
                if bool(_pev(c, {oidx: i, "%s.size" % ochild: n}, fn)) != pol:
                    ok = False
            except AnalysisError:
                names = set(pyfront.unparse(x) for x in ast.walk(c) if isinstance(x, (ast.Name, ast.Attribute)))
                if names & {oidx, "%s.size" % ochild}:
                    raise
        for c, pol in conds:
            try:
                if bool(_pev(c, env, fn)) != pol:
                    ok = False
            except AnalysisError:
                # a guard about something else (e.g. removed_first_bucket): not part of this table
                names = set(pyfront.unparse(x) for x in ast.walk(c) if isinstance(x, (ast.Name, ast.Attribute)))
                if names & set(env):
                    raise
        table[(i, n)] = ok
    bad = sorted(k for k, v in table.items() if v != _want(*k))
    if bad:
        i, n = bad[0]
        res.findings.add(dict(
            rule="SEP-REFRESH", function="_Tree._del", file=REL, line=cmp_call.lineno,
            construct="separator refresh %s for child index %d with %d entries left (%d of %d cases wrong)"
                      % ("runs" if table[(i, n)] else "is skipped", i, n, len(bad), len(table)),
            detail="the deleted key is compared with (and replaces) the child's separator exactly when "
                   "the child is not child 0 and still has entries (sibling agreement with C "
                   "_BTree_set)", path=[]))
    res.count("PY-SEP-REFRESH", len(table))
