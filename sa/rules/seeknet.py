"""SEEK-NET (C02): the net effect of BTreeItems_seek, by a path-sensitive
abstract interpretation of the whole function over its syntax tree (helpers
inlined, out-parameters followed; values are polynomials, branch conditions
become interval bounds on linear forms; loops are unrolled a bounded number of
times; nothing is handed to a solver and nothing of BTrees is run).

Where SEEK-ALGEBRA compares what one iteration of the two loops does, this rule
is indifferent to where the bookkeeping is done (in the loops, in helpers, once
at the end): every leaf the walk visits gets the index of its first item,

    base(start leaf) = P - O            (P, O: the parked pseudo index / offset)
    base(next(b))    = base(b) + len(b)
    base(prev(b))    = base(b) - len(prev(b))

and on every path that commits a position and reports success

    committed pseudoindex            == i          (the index asked for)
    base(committed leaf) + committed offset == i

Paths are explored with each loop unrolled up to UNROLL iterations; branch
conditions on affine integer expressions are kept as bounds per linear form
and contradictory paths are dropped (`delta > 0` then `delta < 0`).  Anything
not understood is an AnalysisError (exit 2).  The rule decides the arithmetic
of the committed position on the explored paths - not termination, not paths
with more leaf moves than the bound.
"""
import copy

from ..cir import strip, path, callee, text, const_int
from ..cfg import match_acq_stmt
from ..common import AnalysisError
from .length import p_add, p_mul, p_const, p_var, show

UNROLL = 3
MAX_PATHS = 20000
NOOP_CALLS = ("Py_INCREF", "Py_DECREF", "Py_XDECREF", "Py_XINCREF", "_Py_INCREF", "_Py_DECREF", "_Py_XDECREF",
              "_Py_XINCREF", "PyErr_SetString", "PyErr_Format", "IndexError", "PyErr_SetObject", "PyErr_Clear",
              "Py_IncRef", "Py_DecRef", "__assert_fail")


class _Drop(Exception):
    pass


def _const(p):
    """the constant a polynomial is, or None"""
    if not p:
        return 0
    if list(p.keys()) == [()]:
        return p[()]
    return None


def _norm(p):
    """(key, sign, c): p == sign * form(key) + c with the first coefficient of
    the form positive"""
    c = p.get((), 0)
    items = sorted((m, k) for m, k in p.items() if m != ())
    if not items:
        return None, 1, c
    sign = 1 if items[0][1] > 0 else -1
    return tuple((m, sign * k) for m, k in items), sign, c


class State(object):
    def __init__(self):
        self.frames = [{}]
        self.bounds = {}        # linear form -> [lo, hi]
        self.fields = {}        # fields of self written
        self.base = {0: p_add(p_var("P"), p_var("O"), -1)}
        self.next_of = {}       # leaf id -> id of its successor
        self.nleaf = 1
        self.facts = {}         # undecidable pointer tests, decided once per path
        self.moves = []

    def fork(self):
        return copy.deepcopy(self)

    def constrain(self, p, op):
        """add  p OP 0  (op in '<', '<=', '>', '>=', '==', '!='); False when the
        path becomes contradictory"""
        c0 = _const(p)
        if c0 is not None:
            return {"<": c0 < 0, "<=": c0 <= 0, ">": c0 > 0, ">=": c0 >= 0, "==": c0 == 0, "!=": c0 != 0}[op]
        key, sign, c = _norm(p)
        if any(len(m) > 1 for m, _ in key):
            return True              # not linear: no information
        lo, hi = self.bounds.get(key, [None, None])
        # sign * f + c OP 0
        if op == "!=":
            if lo is not None and lo == hi and sign * lo + c == 0:
                return False
            return True
        if op == "==":
            ops = ["<=", ">="]
        else:
            ops = [op]
        for o in ops:
            if sign < 0:
                o = {"<": ">", "<=": ">=", ">": "<", ">=": "<="}[o]
                # -f + c o' 0  ->  f o  c
                bound = c
            else:
                bound = -c
            # f o bound
            if o == "<":
                hi = bound - 1 if hi is None else min(hi, bound - 1)
            elif o == "<=":
                hi = bound if hi is None else min(hi, bound)
            elif o == ">":
                lo = bound + 1 if lo is None else max(lo, bound + 1)
            else:
                lo = bound if lo is None else max(lo, bound)
        if lo is not None and hi is not None and lo > hi:
            return False
        self.bounds[key] = [lo, hi]
        return True


def _known_zero(st, p):
    """is the polynomial 0 - syntactically, or by the bounds of the path"""
    if not p:
        return True
    c0 = _const(p)
    if c0 is not None:
        return c0 == 0
    key, sign, c = _norm(p)
    lo, hi = st.bounds.get(key, [None, None])
    return lo is not None and lo == hi and sign * lo + c == 0


class Exec(object):
    def __init__(self, tu, entry="BTreeItems_seek"):
        self.tu = tu
        self.entry = entry
        self.paths = 0
        self.dropped_at_bound = 0
        self.commits = []
        self.depth = 0

    # ---- values --------------------------------------------------------------------
    # ("aff", poly) | ("leaf", id) | ("null",) | ("self",) | ("addr", depth, name) |
    # ("fld", name) (self->firstbucket / lastbucket) | ("unk",)

    def new_leaf(self, st, base):
        n = st.nleaf
        st.nleaf += 1
        st.base[n] = base
        return n

    def member(self, b, name, st):
        if b == ("self",):
            if name in st.fields:
                return st.fields[name]
            if name == "pseudoindex":
                return ("aff", p_var("P"))
            if name == "currentoffset":
                return ("aff", p_var("O"))
            if name == "currentbucket":
                return ("leaf", 0)
            if name in ("first", "last"):
                return ("aff", p_var("self." + name))
            return ("fld", name)
        if b[0] == "leaf":
            if name == "len":
                return ("aff", p_var("L%d" % b[1]))
            if name == "next":
                if b[1] not in st.next_of:
                    st.next_of[b[1]] = self.new_leaf(st, p_add(st.base[b[1]], p_var("L%d" % b[1])))
                return ("leaf", st.next_of[b[1]])
            return ("unk",)
        return ("unk",)

    def ev(self, e, st):
        """[(value, state)]"""
        e = strip(e)
        if e is None or e.k == "Absent":
            return [(("unk",), st)]
        c = const_int(e)
        if c is not None and e.k in ("IntegerLiteral", "CharacterLiteral"):
            return [(("aff", p_const(c)), st)]
        k = e.k
        if k == "DeclRefExpr":
            fr = st.frames[-1]
            if e.n in fr:
                return [(fr[e.n], st)]
            return [(("unk",), st)]
        if k == "MemberExpr":
            return [(self.member(b, e.n, s1), s1) for b, s1 in self.ev(e.kids[0], st)]
        if k == "UnaryOperator":
            op = e.v
            if op == "&":
                x = strip(e.kids[0])
                if x is not None and x.k == "DeclRefExpr":
                    return [(("addr", len(st.frames) - 1, x.n), st)]
                return [(("unk",), st)]
            if op == "*":
                out = []
                for p, s1 in self.ev(e.kids[0], st):
                    if p[0] == "addr":
                        out.append((s1.frames[p[1]].get(p[2], ("unk",)), s1))
                    else:
                        out.append((("unk",), s1))
                return out
            if op == "-":
                return [((("aff", p_mul(p_const(-1), v[1])) if v[0] == "aff" else ("unk",)), s1)
                        for v, s1 in self.ev(e.kids[0], st)]
            if op == "+":
                return self.ev(e.kids[0], st)
            if op == "!":
                return [(("aff", p_const(0 if t else 1)), s1) for t, s1 in self.cond(e.kids[0], st)]
            if op in ("post++", "post--", "pre++", "pre--", "++", "--"):
                out = []
                for v, s1 in self.ev(e.kids[0], st):
                    if v[0] != "aff":
                        raise AnalysisError("seek-net: %s of a non-integer at %s:%s" % (op, e.f, e.l))
                    nv = ("aff", p_add(v[1], p_const(1), 1 if "+" in op else -1))
                    self.store(e.kids[0], nv, s1)
                    out.append((v if op.startswith("post") else nv, s1))
                return out
            return [(("unk",), st)]
        if k == "BinaryOperator":
            op = e.v
            if op == "=":
                out = []
                for v, s1 in self.ev(e.kids[1], st):
                    self.store(e.kids[0], v, s1)
                    out.append((v, s1))
                return out
            if op == ",":
                out = []
                for _, s1 in self.ev(e.kids[0], st):
                    out.extend(self.ev(e.kids[1], s1))
                return out
            if op in ("+", "-", "*"):
                out = []
                for a, s1 in self.ev(e.kids[0], st):
                    for b, s2 in self.ev(e.kids[1], s1):
                        if a[0] == "aff" and b[0] == "aff":
                            if op == "*":
                                out.append((("aff", p_mul(a[1], b[1])), s2))
                            else:
                                out.append((("aff", p_add(a[1], b[1], 1 if op == "+" else -1)), s2))
                        else:
                            out.append((("unk",), s2))
                return out
            if op in ("<", ">", "<=", ">=", "==", "!=", "&&", "||"):
                return [(("aff", p_const(1 if t else 0)), s1) for t, s1 in self.cond(e, st)]
            return [(("unk",), st)]
        if k == "CompoundAssignOperator":
            out = []
            for cur, s1 in self.ev(e.kids[0], st):
                for r, s2 in self.ev(e.kids[1], s1):
                    if cur[0] != "aff" or r[0] != "aff" or e.v not in ("+=", "-="):
                        raise AnalysisError("seek-net: %s at %s:%s" % (text(e)[:40], e.f, e.l))
                    nv = ("aff", p_add(cur[1], r[1], 1 if e.v == "+=" else -1))
                    self.store(e.kids[0], nv, s2)
                    out.append((nv, s2))
            return out
        if k == "ConditionalOperator":
            out = []
            for t, s1 in self.cond(e.kids[0], st):
                out.extend(self.ev(e.kids[1] if t else e.kids[2], s1))
            return out
        if k == "CallExpr":
            return self.call(e, st)
        return [(("unk",), st)]

    def store(self, lhs, v, st):
        l = strip(lhs)
        if l is None:
            return
        if l.k == "DeclRefExpr":
            st.frames[-1][l.n] = v
            return
        if l.k == "UnaryOperator" and l.v == "*":
            ps = self.ev(l.kids[0], st)
            if len(ps) == 1 and ps[0][0][0] == "addr":
                p = ps[0][0]
                st.frames[p[1]][p[2]] = v
                return
            raise AnalysisError("seek-net: store through %s at %s:%s" % (text(l)[:30], l.f, l.l))
        if l.k == "MemberExpr":
            bs = self.ev(l.kids[0], st)
            if len(bs) == 1 and bs[0][0] == ("self",):
                st.fields[l.n] = v
                return
            if any(x.k == "MemberExpr" and x.n == "state" for x in l.walk()):
                return               # persistence state bookkeeping
            raise AnalysisError("seek-net: store to %s at %s:%s" % (text(l)[:30], l.f, l.l))
        raise AnalysisError("seek-net: store to %s at %s:%s" % (text(l)[:30], l.f, l.l))

    # ---- conditions ---------------------------------------------------------------
    def cond(self, e, st):
        """[(bool, state)] - contradictory outcomes are dropped"""
        e = strip(e)
        if e is None:
            return [(True, st)]
        if any(x.k == "MemberExpr" and x.n == "state" for x in e.walk()) and e.k in ("ConditionalOperator",):
            return [(True, st)]          # PER_USE(x): the activation succeeds
        if e.k == "UnaryOperator" and e.v == "!":
            return [(not t, s1) for t, s1 in self.cond(e.kids[0], st)]
        if e.k == "BinaryOperator" and e.v in ("&&", "||"):
            out = []
            for t, s1 in self.cond(e.kids[0], st):
                if (e.v == "&&" and not t) or (e.v == "||" and t):
                    out.append((t, s1))
                else:
                    out.extend(self.cond(e.kids[1], s1))
            return out
        if e.k == "BinaryOperator" and e.v in ("<", ">", "<=", ">=", "==", "!="):
            out = []
            for a, s1 in self.ev(e.kids[0], st):
                for b, s2 in self.ev(e.kids[1], s1):
                    out.extend(self.compare(e.v, a, b, s2, e))
            return out
        out = []
        for v, s1 in self.ev(e, st):
            out.extend(self.truth(v, s1, e))
        return out

    def truth(self, v, st, e):
        if v[0] == "aff":
            return self.compare("!=", v, ("aff", p_const(0)), st, e)
        if v[0] == "null":
            return [(False, st)]
        if v[0] in ("self", "addr"):
            return [(True, st)]
        if v[0] == "leaf":
            return self.compare("!=", v, ("null",), st, e)
        return self.undecided(("truth", text(e)[:60]), st)

    def undecided(self, key, st):
        if key in st.facts:
            return [(st.facts[key], st)]
        a, b = st, st.fork()
        a.facts[key] = True
        b.facts[key] = False
        return [(True, a), (False, b)]

    def compare(self, op, a, b, st, e):
        if a[0] == "aff" and b[0] == "aff":
            d = p_add(a[1], b[1], -1)
            c0 = _const(d)
            if c0 is not None:
                return [({"<": c0 < 0, "<=": c0 <= 0, ">": c0 > 0, ">=": c0 >= 0, "==": c0 == 0, "!=": c0 != 0}[op], st)]
            out = []
            neg = {"<": ">=", "<=": ">", ">": "<=", ">=": "<", "==": "!=", "!=": "=="}[op]
            s_t, s_f = st, st.fork()
            if s_t.constrain(d, op):
                out.append((True, s_t))
            if s_f.constrain(d, neg):
                out.append((False, s_f))
            return out
        if op in ("==", "!="):
            if a[0] == "aff" and _const(a[1]) == 0:
                a = ("null",)
            if b[0] == "aff" and _const(b[1]) == 0:
                b = ("null",)
            eq = None
            if a[0] == "leaf" and b[0] == "leaf":
                eq = a[1] == b[1]
            elif a[0] == "null" and b[0] == "null":
                eq = True
            elif {a[0], b[0]} in ({"addr", "null"}, {"self", "null"}):
                eq = False               # the address of a local / self is never NULL
            elif {a[0], b[0]} <= {"leaf", "null", "fld"}:
                key = ("ptr-eq",) + tuple(sorted([a, b], key=repr))
                if a[0] == "leaf" and a[1] == 0 and b[0] == "null" or b[0] == "leaf" and b[1] == 0 and a[0] == "null":
                    pass
                return [((t if op == "==" else not t), s1) for t, s1 in self.undecided(key, st)]
            if eq is not None:
                return [(eq if op == "==" else not eq, st)]
        return [((t), s1) for t, s1 in self.undecided(("cmp", text(e)[:60]), st)]

    # ---- calls -----------------------------------------------------------------------
    def call(self, e, st):
        c = callee(e)
        name = c[1] if c and c[0] == "fn" else None
        if name in NOOP_CALLS:
            return [(("unk",), st)]
        if name == "PreviousBucket":
            out = []
            for cur, s1 in self.ev(e.kids[1], st):
                if cur[0] != "addr":
                    raise AnalysisError("seek-net: PreviousBucket argument at %s:%s" % (e.f, e.l))
                here = s1.frames[cur[1]].get(cur[2])
                if not here or here[0] != "leaf":
                    raise AnalysisError("seek-net: PreviousBucket of an unknown leaf at %s:%s" % (e.f, e.l))
                ok = s1.fork()
                n = ok.nleaf
                ok.nleaf += 1
                ok.base[n] = p_add(ok.base[here[1]], p_var("L%d" % n), -1)
                ok.frames[cur[1]][cur[2]] = ("leaf", n)
                ok.moves.append("prev")
                out.append((("aff", p_const(1)), ok))
                out.append((("aff", p_const(0)), s1.fork()))
                out.append((("aff", p_const(-1)), s1.fork()))
            return out
        if name in self.tu.funcs and name != self.entry and self.depth < 3:
            try:
                body = self.tu.body(name)
            except AnalysisError:
                body = None
            if body is not None:
                combos = [([], st)]
                for a in e.kids[1:]:
                    nxt = []
                    for vals, s1 in combos:
                        for v, s2 in self.ev(a, s1):
                            nxt.append((vals + [v], s2))
                    combos = nxt
                out = []
                for vals, s1 in combos:
                    frame = {}
                    for pd, v in zip(self.tu.params(name), vals):
                        frame[pd.n] = v
                    s1.frames.append(frame)
                    self.depth += 1
                    try:
                        res = self.block([body], s1)
                    finally:
                        self.depth -= 1
                    for s2, ctl in res:
                        s2.frames.pop()
                        if ctl is not None and ctl[0] == "ret":
                            out.append((ctl[1], s2))
                        elif ctl is None:
                            out.append((("unk",), s2))
                        else:
                            raise AnalysisError("seek-net: %s leaves %s" % (ctl[0], name))
                return out
        if name is not None and any(x.k == "MemberExpr" and x.n == "state" for x in e.walk()):
            return [(("aff", p_const(0)), st)]
        # any other call: evaluate the arguments for their effects
        states = [st]
        for a in e.kids[1:]:
            nxt = []
            for s1 in states:
                nxt.extend(s2 for _, s2 in self.ev(a, s1))
            states = nxt
        return [(("unk",), s1) for s1 in states]

    # ---- statements -----------------------------------------------------------------
    def block(self, stmts, st):
        """[(state, ctl)], ctl None | ("ret", v) | ("break",) | ("continue",) | ("goto", label)"""
        states = [st]
        done = []
        for s in stmts:
            nxt = []
            for s0 in states:
                for s1, ctl in self.stmt(s, s0):
                    if ctl is None:
                        nxt.append(s1)
                    else:
                        done.append((s1, ctl))
            states = nxt
            self.paths += len(states)
            if self.paths > MAX_PATHS * 50:
                raise AnalysisError("seek-net: too many paths")
            if not states:
                break
        return [(s1, None) for s1 in states] + done

    def loop(self, s, st, cond_first):
        conds = [k for k in s.kids[:-1] if k.k != "Absent"] if s.k == "WhileStmt" else [s.kids[1]]
        body = s.kids[-1] if s.k == "WhileStmt" else s.kids[0]
        cnd = conds[-1]
        out = []
        cur = [st]
        for it in range(UNROLL + 1):
            nxt = []
            for s0 in cur:
                entering = [(True, s0)] if (it == 0 and not cond_first) else self.cond(cnd, s0)
                for t, s1 in entering:
                    if not t:
                        out.append((s1, None))
                        continue
                    if it == UNROLL:
                        self.dropped_at_bound += 1
                        continue
                    for s2, ctl in self.stmt(body, s1):
                        if ctl is None or ctl[0] == "continue":
                            nxt.append(s2)
                        elif ctl[0] == "break":
                            out.append((s2, None))
                        else:
                            out.append((s2, ctl))
            cur = nxt
            if not cur:
                break
        return out

    def stmt(self, s, st):
        k = s.k
        if k == "CompoundStmt":
            return self.block(list(s.kids), st)
        if k in ("NullStmt",):
            return [(st, None)]
        if k == "DeclStmt":
            states = [st]
            for v in s.kids:
                if v.k == "VarDecl":
                    init = [c for c in v.kids if c.k != "Absent"]
                    nxt = []
                    for s0 in states:
                        if init:
                            for val, s1 in self.ev(init[-1], s0):
                                s1.frames[-1][v.n] = val
                                nxt.append(s1)
                        else:
                            s0.frames[-1][v.n] = ("unk",)
                            nxt.append(s0)
                    states = nxt
            return [(s1, None) for s1 in states]
        if k == "IfStmt":
            if match_acq_stmt(s) is not None:
                return [(st, None)]          # PER_USE_OR_RETURN: the activation succeeds
            out = []
            for t, s1 in self.cond(s.kids[0], st):
                if t:
                    out.extend(self.stmt(s.kids[1], s1))
                elif len(s.kids) > 2 and s.kids[2].k != "Absent":
                    out.extend(self.stmt(s.kids[2], s1))
                else:
                    out.append((s1, None))
            return out
        if k == "WhileStmt":
            return self.loop(s, st, True)
        if k == "DoStmt":
            if s.mo and str(s.mo).startswith("PER_"):
                return [(st, None)]
            c = strip(s.kids[1]) if len(s.kids) > 1 else None
            if c is not None and const_int(c) == 0:
                return [(s1, (None if ctl is None or ctl[0] in ("break", "continue") else ctl))
                        for s1, ctl in self.stmt(s.kids[0], st)]
            return self.loop(s, st, False)
        if k == "ReturnStmt":
            if not s.kids:
                return [(st, ("ret", ("unk",)))]
            return [(s1, ("ret", v)) for v, s1 in self.ev(s.kids[0], st)]
        if k == "BreakStmt":
            return [(st, ("break",))]
        if k == "ContinueStmt":
            return [(st, ("continue",))]
        if k == "GotoStmt":
            return [(st, ("goto", s.n or s.v))]
        if k == "LabelStmt":
            return self.block(list(s.kids), st)
        if k in ("ForStmt", "SwitchStmt"):
            raise AnalysisError("seek-net: %s at %s:%s" % (k, s.f, s.l))
        # expression statement
        if any(x.k == "MemberExpr" and x.n == "state" for x in s.walk()) and not any(
                x.k == "CallExpr" and callee(x)[0] == "fn" and callee(x)[1] in self.tu.funcs for x in s.walk()):
            return [(st, None)]              # persistence state bookkeeping
        return [(s1, None) for _, s1 in self.ev(s, st)]

    # ---- the whole function ------------------------------------------------------------
    def run(self):
        tu = self.tu
        body = tu.body(self.entry)
        params = tu.params(self.entry)
        if len(params) != 2:
            raise AnalysisError("anchor vanished: BTreeItems_seek(self, i)")
        st = State()
        st.frames[0][params[0].n] = ("self",)
        st.frames[0][params[1].n] = ("aff", p_var("I"))
        top = list(body.kids)
        labels = {}
        for idx, s in enumerate(top):
            if s.k == "LabelStmt":
                labels[s.n or s.v] = idx
        results = []
        work = [(0, st)]
        jumps = 0
        while work:
            start, s0 = work.pop()
            for s1, ctl in self.block(top[start:], s0):
                if ctl is None:
                    raise AnalysisError("seek-net: BTreeItems_seek falls off its end")
                if ctl[0] == "goto":
                    if ctl[1] not in labels:
                        raise AnalysisError("seek-net: goto %s" % ctl[1])
                    jumps += 1
                    if jumps > MAX_PATHS:
                        raise AnalysisError("seek-net: too many paths")
                    work.append((labels[ctl[1]], s1))
                elif ctl[0] == "ret":
                    results.append((s1, ctl[1]))
                else:
                    raise AnalysisError("seek-net: %s outside a loop" % ctl[0])
        return results


def analyse(tu):
    ex = Exec(tu)
    results = ex.run()
    findings = []
    n_ok = 0
    kinds = set()
    I = p_var("I")
    seen = set()
    for st, rv in results:
        if rv[0] != "aff" or _const(rv[1]) != 0:
            continue                 # not a success return
        if not {"pseudoindex", "currentoffset"} & set(st.fields):
            continue                 # success without a commit (no such path today)
        n_ok += 1
        pidx = st.fields.get("pseudoindex", ("aff", p_var("P")))
        off = st.fields.get("currentoffset", ("aff", p_var("O")))
        leaf = st.fields.get("currentbucket", ("leaf", 0))
        nxt = sum(1 for a, b in st.next_of.items() if leaf[0] == "leaf" and b <= leaf[1] and b != 0)
        kinds.add(("prev" if "prev" in st.moves else "next" if (leaf[0] == "leaf" and leaf[1] != 0) else "within"))
        bad = None
        if pidx[0] != "aff" or off[0] != "aff" or leaf[0] != "leaf":
            bad = "commits a position that is not (integer, integer, leaf): %r %r %r" % (pidx[0], off[0], leaf[0])
        else:
            d1 = p_add(pidx[1], I, -1)
            d2 = p_add(p_add(st.base[leaf[1]], off[1]), I, -1)
            if not _known_zero(st, d1):
                bad = "commits pseudoindex = i %s" % show(d1)
            elif not _known_zero(st, d2):
                bad = "commits an offset that is %s away from item i of the walk (leaf moves: %s)" % (
                    show(d2), ", ".join(st.moves + ["next"] * (1 if leaf[1] != 0 and "prev" not in st.moves else 0)) or "none")
        if bad and bad not in seen:
            seen.add(bad)
            findings.append(dict(
                rule="SEEK-NET", function="BTreeItems_seek", file=tu.func("BTreeItems_seek").f, line=1,
                construct=bad,
                detail="with base(leaf) the index of a leaf's first item (base(start) = pseudoindex - "
                       "currentoffset, base(next(b)) = base(b) + len(b), base(prev(b)) = base(b) - "
                       "len(prev(b))), every successful seek must commit pseudoindex == i and "
                       "base(committed leaf) + committed offset == i; otherwise items of a lazy "
                       "sequence are skipped or repeated after a move across leaves", path=[]))
    return dict(findings=findings, n=n_ok, kinds=sorted(kinds), dropped=ex.dropped_at_bound, returns=len(results))
