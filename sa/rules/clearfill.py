"""CLEAR-THEN-FILL (C14): an operation must not throw its contents away and then
rebuild them through calls that compare keys.

In the object-key translation units every insertion compares keys and a key
comparison can raise.  A function that first empties `self` (bucket_clear /
_bucket_clear / BTree_clear / _BTree_clear on its own container parameter) and
afterwards calls - on the same container - a function from which a key
comparison is reachable, leaves a partial result when that comparison raises:
elements that belong to the previous contents *and* to the completed change are
gone.  State loaders (`*setstate*`) are the business of CONV-BEFORE-MUT and the
lifecycle slots have nothing to rebuild; both are out of scope here.

Path rule on the CFG: forward "cleared" flag per container parameter, set at the
clearing call, reported at the first later call that passes the same parameter
to a function reaching a comparison macro.
"""
from ..cir import strip, path, callee
from ..cfg import CFG
from ..flow import Analysis, sget, sset, witness_lines
from .. import callgraph
from .cmpexc import CMP_MACROS

CLEARERS = ("bucket_clear", "_bucket_clear", "BTree_clear", "_BTree_clear")
OUT_OF_SCOPE_SUFFIX = ("setstate", "_dealloc", "_tp_clear", "__p_deactivate", "_clear")


ALLOCATORS = ("BTree_Malloc", "BTree_Realloc")


def comparing_functions(tu, mode="compare"):
    """Functions whose body (or a callee's) contains a key comparison
    (mode compare) / a call of the allocation wrappers (mode alloc)."""
    direct = set()
    for name, fn in tu.funcs.items():
        if name in ALLOCATORS:
            continue
        for n in fn.walk():
            if mode == "compare" and (n.mo in CMP_MACROS or n.mi == "TEST_KEY_SET_OR"):
                direct.add(name)
                break
            if mode == "alloc" and n.k == "CallExpr" and callee(n)[0] == "fn" and callee(n)[1] in ALLOCATORS:
                direct.add(name)
                break
    g = callgraph.build(tu)
    out = set()
    for name in tu.funcs:
        if callgraph.reach(g, name) & direct:
            out.add(name)
    return out, g, direct


class ClearFill(Analysis):
    def __init__(self, cfg, tu, comparing):
        Analysis.__init__(self, cfg, tu)
        self.comparing = comparing
        self.params = set(k.n for k in cfg.fn.kids if k.k == "ParmVarDecl")
        self.reports = []
        self._seen = set()
        self.clear_sites = set()

    def _walk(self, node, st, e):
        for c in e.kids:
            st = self._walk(node, st, c)
        if e.k == "CallExpr":
            c = callee(e)
            if c[0] != "fn":
                return st
            args = [path(a) for a in e.kids[1:]]
            if c[1] in CLEARERS and args and args[0] in self.params:
                self.clear_sites.add(node.id)
                return sset(st, "c:" + args[0], node.where)
            if c[1] in self.comparing:
                for a in args:
                    if a is not None and sget(st, "c:" + a) is not None:
                        key = (node.id, a)
                        if key not in self._seen:
                            self._seen.add(key)
                            self.reports.append((node, st, a, c[1], sget(st, "c:" + a)))
        return st

    def on_node(self, node, st):
        if node.e is None:
            return [st]
        return [self._walk(node, st, node.e)]


def analyse_tu(tu, mode="compare"):
    findings = []
    comparing, g, direct = comparing_functions(tu, mode)
    sites = 0
    funcs = 0
    for name in tu.order:
        if name.endswith(OUT_OF_SCOPE_SUFFIX) or "setstate" in name:
            continue
        fn = tu.funcs[name]
        if not any(n.k == "CallExpr" and callee(n)[0] == "fn" and callee(n)[1] in CLEARERS
                   for n in fn.walk()):
            continue
        funcs += 1
        an = ClearFill(CFG(fn), tu, comparing)
        an.solve()
        sites += len(an.clear_sites)
        for node, st, arg, cal, where in an.reports:
            targets = sorted(f for f in callgraph.reach(g, cal) if f in direct)
            chain = callgraph.path_to(g, cal, targets[0]) if targets else None
            findings.append(dict(
                rule="CLEAR-THEN-FILL", function=name, file=node.where.split(":")[0],
                line=node.line,
                construct="%s(%s) after %s was cleared" % (cal, arg, arg),
                detail="%s is emptied at %s and then rebuilt through %s, which "
                       "%s (%s): when %s, the "
                       "container is left with a partial result - elements "
                       "that belong both to the previous contents and to the "
                       "completed change are lost" % (
                           arg, where, cal,
                           "compares keys" if mode == "compare" else "allocates",
                           " -> ".join(chain or [cal]),
                           "a comparison raises" if mode == "compare" else "an allocation fails"),
                path=witness_lines(an.witness(node, st))))
    return dict(findings=findings, stats={"clear_sites": sites, "functions": funcs,
                                         "comparing_functions": len(comparing)})
