"""Layout of the serialized state as written / read by the C codecs (C06).

A small forking abstract interpreter over the C IR of one translation unit.
It follows *roles*, not names: where an object put into a tuple came from
(`keys[j]`, `values[j]`, `data[j].key`, `data[j].child`, `self->next`, ...) and
where an object stored into the node came from (`state[0][2j]`, ...).  Integers
are affine terms over `len`, tuple sizes and the loop iteration `j`; loops are
run once peeled (j = 0) and once generically (j >= 1) with induction variables
solved from their per-iteration increment, so `l++` bookkeeping, `2*i+1`
indexing and pointer walks (`d++`) all come out as the same slot families.
Helpers that receive a piece of the state or a pointer into the node storage
are inlined; the codecs calling each other are recorded as events.

facts(tu) -> {codec: sorted list of canonical strings}, compared with SPEC.
"""
import copy

from ..cir import callee, const_int
from ..common import AnalysisError

CASTS = ("ParenExpr", "ImplicitCastExpr", "CStyleCastExpr", "ConstantExpr")
WRITERS = ("bucket_getstate", "BTree_getstate")
READERS = ("_bucket_setstate", "_set_setstate", "_BTree_setstate")
NOOPS = ("Py_INCREF", "Py_DECREF", "Py_XDECREF", "Py_XINCREF", "Py_IncRef", "Py_DecRef",
         "PyErr_SetString", "PyErr_Format", "PyErr_Clear", "PyErr_NoMemory", "__assert_fail")
SIZE_FNS = ("PyTuple_Size", "PyTuple_GET_SIZE", "Py_SIZE", "PyObject_Length", "PyObject_Size",
            "PySequence_Size", "PySequence_Length")
GETITEM = ("PyTuple_GET_ITEM", "PyTuple_GetItem")
SETITEM = ("PyTuple_SET_ITEM", "PyTuple_SetItem")
MAX_STATES = 4000


def _s(e):
    while e is not None and e.k in CASTS and e.kids:
        e = e.kids[-1]
    return e


# --------------------------------------------------------------------------
# affine integers: ((atom, coef), ...) sorted, const

class Aff(object):
    __slots__ = ("t", "c")

    def __init__(self, t=(), c=0):
        self.t = tuple(sorted((a, k) for a, k in dict(t).items() if k)) if isinstance(t, dict) \
            else tuple(sorted(t))
        self.c = c

    @staticmethod
    def atom(a):
        return Aff({a: 1}, 0)

    def d(self):
        return dict(self.t)

    def __add__(self, o):
        d = self.d()
        for a, k in o.t:
            d[a] = d.get(a, 0) + k
        return Aff(d, self.c + o.c)

    def scale(self, k):
        return Aff({a: v * k for a, v in self.t}, self.c * k)

    def __sub__(self, o):
        return self + o.scale(-1)

    def const(self):
        return self.c if not self.t else None

    def __eq__(self, o):
        return isinstance(o, Aff) and self.t == o.t and self.c == o.c

    def __ne__(self, o):
        return not self.__eq__(o)

    def __hash__(self):
        return hash((self.t, self.c))

    def lower(self):
        """lower bound with every atom >= 0 and j >= 1; None if unbounded"""
        lo = self.c
        for a, k in self.t:
            if k < 0:
                return None
            if a == "j" or a.startswith("j#"):
                lo += k
        return lo

    def upper(self):
        if any(k > 0 for a, k in self.t):
            return None
        hi = self.c
        for a, k in self.t:
            if a == "j" or a.startswith("j#"):
                hi += k
        return hi

    def subst(self, m):
        out = Aff((), self.c)
        for a, k in self.t:
            if a in m:
                v = m[a]
                out = out + (v.scale(k) if isinstance(v, Aff) else Aff((), v * k))
            else:
                out = out + Aff({a: k}, 0)
        return out

    def __repr__(self):
        parts = []
        for a, k in self.t:
            if k == 1:
                parts.append("+" + a)
            elif k == -1:
                parts.append("-" + a)
            else:
                parts.append("%+d%s" % (k, a if a[0].isalpha() and a.isalnum() else "*" + a))
        if self.c or not parts:
            parts.append("%+d" % self.c)
        r = "".join(parts)
        return r[1:] if r.startswith("+") else r


def K(n):
    return Aff((), n)


def div(a, k):
    c = a.const()
    if c is not None:
        return K(int(c / k))            # C division truncates
    if all(v % k == 0 for _, v in a.t) and a.c % k == 0:
        return Aff({x: v // k for x, v in a.t}, a.c // k)
    return Aff.atom("(%r)/%d" % (a, k))


# --------------------------------------------------------------------------
# values are tuples:
#   ("self",) ("state",) ("none",) ("null",) ("opaque", roles)
#   ("item", src, Aff)          element of the tuple-valued src
#   ("slot", array, Aff)        read of node storage: keys / values / data.key / data.child
#   ("attr", name)              self->next / self->firstbucket ...
#   ("ptr", array, Aff)         pointer into node storage
#   ("new", id)                 tuple under construction
#   ("tup", (vals...))          built value
#   ("call", name, (args...))   result of a call that is not modelled
#   ("fld", val, name)          field of another object

def roles(v, acc=None):
    acc = set() if acc is None else acc
    if isinstance(v, tuple) and v:
        if v[0] in ("item", "slot", "attr", "state"):
            acc.add(v)
            return acc
        if v[0] == "opaque":
            acc.update(v[1])
        for x in (v[1:] if isinstance(v[0], str) else v):
            if isinstance(x, tuple):
                roles(x, acc)
    return acc


def vsubst(v, m):
    if isinstance(v, Aff):
        return v.subst(m)
    if isinstance(v, tuple):
        return tuple(vsubst(x, m) for x in v)
    if isinstance(v, frozenset):
        return frozenset(vsubst(x, m) for x in v)
    return v


def show(v):
    if isinstance(v, Aff):
        return repr(v)
    if not isinstance(v, tuple) or not v:
        return str(v)
    k = v[0]
    if k == "item":
        return "%s[%s]" % (show(v[1]), show(v[2]))
    if k == "slot":
        a = v[1].split(".")
        return "%s[%s]%s" % (a[0], show(v[2]), "." + a[1] if len(a) > 1 else "")
    if k == "attr":
        return "self->" + v[1]
    if k in ("state", "self", "none", "null"):
        return {"none": "None", "null": "NULL"}.get(k, k)
    if k == "tup":
        return "(" + ", ".join(show(x) for x in v[1]) + ("," if len(v[1]) == 1 else "") + ")"
    if k == "call":
        if v[1] in WRITERS:
            return "getstate(%s)" % ", ".join(show(x) for x in v[2])
        r = sorted(show(x) for x in roles(v))
        return "+".join(r) if r else "%s()" % v[1]
    if k == "opaque":
        r = sorted(show(x) for x in v[1])
        return "+".join(r) if r else "?"
    if k == "ptr":
        return "&%s[%s]" % (v[1], show(v[2]))
    if k == "fld":
        return "%s.%s" % (show(v[1]), v[2])
    if k == "new":
        return "T%d" % v[1]
    if k == "fresh":
        return "new leaf made from %s" % v[1]
    if k == "when":
        return "%s when %s" % (show(v[1]), " and ".join(show(c) for c in v[2]))
    if k == "cond":
        t = "%s(%s)" % (v[2], ", ".join(show(x) for x in v[3])) if v[3] else v[2]
        return t if v[1] else "not " + t
    return "?"


class State(object):
    def __init__(self):
        self.env = [{}]          # frames of local variables
        self.tuples = {}         # id -> {"size": Aff, "slots": [(idx, val, ctx)]}
        self.fields = {}         # scalar fields of self written: name -> value
        self.slots = []          # (array, idx, val, ctx, assumptions)
        self.events = []         # (fname, target, source, ctx, assumptions)
        self.assume = {}         # key -> bool
        self.subst = {}          # atom -> int
        self.ctl = None
        self.ctx = ()            # loop contexts: ((jname, bound Aff|None), ...)
        self.nstores = 0

    def fork(self):
        return copy.deepcopy(self)

    def key(self):
        return repr((self.env, sorted(self.tuples.items()), sorted(self.fields.items()), self.slots,
                     self.events, sorted((k, v) for k, v in self.assume.items() if "@" not in str(k)),
                     self.ctl, self.ctx))

    def get(self, name):
        return self.env[-1].get(name)

    def set(self, name, v):
        self.env[-1][name] = v


class _Unsupported(Exception):
    pass


class Interp(object):
    def __init__(self, tu, entry):
        self.tu = tu
        self.entry = entry
        self.next_id = 0
        self.depth = 0
        self.notes = []
        self.steps = 0

    # ---- expressions: ev(e, s) -> [(value, state)] ------------------------
    def ev(self, e, s):
        e = _s(e)
        self.steps += 1
        if self.steps > 400000:
            raise AnalysisError("state layout (%s): interpretation does not terminate" % self.entry)
        if e is None or e.k == "Absent":
            return [(("opaque", frozenset()), s)]
        k = e.k
        ci = const_int(e)
        if ci is not None and k in ("IntegerLiteral", "CharacterLiteral", "UnaryExprOrTypeTraitExpr"):
            return [(K(ci), s)]
        if k == "DeclRefExpr":
            v = s.get(e.n)
            if v is None:
                if e.n == "_Py_NoneStruct":
                    v = ("none",)
                else:
                    v = ("opaque", frozenset())
            return [(v, s)]
        if k == "StringLiteral":
            return [(("str", (e.v or "").strip('"')), s)]
        if k == "UnaryOperator":
            return self.unary(e, s)
        if k in ("BinaryOperator", "CompoundAssignOperator"):
            return self.binary(e, s)
        if k == "MemberExpr":
            out = []
            for b, s1 in self.ev(e.kids[0], s):
                out.append((self.member(b, e.n, s1), s1))
            return out
        if k == "ArraySubscriptExpr":
            out = []
            for b, s1 in self.ev(e.kids[0], s):
                for i, s2 in self.ev(e.kids[1], s1):
                    if isinstance(b, tuple) and b and b[0] == "fld" and b[2] == "ob_item":
                        out.append((("item", b[1], i), s2))      # PyTuple_GET_ITEM, macro form
                    else:
                        out.append((self.deref(self.padd(b, i)), s2))
            return out
        if k == "CallExpr":
            return self.call(e, s)
        if k == "ConditionalOperator":
            out = []
            for t, s1 in self.branch(e.kids[0], s):
                out.extend(self.ev(e.kids[1] if t else e.kids[2], s1))
            return out
        if k == "UnaryExprOrTypeTraitExpr":
            return [(("opaque", frozenset()), s)]
        # anything else: evaluate the children for their effects
        states = [s]
        rs = set()
        for kid in e.kids:
            nxt = []
            for st in states:
                for v, s2 in self.ev(kid, st):
                    rs |= roles(v)
                    nxt.append(s2)
            states = nxt
        return [(("opaque", frozenset(rs)), st) for st in states]

    def member(self, b, name, s):
        if b == ("self",):
            if name in ("keys", "values", "data"):
                return ("ptr", name, K(0))
            if name in s.fields:
                return s.fields[name]
            if name in ("len", "size"):
                return Aff.atom(name)
            return ("attr", name)
        if isinstance(b, tuple) and b and b[0] == "ptr":
            # p->key with p = &data[i]
            return self.read_slot(b[1] + "." + name, b[2], s)
        if isinstance(b, tuple) and b and b[0] == "slot" and b[1] == "data":
            return self.read_slot("data." + name, b[2], s)
        return ("fld", b, name)

    def read_slot(self, array, idx, s):
        return ("slot", array, idx)

    def padd(self, b, i):
        if isinstance(b, tuple) and b and b[0] == "ptr" and isinstance(i, Aff):
            return ("ptr", b[1], b[2] + i)
        if isinstance(b, tuple) and b and b[0] == "ptr":
            return ("ptr", b[1], Aff.atom("?"))
        return ("opaque", frozenset(roles(b) | roles(i)))

    def deref(self, p):
        if isinstance(p, tuple) and p and p[0] == "ptr":
            if p[1] == "data":
                return ("slot", "data", p[2])     # a BTreeItem; .key / .child selected by member()
            return ("slot", p[1], p[2])
        return ("opaque", frozenset(roles(p)))

    # lvalues -> ("var", name) | ("field", name) | ("slotl", array, idx) | None
    def lval(self, e, s):
        e = _s(e)
        if e is None:
            return [(None, s)]
        if e.k == "DeclRefExpr":
            return [(("var", e.n), s)]
        if e.k == "MemberExpr":
            out = []
            for b, s1 in self.ev(e.kids[0], s):
                if b == ("self",):
                    out.append((("field", e.n), s1))
                elif isinstance(b, tuple) and b and b[0] == "ptr":
                    out.append((("slotl", b[1] + "." + e.n, b[2]), s1))
                elif isinstance(b, tuple) and b and b[0] == "slot" and b[1] == "data":
                    out.append((("slotl", "data." + e.n, b[2]), s1))
                else:
                    out.append((None, s1))
            return out
        if e.k == "ArraySubscriptExpr":
            out = []
            for b, s1 in self.ev(e.kids[0], s):
                for i, s2 in self.ev(e.kids[1], s1):
                    p = self.padd(b, i)
                    out.append(((("slotl", p[1], p[2]) if p[0] == "ptr" else None), s2))
            return out
        if e.k == "UnaryOperator" and e.v == "*":
            out = []
            for p, s1 in self.ev(e.kids[0], s):
                if isinstance(p, tuple) and p and p[0] == "addr":
                    out.append((("varat", p[1], p[2]), s1))      # a caller's local, through an out-parameter
                else:
                    out.append(((("slotl", p[1], p[2]) if isinstance(p, tuple) and p and p[0] == "ptr" else None), s1))
            return out
        return [(None, s)]

    def store(self, loc, v, s):
        if loc is None:
            return
        if loc[0] == "var":
            s.set(loc[1], v)
        elif loc[0] == "varat":
            if loc[2] < len(s.env):
                s.env[loc[2]][loc[1]] = v
        elif loc[0] == "field":
            s.fields[loc[1]] = v
            s.nstores += 1
        elif loc[0] == "slotl":
            if loc[1].endswith("child") and isinstance(v, tuple) and v and v[0] == "call" and not roles(v):
                # a freshly constructed child: from the node's own class (self) or from a fixed type
                src = "self" if any(a == ("self",) for a in v[2]) else "a fixed type"
                s.slots.append((loc[1], loc[2], ("fresh", src), s.ctx, ()))
            if roles(v):
                a = self.assumptions(s, v, loc[1])
                s.slots.append((loc[1], loc[2], ("when", v, a) if a else v, s.ctx, ()))
            s.nstores += 1

    def assumptions(self, s, v, target, params=False):
        """the type-class tests (Py*_Check) made on the stored object, and for
        events the parameter tests, that hold on this path"""
        if not target.endswith("child"):
            return ()
        rs = roles(v)
        out = []
        for key, (val, kroles, txt) in sorted(s.assume.items(), key=lambda kv: str(kv[0])):
            if not isinstance(val, bool):
                continue
            if txt.startswith("param "):
                if params:
                    out.append(("cond", int(val), txt, ()))
            elif (kroles & rs) and txt.startswith("Py") and "_Check(" in txt:
                out.append(("cond", int(val), txt.split("(")[0], tuple(sorted(kroles & rs, key=repr))))
        return tuple(out)

    def unary(self, e, s):
        op = e.v
        if op in ("post++", "post--", "pre++", "pre--", "++", "--"):
            out = []
            for loc, s1 in self.lval(e.kids[0], s):
                for v, s2 in self.ev(e.kids[0], s1):
                    d = K(1 if "+" in op else -1)
                    if isinstance(v, Aff):
                        nv = v + d
                    elif isinstance(v, tuple) and v and v[0] == "ptr":
                        nv = ("ptr", v[1], v[2] + d)
                    else:
                        nv = ("opaque", frozenset())
                    self.store(loc, nv, s2)
                    out.append((v if op.startswith("post") else nv, s2))
            return out
        if op == "&":
            x = _s(e.kids[0])
            if x is not None and x.k == "DeclRefExpr":
                if x.n == "_Py_NoneStruct":
                    return [(("none",), s)]
                return [(("addr", x.n, len(s.env) - 1), s)]      # the frame the local lives in
            out = []
            for loc, s1 in self.lval(x, s):
                if loc is not None and loc[0] == "slotl":
                    out.append((("ptr", loc[1], loc[2]), s1))
                else:
                    out.append((("opaque", frozenset()), s1))
            return out
        if op == "*":
            out = []
            for p, s1 in self.ev(e.kids[0], s):
                if isinstance(p, tuple) and p and p[0] == "addr":
                    v = s1.env[p[2]].get(p[1]) if p[2] < len(s1.env) else None
                    out.append((v if v is not None else ("opaque", frozenset()), s1))
                else:
                    out.append((self.deref(p), s1))
            return out
        if op == "!":
            return [(K(0 if t else 1), s1) for t, s1 in self.branch(e.kids[0], s)]
        out = []
        for v, s1 in self.ev(e.kids[0], s):
            if isinstance(v, Aff) and op == "-":
                out.append((v.scale(-1), s1))
            elif isinstance(v, Aff) and op == "+":
                out.append((v, s1))
            else:
                out.append((("opaque", frozenset(roles(v))), s1))
        return out

    def arith(self, op, a, b):
        if isinstance(a, tuple) and a and a[0] == "ptr" and op in ("+", "-") and isinstance(b, Aff):
            return ("ptr", a[1], a[2] + (b if op == "+" else b.scale(-1)))
        if isinstance(b, tuple) and b and b[0] == "ptr" and op == "+" and isinstance(a, Aff):
            return ("ptr", b[1], b[2] + a)
        if isinstance(a, Aff) and isinstance(b, Aff):
            if op == "+":
                return a + b
            if op == "-":
                return a - b
            if op == "*":
                if a.const() is not None:
                    return b.scale(a.const())
                if b.const() is not None:
                    return a.scale(b.const())
            if op == "/" and b.const():
                return div(a, b.const())
            if op == ">>" and b.const() is not None:
                return div(a, 2 ** b.const())
            if op == "<<" and b.const() is not None:
                return a.scale(2 ** b.const())
            if op == "%" and a.const() is not None and b.const():
                return K(a.const() % b.const())
            return Aff.atom("(%r%s%r)" % (a, op, b))
        return ("opaque", frozenset(roles(a) | roles(b)))

    def binary(self, e, s):
        op = e.v
        if op == "=":
            out = []
            for v, s1 in self.ev(e.kids[1], s):
                for loc, s2 in self.lval(e.kids[0], s1):
                    self.store(loc, v, s2)
                    out.append((v, s2))
            return out
        if e.k == "CompoundAssignOperator":
            out = []
            for cur, s1 in self.ev(e.kids[0], s):
                for v, s2 in self.ev(e.kids[1], s1):
                    nv = self.arith(op[:-1], cur, v)
                    for loc, s3 in self.lval(e.kids[0], s2):
                        self.store(loc, nv, s3)
                        out.append((nv, s3))
            return out
        if op == ",":
            out = []
            for _, s1 in self.ev(e.kids[0], s):
                out.extend(self.ev(e.kids[1], s1))
            return out
        if op in ("&&", "||", "==", "!=", "<", ">", "<=", ">="):
            return [(K(1 if t else 0), s1) for t, s1 in self.branch(e, s)]
        out = []
        for a, s1 in self.ev(e.kids[0], s):
            for b, s2 in self.ev(e.kids[1], s1):
                out.append((self.arith(op, a, b), s2))
        return out

    # ---- conditions ---------------------------------------------------------
    def truth(self, v):
        if isinstance(v, Aff):
            c = v.const()
            if c is not None:
                return c != 0
            lo = v.lower()
            if lo is not None and lo >= 1:
                return True
            return None
        if isinstance(v, tuple) and v:
            if v[0] in ("null",):
                return False
            if v[0] == "ptr" and v[2] == K(0):
                return None                       # self->values / keys / data may be NULL
            if v[0] in ("none", "self", "state", "new", "tup", "slot", "ptr", "str"):
                return True
            if v[0] == "item" and not v[-1] == "optional":
                return True
        return None

    def compare(self, op, a, b):
        if isinstance(a, Aff) and isinstance(b, Aff):
            d = a - b
            lo, hi = d.lower(), d.upper()
            c = d.const()
            if c is not None:
                return {"==": c == 0, "!=": c != 0, "<": c < 0, ">": c > 0, "<=": c <= 0, ">=": c >= 0}[op]
            if op == "<" and hi is not None and hi < 0:
                return True
            if op == "<" and lo is not None and lo >= 0:
                return False
            if op == ">=" and lo is not None and lo >= 0:
                return True
            if op == ">=" and hi is not None and hi < 0:
                return False
            if op == ">" and lo is not None and lo > 0:
                return True
            if op == ">" and hi is not None and hi <= 0:
                return False
            if op == "<=" and hi is not None and hi <= 0:
                return True
            if op == "<=" and lo is not None and lo > 0:
                return False
            if op == "==" and ((lo is not None and lo > 0) or (hi is not None and hi < 0)):
                return False
            if op == "!=" and ((lo is not None and lo > 0) or (hi is not None and hi < 0)):
                return True
            return None
        null = lambda x: isinstance(x, tuple) and x and x[0] == "null" or (isinstance(x, Aff) and x.const() == 0)
        if op in ("==", "!=") and (null(a) or null(b)):
            o = b if null(a) else a
            if null(o):
                return op == "=="
            t = self.truth(o)
            if t is None:
                return None
            return (not t) if op == "==" else t
        if op in ("==", "!=") and a == b and not (isinstance(a, tuple) and a and a[0] in ("opaque", "call")):
            return op == "=="
        return None

    def decide(self, key, txt, kroles, s, refine=None):
        """unknown condition: reuse an assumption or fork"""
        if key in s.assume:
            return [(s.assume[key][0], s)]
        out = []
        for val in (True, False):
            s2 = s.fork()
            s2.assume[key] = (val, frozenset(kroles), txt)
            if refine:
                refine(val, s2)
            out.append((val, s2))
        return out

    def branch(self, e, s):
        """-> [(bool, state)]"""
        e = _s(e)
        if e is not None and e.k == "BinaryOperator" and e.v in ("&&", "||"):
            out = []
            for t, s1 in self.branch(e.kids[0], s):
                if (e.v == "&&") == t:
                    out.extend(self.branch(e.kids[1], s1))
                else:
                    out.append((t, s1))
            return out
        if e is not None and e.k == "UnaryOperator" and e.v == "!":
            return [(not t, s1) for t, s1 in self.branch(e.kids[0], s)]
        if e is not None and e.k == "BinaryOperator" and e.v in ("==", "!="):
            # p == NULL / p != NULL: the truth of p
            for a, b in ((0, 1), (1, 0)):
                kb = _s(e.kids[b])
                if kb is not None and const_int(e.kids[b]) == 0 and "*" in (e.kids[a].t or ""):
                    return [((not t) if e.v == "==" else t, s1) for t, s1 in self.branch(e.kids[a], s)]
        if e is not None and e.k == "BinaryOperator" and e.v in ("==", "!=", "<", ">", "<=", ">="):
            out = []
            for a, s1 in self.ev(e.kids[0], s):
                for b, s2 in self.ev(e.kids[1], s1):
                    a2, b2 = vsubst(a, s2.subst), vsubst(b, s2.subst)
                    t = self.compare(e.v, a2, b2)
                    if t is not None:
                        out.append((t, s2))
                        continue
                    key = "%s %s %s" % (show(a2), e.v, show(b2))

                    def refine(val, st, a2=a2, b2=b2, op=e.v):
                        eq = (op == "==" and val) or (op == "!=" and not val)
                        if eq and isinstance(a2, Aff) and isinstance(b2, Aff):
                            x, c = (a2, b2.const()) if b2.const() is not None else (b2, a2.const())
                            if c is not None and len(x.t) == 1 and x.t[0][1] == 1:
                                st.subst[x.t[0][0]] = c - x.c
                    out.extend(self.decide(key, key, roles(a2) | roles(b2), s2, refine))
            return out
        out = []
        pred = e is not None and e.k == "CallExpr"
        if pred:
            self.in_cond = getattr(self, "in_cond", 0) + 1     # predicates of the repo are inlined
        try:
            vals = self.ev(e, s)
        finally:
            if pred:
                self.in_cond -= 1
        for v, s1 in vals:
            v2 = vsubst(v, s1.subst)
            t = self.truth(v2)
            if t is not None:
                out.append((t, s1))
                continue
            txt = show(v2)
            if e is not None and e.k == "DeclRefExpr" and e.n in self.params_of_entry and isinstance(v, tuple) \
                    and v and v[0] == "param":
                txt = "param " + e.n
            if e is not None and e.mo and e.k == "CallExpr" and e.mo.startswith("Py") and e.mo.endswith("_Check"):
                txt = "%s(%s)" % (e.mo, "+".join(sorted(show(x) for x in roles(v2))))
            if isinstance(v, tuple) and v and v[0] == "param":
                txt = "param " + v[1]

            def refine(val, st, v2=v2):
                if not val and isinstance(v2, Aff) and len(v2.t) == 1 and v2.t[0][1] == 1:
                    st.subst[v2.t[0][0]] = -v2.c
            key = txt
            if not roles(v2) and not isinstance(v2, Aff) and not txt.startswith("param "):
                key = "%s@%d" % (txt, id(e))      # an unknown without provenance: one decision per site
            out.extend(self.decide(key, txt, roles(v2), s1, refine))
        return out

    # ---- calls -------------------------------------------------------------
    def call(self, e, s):
        cal = callee(e)
        args = e.kids[1:]
        name = cal[1] if cal and cal[0] == "fn" else None
        if name in NOOPS:
            return [(("opaque", frozenset()), s)]
        # evaluate arguments left to right
        combos = [([], s)]
        for a in args:
            nxt = []
            for vals, st in combos:
                for v, s2 in self.ev(a, st):
                    nxt.append((vals + [v], s2))
            combos = nxt
        out = []
        for vals, st in combos:
            out.extend(self.apply(name, vals, st, e))
        return out

    def apply(self, name, vals, s, e):
        if name == "PyTuple_New" and vals:
            self.next_id += 1
            tid = self.next_id
            s.tuples[tid] = {"size": vals[0], "slots": []}
            return [(("new", tid), s)]
        if name in SETITEM and len(vals) == 3:
            t = vals[0]
            if isinstance(t, tuple) and t and t[0] == "new":
                s.tuples[t[1]]["slots"].append((vals[1], vals[2], s.ctx))
                s.nstores += 1
            return [(K(0), s)]
        if name in GETITEM and len(vals) == 2:
            return [(("item", vals[0], vals[1]), s)]
        if name in SIZE_FNS and vals:
            return [(Aff.atom("size(%s)" % show(vals[0])), s)]
        if name == "Py_BuildValue" and vals and vals[0][0] == "str":
            return [(self.build(vals[0][1], vals[1:]), s)]
        if name == "PyTuple_Pack" and vals and isinstance(vals[0], Aff) and vals[0].const() == len(vals) - 1:
            return [(("tup", tuple(self.freeze(v, s) for v in vals[1:])), s)]
        if name in ("PyArg_ParseTuple", "PyArg_UnpackTuple") and len(vals) >= 2:
            return self.parse(name, vals, s)
        if name == "PyVar_Assign" and len(vals) == 2 and vals[0][0] == "addr":
            s.env[vals[0][2]][vals[0][1]] = vals[1]
            return [(K(0), s)]
        if name in ("memcpy", "memmove") and len(vals) >= 2:
            d = vals[0]
            if isinstance(d, tuple) and d and d[0] in ("slot", "ptr") and roles(vals[1]):
                s.slots.append((d[1], d[2], ("opaque", frozenset(roles(vals[1]))), s.ctx, ()))
            return [(vals[0], s)]
        if name in READERS + WRITERS and name != self.entry or (name == self.entry and self.depth > 0):
            pass
        if name in READERS:
            src = [v for v in vals[1:] if roles(v)]
            a = self.assumptions(s, src[0] if src else ("opaque", frozenset()), "child", params=True)
            s.events.append((name, vals[0], ("when", src[0] if src else None, a) if a else
                             (src[0] if src else None), s.ctx, ()))
            s.nstores += 1
            return [(Aff.atom("rc"), s)]
        if name in WRITERS:
            return [(("call", name, tuple(vals)), s)]
        fn = self.tu.funcs.get(name) if name else None
        if fn is not None and self.tu.body(name) is not None and self.depth < 4 and \
                (self.inline_worthy(vals) or (getattr(self, "in_cond", 0) and self.is_predicate(name))):
            return self.inline(name, vals, s)
        return [(("call", name or "?", tuple(v for v in vals if roles(v) or v == ("self",))), s)]

    def is_predicate(self, name):
        """a small loop-free function returning int: a test factored out"""
        fn = self.tu.funcs.get(name)
        if fn is None or (fn.t or "").split("(")[0].strip() not in ("int", "_Bool", "long"):
            return False
        body = self.tu.body(name)
        return body is not None and not any(
            n.k in ("ForStmt", "WhileStmt", "DoStmt", "GotoStmt") for n in body.walk()) and \
            sum(1 for _ in body.walk()) < 400

    def inline_worthy(self, vals):
        for v in vals:
            if isinstance(v, tuple) and v and v[0] in ("ptr", "item", "state", "new", "slot"):
                return True
            if isinstance(v, Aff) and any(a.startswith("size(") or a.startswith("(") or a == "j" for a, _ in v.t):
                return True
        return False

    def build(self, fmt, vals):
        fmt = fmt.split(":")[0]
        out, stack, i = [], [], 0
        cur = out
        for ch in fmt:
            if ch == "(":
                stack.append(cur)
                cur = []
            elif ch == ")":
                done = ("tup", tuple(cur))
                cur = stack.pop()
                cur.append(done)
            elif ch == "O" or ch == "N":
                cur.append(vals[i] if i < len(vals) else ("opaque", frozenset()))
                i += 1
            elif ch in " ,":
                continue
            else:
                raise AnalysisError("state layout (%s): Py_BuildValue format %r not understood" % (self.entry, fmt))
        if len(out) == 1:
            return out[0]
        return ("tup", tuple(out))

    def freeze(self, v, s):
        return v

    def parse(self, name, vals, s):
        src = vals[0]
        if name == "PyArg_UnpackTuple":
            raise AnalysisError("state layout (%s): PyArg_UnpackTuple not modelled" % self.entry)
        fmt = vals[1][1].split(":")[0] if vals[1][0] == "str" else None
        if fmt is None or any(c not in "O|" for c in fmt):
            raise AnalysisError("state layout (%s): PyArg_ParseTuple format %r not understood" % (self.entry, fmt))
        req = fmt.split("|")[0].count("O")
        total = fmt.count("O")
        s.fields_arity = (req, total)
        outs = vals[2:]
        if len(outs) != total:
            raise AnalysisError("state layout (%s): PyArg_ParseTuple arity" % self.entry)
        res = []
        # the optional tail: present or absent
        variants = [total] if req == total else list(range(req, total + 1))
        for n in variants:
            s2 = s.fork() if len(variants) > 1 else s
            if len(variants) > 1:
                s2.assume["arity %s" % show(src)] = (n, frozenset(), "%d element(s)" % n)
            for i, o in enumerate(outs):
                if i < n and isinstance(o, tuple) and o and o[0] == "addr":
                    s2.env[o[2]][o[1]] = ("item", src, K(i))
            s2.arity = n
            res.append((K(1), s2))
        # failure
        s3 = s.fork()
        res.append((K(0), s3))
        return res

    def inline(self, name, vals, s):
        body = self.tu.body(name)
        params = self.tu.params(name)
        frame = {}
        for pd, v in zip(params, vals):
            frame[pd.n] = v
        s.env.append(frame)
        self.depth += 1
        try:
            outs = self.run_body(body, [s])
        finally:
            self.depth -= 1
        res = []
        for st in outs:
            rv = ("opaque", frozenset())
            if st.ctl and st.ctl[0] == "ret":
                rv = st.ctl[1]
            elif st.ctl is not None:
                continue
            st.ctl = None
            st.env.pop()
            res.append((rv, st))
        return res

    # ---- statements ---------------------------------------------------------
    def dedup(self, states):
        seen, out = set(), []
        for st in states:
            k = st.key()
            if k not in seen:
                seen.add(k)
                out.append(st)
        if len(out) > MAX_STATES:
            raise AnalysisError("state layout (%s): too many paths" % self.entry)
        return out

    def block(self, stmts, states):
        for st in stmts:
            live = [x for x in states if x.ctl is None]
            rest = [x for x in states if x.ctl is not None]
            if not live:
                break
            out = []
            for x in live:
                out.extend(self.stmt(st, x))
            states = self.dedup(out) + rest
        return states

    def run_body(self, body, states):
        """function body with goto: labels at the top level of the body"""
        stmts = body.kids
        states = self.block(stmts, states)
        for _ in range(8):
            pend = [x for x in states if x.ctl and x.ctl[0] == "goto"]
            if not pend:
                break
            done = [x for x in states if not (x.ctl and x.ctl[0] == "goto")]
            for x in pend:
                lab = x.ctl[1]
                idx = [i for i, t in enumerate(stmts) if t.k == "LabelStmt" and t.n == lab]
                if not idx:
                    x.ctl = ("ret", ("opaque", frozenset()))
                    x.aborted = True
                    done.append(x)
                    continue
                x.ctl = None
                done.extend(self.block(stmts[idx[0]:], [x]))
            states = done
        return states

    def stmt(self, st, s):
        k = st.k
        if k == "CompoundStmt":
            return self.block(st.kids, [s])
        if k == "NullStmt":
            return [s]
        if k == "DeclStmt":
            states = [s]
            for d in st.kids:
                if d.k != "VarDecl":
                    continue
                nxt = []
                for x in states:
                    if d.kids and d.kids[-1].k != "Absent":
                        for v, s2 in self.ev(d.kids[-1], x):
                            if isinstance(v, Aff) and v.const() == 0 and "*" in (d.t or ""):
                                v = ("null",)
                            s2.set(d.n, v)
                            nxt.append(s2)
                    else:
                        x.set(d.n, ("opaque", frozenset()))
                        nxt.append(x)
                states = nxt
            return states
        if k == "IfStmt":
            out = []
            for t, s1 in self.branch(st.kids[0], s):
                if t:
                    out.extend(self.stmt(st.kids[1], s1))
                elif len(st.kids) > 2:
                    out.extend(self.stmt(st.kids[2], s1))
                else:
                    out.append(s1)
            return out
        if k == "ReturnStmt":
            if not st.kids:
                s.ctl = ("ret", ("opaque", frozenset()))
                return [s]
            out = []
            for v, s1 in self.ev(st.kids[0], s):
                if isinstance(v, Aff) and v.const() == 0 and "*" in (st.kids[0].t or ""):
                    v = ("null",)
                s1.ctl = ("ret", v)
                out.append(s1)
            return out
        if k == "GotoStmt":
            s.ctl = ("goto", st.n)
            return [s]
        if k == "LabelStmt":
            return self.block(st.kids, [s])
        if k == "BreakStmt":
            s.ctl = ("break",)
            return [s]
        if k == "ContinueStmt":
            s.ctl = ("continue",)
            return [s]
        if k == "DoStmt":
            body, cond = st.kids[0], st.kids[1]
            if const_int(cond) == 0:
                outs = self.stmt(body, s)
                for x in outs:
                    if x.ctl in (("break",), ("continue",)):
                        x.ctl = None
                return outs
            return self.loop(None, cond, None, body, s)
        if k == "WhileStmt":
            return self.loop(None, st.kids[-2], None, st.kids[-1], s)
        if k == "ForStmt":
            init, cond, inc, body = st.kids[0], st.kids[2], st.kids[3], st.kids[4]
            return self.loop(init, cond, inc, body, s)
        if k == "SwitchStmt":
            raise AnalysisError("state layout (%s): switch not modelled" % self.entry)
        return [s2 for _, s2 in self.ev(st, s)]

    # ---- loops -------------------------------------------------------------
    def assigned(self, *nodes):
        out = set()
        for n in nodes:
            if n is None:
                continue
            for x in n.walk():
                if x.k in ("BinaryOperator", "CompoundAssignOperator") and (x.v == "=" or x.k == "CompoundAssignOperator"):
                    t = _s(x.kids[0])
                    if t is not None and t.k == "DeclRefExpr":
                        out.add(t.n)
                elif x.k == "UnaryOperator" and x.v and ("++" in x.v or "--" in x.v):
                    t = _s(x.kids[0])
                    if t is not None and t.k == "DeclRefExpr":
                        out.add(t.n)
        return out

    def iteration(self, cond, inc, body, states):
        """body; inc - for states entering an iteration; returns (continuing, leaving)"""
        outs = []
        for s in states:
            outs.extend(self.stmt(body, s))
        cont, leave = [], []
        for x in outs:
            if x.ctl == ("continue",):
                x.ctl = None
            if x.ctl is None:
                cont.append(x)
            elif x.ctl == ("break",):
                x.ctl = None
                x.broke = True
                leave.append(x)
            else:
                leave.append(x)
        if inc is not None and inc.k != "Absent":
            nxt = []
            for x in cont:
                nxt.extend(s2 for _, s2 in self.ev(inc, x))
            cont = nxt
        return self.dedup(cont), leave

    def loop(self, init, cond, inc, body, s):
        states = [s]
        if init is not None and init.k != "Absent":
            states = self.stmt(init, s) if init.k == "DeclStmt" else [s2 for _, s2 in self.ev(init, s)]
        mod = self.assigned(inc, body)
        result = []
        depth = len(s.ctx)
        jname = "j" if depth == 0 else "j#%d" % depth
        for s0 in states:
            # the iteration bound from the condition, with the counter at its initial value
            bound = self.bound(cond, s0, mod)
            # peeled iteration j = 0
            s0.ctx = s0.ctx + ((jname, bound, "first"),)
            cont, leave = self.iteration(cond, inc, body, [s0])
            result.extend(leave)
            for s1 in cont:
                # induction: solve per-iteration increments
                start = {v: s1.get(v) for v in mod}
                delta = {}
                for _round in range(4):
                    probe = s1.fork()
                    for v in mod:
                        cur = start[v]
                        if v in delta:
                            probe.set(v, self.at(cur, delta[v], jname))
                        elif isinstance(cur, Aff):
                            probe.set(v, Aff.atom("@" + v))
                        elif isinstance(cur, tuple) and cur and cur[0] == "ptr":
                            probe.set(v, ("ptr", cur[1], Aff.atom("@" + v)))
                        else:
                            probe.set(v, ("opaque", frozenset()))
                    probe.ctx = s1.ctx[:-1] + ((jname, bound, "generic"),)
                    saved = self.next_id
                    pc, _pl = self.iteration(cond, inc, body, [probe])
                    self.next_id = saved
                    new = {}
                    for v in mod:
                        if v in delta:
                            continue
                        ds = set()
                        for x in pc:
                            a = x.get(v)
                            a = a[2] if isinstance(a, tuple) and a and a[0] == "ptr" else a
                            if isinstance(a, Aff):
                                d = a - Aff.atom("@" + v)
                                ds.add(d.const())
                            else:
                                ds.add(None)
                        if len(ds) == 1 and None not in ds:
                            new[v] = ds.pop()
                    if not new:
                        break
                    delta.update(new)
                gen = s1
                for v in mod:
                    cur = start[v]
                    if v in delta:
                        gen.set(v, self.at(cur, delta[v], jname))
                    elif isinstance(cur, (Aff,)) or (isinstance(cur, tuple) and cur and cur[0] == "ptr"):
                        gen.set(v, ("opaque", frozenset()))
                gen.ctx = s1.ctx[:-1] + ((jname, bound, "generic"),)
                gc, gl = self.iteration(cond, inc, body, [gen])
                result.extend(gl)
                for x in gc:
                    # after the loop: counters at their final value
                    for v in mod:
                        if v in delta and bound is not None:
                            x.set(v, self.at(start[v], delta[v], jname, bound))
                        elif v in delta:
                            x.set(v, ("opaque", frozenset()))
                    x.ctx = x.ctx[:-1]
                    result.append(x)
        for x in result:
            if len(x.ctx) > depth:
                x.ctx = x.ctx[:depth]
        return self.dedup(result)

    def at(self, start, d, jname, bound=None):
        """value at the start of iteration j (j >= 1), given the value after
        the first iteration and the per-iteration increment"""
        n = (bound - K(1)) if bound is not None else (Aff.atom(jname) - K(1))
        if isinstance(start, Aff):
            return start + n.scale(d)
        if isinstance(start, tuple) and start and start[0] == "ptr":
            return ("ptr", start[1], start[2] + n.scale(d))
        return start

    def bound(self, cond, s, mod):
        """for `v < B` / `v != B` with v a counter starting here at 0 and B loop
        invariant: the number of iterations B (else None)"""
        c = _s(cond)
        if c is None or c.k != "BinaryOperator" or c.v not in ("<", "!=", ">"):
            return None
        a, b = _s(c.kids[0]), _s(c.kids[1])
        if c.v == ">":
            a, b = b, a
        if a is None or a.k != "DeclRefExpr" or a.n not in mod:
            return None
        probe = s.fork()
        va = probe.get(a.n)
        vb = self.ev(b, probe)
        if len(vb) != 1 or not isinstance(vb[0][0], Aff) or not isinstance(va, Aff):
            return None
        if any(x.k == "DeclRefExpr" and x.n in mod for x in b.walk()):
            return None
        return vb[0][0] - va

    # ---- driver ------------------------------------------------------------
    def run(self):
        body = self.tu.body(self.entry)
        if body is None:
            raise AnalysisError("anchor vanished: %s" % self.entry)
        s = State()
        self.params_of_entry = []
        for i, pd in enumerate(self.tu.params(self.entry)):
            pn, pt = pd.n, pd.t
            self.params_of_entry.append(pn)
            if i == 0:
                s.set(pn, ("self",))
            elif "PyObject" in (pt or ""):
                s.set(pn, ("state",))
            else:
                s.set(pn, ("param", pn))
        return self.run_body(body, [s])


# --------------------------------------------------------------------------
# canonical facts

def _family(entries, subst):
    """entries: (idx Aff, value, ctx) -> canonical strings.  A store made in the
    peeled iteration that is the j = 0 instance of a generic family widens the
    family to 0 <= j."""
    gens, firsts, plain = [], [], []
    for idx, val, ctx in entries:
        idx, val = vsubst(idx, subst), vsubst(val, subst)
        if ctx and ctx[-1][2] == "generic":
            gens.append((idx, val, ctx[-1]))
        elif ctx and ctx[-1][2] == "first":
            firsts.append((idx, val, ctx[-1]))
        else:
            plain.append((idx, val))
    out = []
    used = set()
    for idx, val, c in gens:
        jn = c[0]
        lo = 1
        at0 = (vsubst(idx, {jn: 0}), vsubst(val, {jn: 0}))
        for n, (fi, fv, fc) in enumerate(firsts):
            if (show(fi), show(fv)) == (show(at0[0]), show(at0[1])):
                lo = 0
                used.add(n)
        if c[1] is None:
            raise AnalysisError("state layout: the iteration bound of a loop filling %s is not understood "
                                "(only `v < B` / `v != B` with v counting up from its initial value)" % show(val))
        b = vsubst(c[1], subst)
        out.append("[%s]=%s (%d<=j<%s)" % (show(idx), show(val), lo, show(b)))
    for n, (fi, fv, fc) in enumerate(firsts):
        if n not in used:
            b = vsubst(fc[1], subst) if fc[1] is not None else None
            out.append("[%s]=%s (if 0<%s)" % (show(fi), show(fv), show(b) if b is not None else "?"))
    for idx, val in plain:
        out.append("[%s]=%s" % (show(idx), show(val)))
    return sorted(set(out))


def _show_built(v, s):
    if isinstance(v, tuple) and v and v[0] == "new":
        t = s.tuples[v[1]]
        fam = _family([(i, x, c) for i, x, c in t["slots"]], {})
        return "T{size %s: %s}" % (show(t["size"]), "; ".join(fam))
    if isinstance(v, tuple) and v and v[0] == "tup":
        xs = [_show_built(x, s) for x in v[1]]
        return "(" + ", ".join(xs) + ("," if len(xs) == 1 else "") + ")"
    return show(v)


def _when(s):
    eqs = ["%s=%d" % (a, c) for a, c in sorted(s.subst.items())]
    for k, (val, r, txt) in sorted(s.assume.items(), key=lambda kv: str(kv[0])):
        if txt == "&values[0]" and isinstance(val, bool):
            eqs.append("values" if val else "no values")
    return (" when " + " and ".join(eqs)) if eqs else ""


def _subsume(facts):
    """drop `X when A` where the unconditional X is also a fact"""
    plain = set(f for f in facts if " when " not in f)
    return sorted(f for f in facts if " when " not in f or f.split(" when ")[0] not in plain)


def writer_facts(tu, entry):
    it = Interp(tu, entry)
    outs = it.run()
    facts = set()
    n = 0
    for s in outs:
        if not s.ctl or s.ctl[0] != "ret" or getattr(s, "aborted", False):
            continue
        v = s.ctl[1]
        if v == ("null",) or (isinstance(v, Aff) and v.const() == 0):
            continue
        n += 1
        facts.add("returns " + _show_built(v, s) + _when(s))
    return _subsume(facts), n


FIELDS_OF_INTEREST = ("len", "next", "firstbucket")
# the link a two-element state carries, per reader
EXPECTED_LINK = {"_bucket_setstate": ("next",), "_set_setstate": ("next",), "_BTree_setstate": ("firstbucket",)}


def reader_facts(tu, entry):
    it = Interp(tu, entry)
    outs = it.run()
    groups = {}
    n = 0
    for s in outs:
        if not s.ctl or s.ctl[0] != "ret" or getattr(s, "aborted", False):
            continue
        v = s.ctl[1]
        if isinstance(v, Aff) and v.const() is not None and v.const() < 0:
            continue
        if isinstance(v, Aff) and v.const() is None and v.lower() is None:
            continue
        n += 1
        pre = "state"
        ar = [t for k, (val, r, t) in s.assume.items() if k.startswith("arity ")]
        none = [val for k, (val, r, t) in s.assume.items() if k in ("state == None", "None == state")]
        if none and none[0]:
            pre = "state None"
        elif ar:
            pre = "state of %s" % ar[0]
        facts, ents, evs = groups.setdefault(pre, (set(), {}, {}))
        for arr, idx, val, ctx, asm in s.slots:
            ents.setdefault(arr, set()).add((idx, val, ctx[-1:] if ctx else ()))
        for fname, tgt, src, ctx, asm in s.events:
            evs.setdefault(fname, set()).add(
                (K(0), ("tup", (tgt, src if src is not None else ("opaque", frozenset()))), ctx[-1:] if ctx else ()))
        for f in FIELDS_OF_INTEREST:
            if f in s.fields:
                facts.add("%s=%s" % (f, show(s.fields[f])))
        # what a path of a given arity leaves unset (a successor dropped on some path)
        stored_something = bool(s.slots or s.events or any(f in s.fields for f in FIELDS_OF_INTEREST))
        if stored_something and pre == "state of 2 element(s)":
            for f in ("next", "firstbucket"):
                if f in EXPECTED_LINK.get(entry, ()) and f not in s.fields:
                    facts.add("%s left unset on some path" % f)
        if not s.slots and not s.events and not any(
                f in s.fields and not (isinstance(s.fields[f], Aff) and s.fields[f].const() == 0)
                and s.fields[f] != ("null",) for f in FIELDS_OF_INTEREST):
            facts.add("nothing stored")
    for g, (facts, ents, evs) in groups.items():
        for arr, es in ents.items():
            for f in _family(sorted(es, key=repr), {}):
                facts.add("%s%s" % (arr, f))
        for fname, es in evs.items():
            for f in _family(sorted(es, key=repr), {}):
                facts.add("load %s by %s" % (f.replace("[0]=", "", 1), fname))
    groups = {g: v[0] for g, v in groups.items()}
    # a fact common to every arity of the state is printed once
    ar = [g for g in groups if g.startswith("state of ")]
    out = set()
    for g, fs in groups.items():
        for f in fs:
            if g in ar and len(ar) > 1 and all(f in groups[a] for a in ar):
                out.add("state: " + f)
            else:
                out.add("%s: %s" % (g, f))
    return sorted(out), n


def facts(tu):
    out = {}
    total = 0
    for name, key in (("bucket_getstate", "leaf_writer"), ("BTree_getstate", "tree_writer")):
        f, n = writer_facts(tu, name)
        if not n:
            raise AnalysisError("state layout: no successful path through %s" % name)
        out[key] = f
        total += n
    for name, key in (("_bucket_setstate", "leaf_reader"), ("_set_setstate", "set_reader"),
                      ("_BTree_setstate", "tree_reader")):
        f, n = reader_facts(tu, name)
        if not n:
            raise AnalysisError("state layout: no successful path through %s" % name)
        out[key] = f
        total += n
    return out, total


SPEC = {
    "leaf_writer": [
        "returns (T{size 2len: [2j+1]=values[j] (0<=j<len); [2j]=keys[j] (0<=j<len)}, self->next) when values",
        "returns (T{size 2len: [2j+1]=values[j] (0<=j<len); [2j]=keys[j] (0<=j<len)},) when values",
        "returns (T{size len: [j]=keys[j] (0<=j<len)}, self->next) when no values",
        "returns (T{size len: [j]=keys[j] (0<=j<len)},) when no values",
    ],
    "tree_writer": [
        "returns (T{size 2len-1: [0]=getstate(data[0].child)},) when len=1",
        "returns (T{size 2len-1: [2j-1]=data[j].key (1<=j<len); [2j]=data[j].child (0<=j<len)}, self->firstbucket)",
        "returns None when len=0",
    ],
    "leaf_reader": [
        "state of 2 element(s): next=state[1]",
        "state: keys[j]=state[0][2j] (0<=j<(size(state[0]))/2)",
        "state: len=(size(state[0]))/2",
        "state: values[j]=state[0][2j+1] (0<=j<(size(state[0]))/2)",
    ],
    "set_reader": [
        "state of 2 element(s): next=state[1]",
        "state: keys[j]=state[0][j] (0<=j<size(state[0]))",
        "state: len=size(state[0])",
    ],
    "tree_reader": [
        "state None: nothing stored",
        "state of 1 element(s): firstbucket=data[0].child",
        "state of 2 element(s): firstbucket=state[1]",
        "state: data.child[j]=state[0][2j] when not PyTuple_Check(state[0][2j]) (0<=j<(size(state[0])+1)/2)",
        "state: data.child[j]=new leaf made from self (0<=j<(size(state[0])+1)/2)",
        "state: data.key[j]=state[0][2j-1] (1<=j<(size(state[0])+1)/2)",
        "state: len=(size(state[0])+1)/2",
        "state: load (data[j].child, state[0][2j] when PyTuple_Check(state[0][2j]) and not param noval) "
        "(0<=j<(size(state[0])+1)/2) by _bucket_setstate",
        "state: load (data[j].child, state[0][2j] when PyTuple_Check(state[0][2j]) and param noval) "
        "(0<=j<(size(state[0])+1)/2) by _set_setstate",
    ],
}
CODEC_FN = {"leaf_writer": "bucket_getstate", "leaf_reader": "_bucket_setstate",
            "set_reader": "_set_setstate", "tree_writer": "BTree_getstate",
            "tree_reader": "_BTree_setstate"}


def compare(got):
    """-> (findings, number of facts compared)"""
    findings = []
    n = 0
    for codec, want in SPEC.items():
        g = got.get(codec, [])
        n += len(want)
        for f in want:
            if f not in g:
                findings.append(dict(
                    rule="STATE-SHAPE", function=CODEC_FN[codec], file="src/BTrees", line=1,
                    construct="%s: the state format requires `%s`" % (codec, f),
                    detail="%s does not realise this part of the shared state format "
                           "(leaf: (k0,v0,k1,v1,..)[, next]; set: (k0,k1,..)[, next]; tree: None | "
                           "((leafstate,),) | ((c0,k1,c1,..), firstbucket)); what it does instead: %s"
                           % (CODEC_FN[codec], [x for x in g if x not in want] or "nothing in its place"),
                    path=[]))
        for f in g:
            if f not in want:
                findings.append(dict(
                    rule="STATE-SHAPE", function=CODEC_FN[codec], file="src/BTrees", line=1,
                    construct="%s: `%s` is not part of the state format" % (codec, f),
                    detail="%s lays the state out differently from the format shared by writers, "
                           "readers and the Python implementation" % CODEC_FN[codec], path=[]))
    return findings, n
