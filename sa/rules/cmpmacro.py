"""CMP-MACRO: the per-family comparison macros are genuine three-way comparisons.

Every decision table of this package (search, merge, set operations, range
endpoints) treats the key comparison TEST_KEY_SET_OR and the value comparison
TEST_VALUE as an oracle for the sign of (a - b).  This rule checks that oracle
for each translation unit, at every expansion site:

* the expression is evaluated for every ordering of its operands (scalar
  operands: 3 orderings; byte-array operands of fsBTree: 3 per byte) and must
  be the (lexicographic) sign; relational operators, ?:, &&, ||, !, integer
  constants and memcmp over the *whole* operand are understood;
* arithmetic on the operands (a - b, casts) is reported: it overflows or
  truncates for part of the domain;
* object operands go through COMPARE, whose cascade NONE-ORD checks; here the
  wrapper is checked: the value assigned is the COMPARE result unchanged and
  the error test of TEST_KEY_SET_OR is exactly "an exception is pending"
  (true for every result value when an exception is pending, false otherwise);
  for non-object keys the error test must be constant false.
"""
import itertools
import re

from ..cir import strip, path, callee, text, const_int
from ..common import AnalysisError

REL_OPS = ("<", ">", "<=", ">=", "==", "!=")


class _Arith(Exception):
    def __init__(self, what):
        self.what = what


def _strip_all(e):
    while e is not None and e.k in ("ParenExpr", "ImplicitCastExpr"):
        e = e.kids[0]
    return e


def _arr_len(t):
    m = re.search(r"\[(\d+)\]\s*$", t or "")
    return int(m.group(1)) if m else None


def _digit(e):
    """(base text, byte index or None, width or None) of a comparison operand"""
    x = _strip_all(e)
    if x.k == "UnaryOperator" and x.v == "*":
        b = _strip_all(x.kids[0])
        if _arr_len(b.t) is None and not (b.t or "").replace(" ", "").endswith(("char*", "char*const")):
            # a key handed over through a pointer (KEY_TYPE *keyp): a scalar operand
            return (text(x), None, None)
        return (text(b), 0, _arr_len(b.t))
    if x.k == "ArraySubscriptExpr":
        b = _strip_all(x.kids[0])
        ci = const_int(x.kids[1])
        if ci is not None and _arr_len(b.t) is not None:
            return (text(b), ci, _arr_len(b.t))
        if ci is not None and (b.t or "").replace(" ", "").endswith(("char*", "char*const")):
            # a byte-array key that decayed to a pointer (array parameter)
            return (text(b), ci, None)
    if x.k in ("DeclRefExpr", "MemberExpr", "ArraySubscriptExpr"):
        return (text(x), None, None)
    return None


def _has_call(e, name):
    for n in e.walk():
        if n.k == "CallExpr" and callee(n) == ("fn", name):
            return True
    return False


class ThreeWay(object):
    """evaluates one comparison expression over all operand orderings"""

    def __init__(self, e):
        self.e = e
        self.K = self.T = None
        self.width = None
        self.idx = set()
        self.memcmp_n = None
        self._collect(e)
        if self.K is None:
            for n in e.walk():
                if n.k == "BinaryOperator" and n.v in ("-", "+", "*", "/", "^"):
                    raise _Arith("arithmetic '%s' on the operands" % n.v)
                if n.k == "CStyleCastExpr":
                    raise _Arith("a cast to %s" % n.t)

    def _pair(self, a, b):
        da, db = _digit(a), _digit(b)
        if da is None or db is None:
            raise _Arith("comparison of computed values (%s, %s)" % (text(a)[:40], text(b)[:40]))
        if self.K is None:
            self.K, self.T = da[0], db[0]
        if {da[0], db[0]} != {self.K, self.T} or da[1] != db[1]:
            raise AnalysisError("CMP-MACRO: relational operator on unrelated operands %s / %s" % (text(a), text(b)))
        self.idx.add(da[1])
        for w in (da[2], db[2]):
            if w is not None:
                self.width = w if self.width is None else max(self.width, w)
        return da[0] == self.K, da[1]

    def _collect(self, e):
        e = _strip_all(e)
        if e.k == "BinaryOperator" and e.v in REL_OPS:
            ca, cb = const_int(e.kids[0]), const_int(e.kids[1])
            if ca is None and cb is None:
                self._pair(e.kids[0], e.kids[1])
                return
        if e.k == "CallExpr" and callee(e) == ("fn", "memcmp"):
            a, b = _strip_all(e.kids[1]), _strip_all(e.kids[2])
            n = const_int(e.kids[3])
            if n is None:
                raise AnalysisError("CMP-MACRO: memcmp with a non-constant length")
            self.K, self.T = text(a), text(b)
            wa, wb = _arr_len(a.t), _arr_len(b.t)
            if wa is None or wb is None or wa != wb:
                raise AnalysisError("CMP-MACRO: memcmp operands of types %s / %s" % (a.t, b.t))
            self.width = wa
            self.memcmp_n = n
            self.idx.update(range(wa))
            return
        for c in e.kids:
            self._collect(c)

    def digits(self):
        if self.idx == {None}:
            return [None]
        if None in self.idx:
            raise AnalysisError("CMP-MACRO: scalar and byte comparisons mixed")
        w = self.width or (max(self.idx) + 1)
        return list(range(w))

    def ev(self, e, val):
        e = _strip_all(e)
        k = e.k
        c = const_int(e)
        if k == "IntegerLiteral":
            return int(e.v)
        if k == "UnaryOperator" and e.v == "-":
            return -self.ev(e.kids[0], val)
        if k == "UnaryOperator" and e.v == "!":
            return int(not self.ev(e.kids[0], val))
        if k == "ConditionalOperator":
            return self.ev(e.kids[1] if self.ev(e.kids[0], val) else e.kids[2], val)
        if k == "BinaryOperator" and e.v == "&&":
            return int(bool(self.ev(e.kids[0], val)) and bool(self.ev(e.kids[1], val)))
        if k == "BinaryOperator" and e.v == "||":
            return int(bool(self.ev(e.kids[0], val)) or bool(self.ev(e.kids[1], val)))
        if k == "BinaryOperator" and e.v in REL_OPS:
            ca, cb = const_int(e.kids[0]), const_int(e.kids[1])
            if ca is None and cb is None:
                fwd, i = self._pair(e.kids[0], e.kids[1])
                s = val[i] if fwd else -val[i]
            else:
                s = self.ev(e.kids[0], val) - self.ev(e.kids[1], val)
            return int({"<": s < 0, ">": s > 0, "<=": s <= 0, ">=": s >= 0, "==": s == 0, "!=": s != 0}[e.v])
        if k == "CallExpr" and callee(e) == ("fn", "memcmp"):
            for i in range(self.memcmp_n):
                if val.get(i, 0):
                    return val[i]
            return 0
        if c is not None:
            return c
        if k == "BinaryOperator" and e.v in ("-", "+", "*", "/", "^", "&", "|", ">>", "<<"):
            raise _Arith("arithmetic '%s' on the operands" % e.v)
        if k in ("CStyleCastExpr",):
            raise _Arith("cast to %s" % e.t)
        raise AnalysisError("CMP-MACRO: unrecognised expression %s (%s) at %s:%s" % (text(e)[:60], k, e.f, e.l))

    def table(self):
        """list of (valuation, got, want); raises _Arith"""
        ds = self.digits()
        rows = []
        for signs in itertools.product((-1, 0, 1), repeat=len(ds)):
            val = dict(zip(ds, signs))
            want = 0
            for d in ds:
                if val[d]:
                    want = val[d]
                    break
            got = self.ev(self.e, val)
            got = (got > 0) - (got < 0)
            rows.append((signs, got, want))
        return rows


def _core(e):
    """strip a wrapping comparison of the macro result with an outside constant"""
    x = _strip_all(e)
    while x.k == "BinaryOperator" and x.v in REL_OPS and const_int(x.kids[1]) is not None \
            and _strip_all(x.kids[1]).mo is None:
        x = _strip_all(x.kids[0])
    return x


def _through_helper(expr, macro, where, findings, site, tu):
    """the comparison factored into a function `int f(a, b) { return <cmp>; }`:
    -> the function's return expression, after checking that passing the
    operands does not change their values (parameter types as wide as, and of
    the same signedness as, the operands)"""
    x = _strip_all(expr)
    while x is not None and x.k == "CStyleCastExpr":
        x = _strip_all(x.kids[0])
    if tu is None or x is None or x.k != "CallExpr":
        return expr
    c = callee(x)
    if c[0] != "fn" or c[1] not in tu.funcs or tu.body(c[1]) is None:
        return expr
    rets = [n for n in tu.body(c[1]).walk() if n.k == "ReturnStmt" and n.kids]
    stmts = [n for n in tu.body(c[1]).kids if n.k not in ("NullStmt",)]
    if len(rets) != 1 or len(stmts) != 1:
        return expr
    from .convert import narrowing
    params = tu.params(c[1])
    for a, p in zip(x.kids[1:], params):
        src = (_strip_all(a).t or "").strip()
        dst = (p.t or "").strip()
        if src != dst and narrowing(src, dst):
            findings.append(dict(
                rule="CMP-MACRO", function="(macro) %s" % macro, file=site.sf or site.f, line=site.sl or site.l,
                construct="%s passes a %s operand to %s(%s %s): the value changes before it is compared"
                          % (macro, src, c[1], dst, p.n),
                detail="the comparison helper takes its operands as %s; a %s key is converted on the "
                       "way in (values of 2**63 and more become negative / the high half is cut off), "
                       "so large keys sort before small ones; expanded at %s" % (dst, src, where), path=[]))
    return rets[0].kids[0]


def _check_threeway(expr, macro, where, findings, site, tu=None):
    try:
        expr = _through_helper(expr, macro, where, findings, site, tu)
        tw = ThreeWay(expr)
        if tw.K is None:
            raise AnalysisError("CMP-MACRO: no comparison found in %s expansion at %s" % (macro, where))
        bad = [(s, g, w) for s, g, w in tw.table() if g != w]
        n = len(tw.digits())
        if bad:
            s, g, w = bad[0]
            what = ("operand ordering %s gives %s instead of %s (%d of %d orderings wrong)"
                    % (list(s), g, w, len(bad), 3 ** n))
            if tw.memcmp_n is not None and tw.memcmp_n < (tw.width or 0):
                what = "memcmp over %d of the %d bytes: %s" % (tw.memcmp_n, tw.width, what)
            findings.append(dict(
                rule="CMP-MACRO", function="(macro) %s" % macro, file=site.sf or site.f, line=site.sl or site.l,
                construct="%s is not the sign of (a - b): %s" % (macro, what),
                detail="every search / merge / set-operation decision takes this "
                       "macro as the three-way comparison of its operands; expanded at %s" % where, path=[]))
        if tw.memcmp_n is not None and tw.memcmp_n > (tw.width or 0):
            findings.append(dict(
                rule="CMP-MACRO", function="(macro) %s" % macro, file=site.sf or site.f, line=site.sl or site.l,
                construct="%s compares %d bytes of %d-byte operands" % (macro, tw.memcmp_n, tw.width),
                detail="memcmp reads past the operands; expanded at %s" % where, path=[]))
        return 3 ** n
    except _Arith as a:
        findings.append(dict(
            rule="CMP-MACRO", function="(macro) %s" % macro, file=site.sf or site.f, line=site.sl or site.l,
            construct="%s computes its result by %s" % (macro, a.what),
            detail="a three-way comparison obtained by arithmetic on the operands "
                   "overflows or truncates for part of the domain (differences "
                   "of 2**31 and more, fractional differences); only relational "
                   "operators decide the order; expanded at %s" % where, path=[]))
        return 1


def _pending_call(e):
    x = _strip_all(e)
    if x.k == "CallExpr" and callee(x) == ("fn", "PyErr_Occurred"):
        return True
    if x.k == "BinaryOperator" and x.v == "!=" and const_int(x.kids[1]) == 0:
        return _pending_call(x.kids[0])
    return False


def _errtest_value(e, res, pending):
    """truth of the error-test part of TEST_KEY_SET_OR given the comparison
    result and whether an exception is pending"""
    x = _strip_all(e)
    if _pending_call(x):
        return pending
    c = const_int(x)
    if c is not None:
        return bool(c)
    if x.k == "BinaryOperator" and x.v == "&&":
        return _errtest_value(x.kids[0], res, pending) and _errtest_value(x.kids[1], res, pending)
    if x.k == "BinaryOperator" and x.v == "||":
        return _errtest_value(x.kids[0], res, pending) or _errtest_value(x.kids[1], res, pending)
    if x.k == "BinaryOperator" and x.v == ",":
        return _errtest_value(x.kids[1], res, pending)
    if x.k == "UnaryOperator" and x.v == "!":
        return not _errtest_value(x.kids[0], res, pending)
    if x.k == "BinaryOperator" and x.v in REL_OPS and const_int(x.kids[1]) is not None:
        l = _strip_all(x.kids[0])
        if l.k == "BinaryOperator" and l.v == "=" or l.k == "DeclRefExpr":
            s = res - const_int(x.kids[1])
            return {"<": s < 0, ">": s > 0, "<=": s <= 0, ">=": s >= 0, "==": s == 0, "!=": s != 0}[x.v]
    if x.k == "BinaryOperator" and x.v == "=":
        return bool(res)
    raise AnalysisError("CMP-MACRO: unrecognised error test %s at %s:%s" % (text(x)[:80], x.f, x.l))


def _find_assign(e):
    for n in e.walk():
        if n.k == "BinaryOperator" and n.v == "=":
            return n
    return None


def cmp_macros(tu):
    findings = []
    n = 0
    key_sites = val_sites = 0

    def visit(node, parent_mi, fname):
        nonlocal n, key_sites, val_sites
        if node.k == "IfStmt" and node.mi == "TEST_KEY_SET_OR":
            key_sites += 1
            where = "%s (%s:%s)" % (fname, node.f, node.l)
            cond = node.kids[0]
            asg = _find_assign(cond)
            if asg is None:
                raise AnalysisError("CMP-MACRO: TEST_KEY_SET_OR expansion without assignment at %s" % where)
            rhs = asg.kids[1]
            is_obj = _has_call(rhs, "PyObject_RichCompareBool")
            if is_obj:
                # the assigned value must be the COMPARE cascade itself
                r = _strip_all(rhs)
                if r.k != "ConditionalOperator":
                    findings.append(dict(
                        rule="CMP-MACRO", function="(macro) TEST_KEY_SET_OR", file=node.sf or node.f,
                        line=node.sl or node.l,
                        construct="TEST_KEY_SET_OR alters the COMPARE result (%s)" % r.k,
                        detail="the comparison result must be stored unchanged; expanded at %s" % where, path=[]))
                for res, pending in itertools.product((-1, 0, 1), (False, True)):
                    n += 1
                    if _errtest_value(cond, res, pending) != pending:
                        findings.append(dict(
                            rule="CMP-MACRO", function="(macro) TEST_KEY_SET_OR", file=node.sf or node.f,
                            line=node.sl or node.l,
                            construct="error test of TEST_KEY_SET_OR is %s for result %+d with%s pending exception"
                                      % (not pending, res, "" if pending else "out"),
                            detail="COMPARE reports a raising comparison only "
                                   "through the pending exception (its value is "
                                   "-1 when '<' raised and +1 when '==' raised), "
                                   "so the error branch must be taken exactly "
                                   "when an exception is pending; expanded at %s" % where, path=[]))
            else:
                n += _check_threeway(rhs, "TEST_KEY_SET_OR", where, findings, node, tu)
                for res in (-1, 0, 1):
                    n += 1
                    if _errtest_value(cond, res, False):
                        findings.append(dict(
                            rule="CMP-MACRO", function="(macro) TEST_KEY_SET_OR", file=node.sf or node.f,
                            line=node.sl or node.l,
                            construct="error branch of TEST_KEY_SET_OR taken for result %+d of a comparison that cannot fail" % res,
                            detail="expanded at %s" % where, path=[]))
            return
        if node.mi == "TEST_VALUE" and parent_mi != "TEST_VALUE" and node.k not in (
                "IfStmt", "CompoundStmt", "DeclStmt", "VarDecl"):
            val_sites += 1
            where = "%s (%s:%s)" % (fname, node.f, node.l)
            core = _core(node)
            if not _has_call(core, "PyObject_RichCompareBool"):
                n += _check_threeway(core, "TEST_VALUE", where, findings, node, tu)
            else:
                n += 1
            return
        for c in node.kids:
            visit(c, node.mi, fname)

    for name in tu.order:
        b = tu.body(name)
        if b is not None:
            visit(b, None, name)
    return dict(findings=findings, n=n, key_sites=key_sites, val_sites=val_sites)


def tu_check(tu):
    return cmp_macros(tu)


def extend(res, use_cache=True, macros=("TEST_KEY_SET_OR", "TEST_VALUE")):
    """run CMP-MACRO over all translation units and add its findings to res"""
    from .. import engine
    out = engine.map_tus("sa.rules.cmpmacro", "tu_check", use_cache=use_cache)
    n = 0
    for fam, r in sorted(out.items()):
        fs = [f for f in r["findings"] if any(m in f["function"] for m in macros)]
        res.findings.extend(fs, fam)
        n += r["n"]
        if r["key_sites"] < 6 or r["val_sites"] < 2:     # (factoring repeated comparisons into helpers lowers the counts)
            raise AnalysisError("CMP-MACRO: %s has %d key / %d value comparison sites (anchor vanished)"
                                % (fam, r["key_sites"], r["val_sites"]))
    if len(out) < 22:
        raise AnalysisError("CMP-MACRO: %d translation units" % len(out))
    res.count("CMP-MACRO", n)
    if "CMP-MACRO" not in res.rules:
        res.rules.append("CMP-MACRO")
    return n
