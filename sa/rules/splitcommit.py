"""SPLIT-COMMIT (C17, C03): once a node split has linked the new sibling into
the leaf chain, nothing may fail before the sibling is a child of its parent.

bucket_split / BTree_split move the upper half of a node into a fresh sibling
and (for leaves) make it the node's successor.  Their caller owns the only
other reference; if it returns an error after the split succeeded but before
`d->child = e; self->len++`, the sibling stays linked in the chain without
being anybody's child: its keys are still iterated but can no longer be looked
up, and `_check()` fails - after a plain MemoryError.

Two path rules on the CFG:

* caller side: from the success edge of the test of a split call's result
  until the sibling has been stored into a `->child` slot and the parent's
  `len` has been increased, no return is reachable;
* callee side (the split functions themselves): after the first store into
  the node being split (`self->len`, `self->next`) or of the sibling's `len`
  (from then on the sibling's destructor releases entries the original node
  still owns), no error return.
"""
from ..cir import strip, path, callee, const_int, text
from ..cfg import CFG
from ..flow import Analysis, sget, sset, sdel, witness_lines

SPLITTERS = ("bucket_split", "BTree_split")


class CallerSide(Analysis):
    def __init__(self, cfg, tu):
        Analysis.__init__(self, cfg, tu)
        self.reports = []
        self._seen = set()
        self.split_sites = set()

    def _walk(self, node, st, e):
        for c in e.kids:
            st = self._walk(node, st, c)
        if e.k == "BinaryOperator" and e.v == "=":
            r = strip(e.kids[1])
            lp = path(e.kids[0])
            if r is not None and r.k == "CallExpr" and callee(r)[0] == "fn" and \
                    callee(r)[1] in SPLITTERS and lp is not None:
                self.split_sites.add(node.id)
                sib = path(strip(r.kids[3]))if len(r.kids) > 3 else None
                # result variable -> the sibling argument
                st = sset(st, "r:" + lp, "%s|%s" % (callee(r)[1], sib))
            elif lp is not None and lp.endswith("child") and sget(st, "p:split") is not None:
                st = sset(st, "p:stored", 1)
        if e.k in ("UnaryOperator", "CompoundAssignOperator") and e.kids:
            lp = path(e.kids[0])
            if lp is not None and lp.endswith("->len") and sget(st, "p:stored") and \
                    (e.k == "CompoundAssignOperator" or e.v in ("++", "post++")):
                st = sdel(sdel(st, "p:split"), "p:stored")
        return st

    def on_node(self, node, st):
        if node.kind == "return" and sget(st, "p:split") is not None:
            key = node.id
            if key not in self._seen:
                self._seen.add(key)
                self.reports.append((node, st, sget(st, "p:split")))
        if node.e is None:
            return [st]
        return [self._walk(node, st, node.e)]

    def on_edge(self, node, label, st):
        if label not in ("T", "F") or node.e is None:
            return st
        e = strip(node.e)
        if e is not None and e.k == "BinaryOperator" and e.v in ("<", ">=") and \
                const_int(e.kids[1]) == 0:
            v = path(e.kids[0])
            info = sget(st, "r:" + v) if v else None
            if info is not None:
                failed = (e.v == "<") == (label == "T")
                st = sdel(st, "r:" + v)
                if not failed:
                    st = sset(st, "p:split", "%s at %s" % (info, node.where))
        return st


class CalleeSide(Analysis):
    def __init__(self, cfg, tu):
        Analysis.__init__(self, cfg, tu)
        self.reports = []
        self._seen = set()
        self.params = [k.n for k in cfg.fn.kids if k.k == "ParmVarDecl"]
        self.commit_sites = set()
        self.accepted = set()

    def _walk(self, node, st, e):
        for c in e.kids:
            st = self._walk(node, st, c)
        if e.k == "BinaryOperator" and e.v == "=":
            lp = path(e.kids[0])
            sib = self.params[2] if len(self.params) > 2 else None
            if lp in ("%s->len" % self.params[0], "%s->next" % self.params[0]) or \
                    (sib is not None and lp == "%s->len" % sib and const_int(e.kids[1]) != 0):
                self.commit_sites.add(node.id)
                if sget(st, "m:") is None:
                    st = sset(st, "m:", "%s at %s" % (lp, node.where))
        return st

    def on_edge(self, node, label, st):
        # accepted idiom: the change registration itself (the last step of the
        # split) reports failure - nothing is allocated after the commit
        if node.e is not None and "->changed(" in text(node.e):
            self.accepted.add("%s: return guarded by the result of PER_CHANGED(%s)" % (
                self.cfg.name, self.params[0]))
            return sset(st, "k:", 1)
        return st

    def on_node(self, node, st):
        if node.kind == "return" and sget(st, "m:") is not None and not sget(st, "k:") and \
                not (node.e is not None and "->changed(" in text(node.e)):
            v = const_int(node.e) if node.e is not None else None
            if v is None or v < 0:
                if node.id not in self._seen:
                    self._seen.add(node.id)
                    self.reports.append((node, st, sget(st, "m:")))
        if node.e is None:
            return [st]
        return [self._walk(node, st, node.e)]


def analyse_tu(tu):
    findings = []
    sites = commits = 0
    accepted = set()
    for name in tu.order:
        fn = tu.funcs[name]
        if name in SPLITTERS:
            an = CalleeSide(CFG(fn), tu)
            an.solve()
            commits += len(an.commit_sites)
            accepted |= an.accepted
            for node, st, what in an.reports:
                findings.append(dict(
                    rule="SPLIT-COMMIT", function=name, file=node.where.split(":")[0],
                    line=node.line,
                    construct="failure return after %s was stored" % what.split(" at ")[0],
                    detail="%s has already modified the node being split (%s) "
                           "when it returns an error: the caller discards the "
                           "new sibling and the moved entries are lost or stay "
                           "linked without a parent" % (name, what),
                    path=witness_lines(an.witness(node, st))))
            continue
        if not any(n.k == "CallExpr" and callee(n)[0] == "fn" and callee(n)[1] in SPLITTERS
                   for n in fn.walk()):
            continue
        an = CallerSide(CFG(fn), tu)
        an.solve()
        sites += len(an.split_sites)
        for node, st, what in an.reports:
            cal, rest = what.split("|", 1)
            sib = rest.split(" at ")[0]
            findings.append(dict(
                rule="SPLIT-COMMIT", function=name, file=node.where.split(":")[0],
                line=node.line,
                construct="return %s after %s succeeded, before %s is stored as a child" % (
                    text(node.e)[:30] if node.e is not None else "", cal, sib),
                detail="%s succeeded (tested at %s): the new sibling %s is "
                       "already linked behind the node that was split. This "
                       "return is reached before `->child = %s` and the "
                       "parent's len++: the sibling stays in the leaf chain "
                       "without a parent (its keys are iterated but not found; "
                       "_check() fails)" % (cal, rest.split(" at ")[-1], sib, sib),
                path=witness_lines(an.witness(node, st))))
    return dict(findings=findings, stats={"split_call_sites": sites, "split_commit_stores": commits,
                                         "accepted": sorted(accepted)})
