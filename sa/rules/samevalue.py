"""SAME-VALUE (C04, C06): "the new value equals the old one" is a reason to skip
the store - and the change registration - only for native values.

For an int or float slot equal values are the same state.  For object values
they are not: the identical object may have been mutated in place (`v = t[k];
v.append(x); t[k] = v` is the documented way to store a changed non-persistent
value), and `==` of two objects does not mean equal pickles (1 == True == 1.0).
C:      in a translation unit whose value slots hold object pointers no
        function that stores into `->values[..]` compares such a slot for
        (in)equality.
Python: a comparison of the new value with `self._values[index]` in a method
        that stores into `self._values` must be conjoined with a class
        attribute that is the constant False for the object-valued base class
        and that `_module_builder` does not switch on.
"""
import ast

from ..cir import strip, callee, text
from ..common import AnalysisError, SRC
from .. import pyfront

REL = SRC + "/_base.py"


def _is_values_slot(e):
    e = strip(e)
    if e is None or e.k != "ArraySubscriptExpr":
        return False
    b = strip(e.kids[0])
    return b is not None and b.k == "MemberExpr" and b.n == "values"


def analyse_tu(tu):
    findings = []
    n = 0
    for name in tu.order:
        body = tu.body(name)
        if body is None:
            continue
        stores = [x for x in body.walk() if x.k == "BinaryOperator" and x.v == "=" and _is_values_slot(x.kids[0])]
        if not stores:
            continue
        n += 1
        obj = any("PyObject *" in (strip(x.kids[0]).t or "") for x in stores)
        if not obj:
            continue
        for x in body.walk():
            if x.k == "BinaryOperator" and x.v in ("==", "!=") and (
                    _is_values_slot(x.kids[0]) or _is_values_slot(x.kids[1])):
                other = x.kids[1] if _is_values_slot(x.kids[0]) else x.kids[0]
                from ..cir import const_int
                if const_int(other) == 0:
                    continue                      # NULL test of a slot
                findings.append(dict(
                    rule="SAME-VALUE", function=name, file=x.f, line=x.l,
                    construct="object value slot compared for identity in %s" % name,
                    detail="in this family values are object pointers: `%s` says nothing about "
                           "whether the stored state changed (the same list may have been "
                           "appended to). Skipping the store and PER_CHANGED on it loses the "
                           "documented `t[k] = v` re-assignment of a mutated value at commit"
                           % text(x)[:60], path=[]))
    return dict(findings=findings, n=n)


def py_check(res):
    tree = pyfront.base_py()
    cls = pyfront.classes(tree)
    n = 0
    consts = {}
    for cname, c in cls.items():
        for st in c.body:
            if isinstance(st, ast.Assign) and len(st.targets) == 1 and isinstance(st.targets[0], ast.Name) \
                    and isinstance(st.value, ast.Constant):
                consts.setdefault(st.targets[0].id, {})[cname] = st.value.value
    # attributes _module_builder sets on the generated classes
    mb = pyfront.module(SRC + "/_module_builder.py")
    mb_names = set(k.arg for c in ast.walk(mb) if isinstance(c, ast.Call) for k in c.keywords if k.arg) | \
        set(x.value for x in ast.walk(mb) if isinstance(x, ast.Constant) and isinstance(x.value, str))
    for cname, c in cls.items():
        for fn in c.body:
            if not isinstance(fn, ast.FunctionDef):
                continue
            # locals with one definition are read through (`values = self._values`,
            # `old_value = self._values[index]`)
            defs = {}
            for a in ast.walk(fn):
                if isinstance(a, ast.Assign) and len(a.targets) == 1 and isinstance(a.targets[0], ast.Name):
                    defs.setdefault(a.targets[0].id, []).append(a.value)
            params = set(x.arg for x in fn.args.args)

            def resolved(e, depth=0):
                if isinstance(e, ast.Name) and e.id not in params and len(defs.get(e.id, ())) == 1 and depth < 4:
                    return resolved(defs[e.id][0], depth + 1)
                if isinstance(e, ast.Subscript):
                    return "%s[%s]" % (resolved(e.value, depth), pyfront.unparse(e.slice))
                return pyfront.unparse(e)
            writes = any(isinstance(a, ast.Assign) and any(
                isinstance(t, ast.Subscript) and resolved(t.value) == "self._values" for t in a.targets)
                for a in ast.walk(fn))
            if not writes:
                continue
            for cmp_ in ast.walk(fn):
                if not (isinstance(cmp_, ast.Compare) and len(cmp_.ops) == 1 and
                        isinstance(cmp_.ops[0], (ast.Eq, ast.NotEq, ast.Is, ast.IsNot))):
                    continue
                sides = [resolved(cmp_.left), resolved(cmp_.comparators[0])]
                if not any(s.startswith("self._values[") for s in sides):
                    continue
                n += 1
                # the guard: an `and` chain containing self.<ATTR> with ATTR constant False
                guard_ok = False
                p = cmp_
                while getattr(p, "_parent", None) is not None:
                    par = p._parent
                    conj = []
                    if isinstance(par, ast.BoolOp) and isinstance(par.op, ast.And):
                        conj = list(par.values)
                    elif isinstance(par, ast.If) and any(p is b or any(x is p for x in ast.walk(b)) for b in par.body):
                        # the comparison sits in the branch taken when the test holds
                        conj = list(par.test.values) if isinstance(par.test, ast.BoolOp) and \
                            isinstance(par.test.op, ast.And) else [par.test]
                    for v in conj:
                        if isinstance(v, ast.Attribute) and pyfront.unparse(v.value) == "self":
                            vals = consts.get(v.attr, {})
                            if vals and all(x is False for x in vals.values()) and v.attr not in mb_names:
                                guard_ok = True
                    p = par
                if not guard_ok:
                    res.findings.add(dict(
                        rule="SAME-VALUE", function="%s.%s" % (cname, fn.name), file=REL, line=cmp_.lineno,
                        construct="equal-value shortcut in %s.%s is not switched off for object values" % (cname, fn.name),
                        detail="`%s` skips the store and `_p_changed` when the new value compares equal "
                               "to the old one; for object values equal is not unchanged (a list mutated "
                               "in place and re-assigned, 1 == True == 1.0): the update never reaches the "
                               "database and the pickles differ from the C implementation's"
                               % pyfront.unparse(cmp_)[:60], path=[]))
    res.count("PY-SAME-VALUE", max(1, n))
    if n < 1:
        raise AnalysisError("anchor vanished: the equal-value test of the Python bucket store")
