"""Set algebra (C10) and weighted operations (C12): decision tables.

For each entry point (difference / union / intersection / weightedUnion /
weightedIntersection), each combination of None-ness and kind (mapping / set)
of the two operands, each liveness pattern of the two cursors and each sign of
the key comparison, the first action of the implementation is extracted by
propagating that valuation through the code: which operand's key is emitted,
the emitted value as a polynomial over (v1, v2, w1, w2), which cursors advance,
the kind of the result, and the returned weight.  The C tables (per
translation unit) and the Python tables are compared with a specification
table written from Interfaces.py.
"""
import ast
import itertools

from ..cir import strip, path, callee, text, const_int
from ..common import AnalysisError, SRC
from .. import pyfront
from .length import p_add, p_mul, p_const, p_var, show

REL = SRC + "/_base.py"
ENTRY = {"difference": "difference_m", "union": "union_m", "intersection": "intersection_m",
         "weightedUnion": "wunion_m", "weightedIntersection": "wintersection_m"}
NARROW = {("NARROWED",): 1}


class Cursor(object):
    def __init__(self, op, uses, default=None):
        self.op = op            # "A" / "B"
        self.uses = uses        # iterates values?
        self.default = default  # polynomial used as value when not iterating values

    def copy(self):
        return Cursor(self.op, self.uses, self.default)

    def value(self):
        if self.uses:
            return p_var("v" + self.op)
        return self.default


class Result(object):
    def __init__(self, kind):
        self.kind = kind


class Sit(object):
    """A situation (valuation)."""
    def __init__(self, entry, noneA, noneB, kA, kB, lA, lB, sign):
        self.entry, self.noneA, self.noneB = entry, noneA, noneB
        self.kind = {"A": kA, "B": kB}
        self.live = {"A": lA, "B": lB}
        self.sign = sign

    def key(self):
        if self.noneA or self.noneB:
            return "%s(%s, %s)" % (self.entry, "None" if self.noneA else "x",
                                   "None" if self.noneB else "y")
        s = ""
        if self.live["A"] and self.live["B"]:
            s = " a%sb" % "<=>"[self.sign + 1]
        return "%s(%s a, %s b) live=%s%s%s" % (
            self.entry, self.kind["A"], self.kind["B"],
            "A" if self.live["A"] else "", "B" if self.live["B"] else "", s)


def situations(entry):
    out = {}
    for na, nb in ((True, True), (True, False), (False, True)):
        s = Sit(entry, na, nb, "set", "set", False, False, 0)
        out[s.key()] = s
    for kA, kB in itertools.product(("map", "set"), repeat=2):
        for lA, lB in itertools.product((True, False), repeat=2):
            for sg in ((-1, 0, 1) if (lA and lB) else (0,)):
                s = Sit(entry, False, False, kA, kB, lA, lB, sg)
                out[s.key()] = s
    return out


class Act(object):
    def __init__(self):
        self.outk, self.outv, self.adv = [], [], []
        self.final = None       # ('ret', ...) / ('error', ...)
        self.armed = False      # becomes True at the first loop (priming calls ignored)

    def canon(self, rkind):
        if self.final is not None:
            return self.final
        if len(self.outk) > 1:
            return ("weird", "emits %d keys" % len(self.outk))
        emit = None
        if self.outk:
            emit = (self.outk[0], show(self.outv[0]) if self.outv else None)
        return ("step", rkind, emit, "".join(sorted(set(self.adv))))


class _Stop(Exception):
    pass


def _is_narrowing(src_t, dst_t, cast):
    if cast == "FloatingToIntegral":
        return True
    w = {"int": 32, "unsigned int": 32, "long": 64, "unsigned long": 64,
         "long long": 64, "unsigned long long": 64, "short": 16, "char": 8}
    if cast == "IntegralCast" and src_t in w and dst_t in w:
        return w[dst_t] < w[src_t]
    return False


# ---------------------------------------------------------------------------
# C

class CSetOp(object):
    def __init__(self, tu, sit):
        self.tu = tu
        self.sit = sit
        self.act = Act()
        self.rkind = None
        self.depth = 0

    # -- expression evaluation -------------------------------------------------
    def ev(self, e, env):
        k = e.k
        if k == "ParenExpr":
            return self.ev(e.kids[0], env)
        if k == "ImplicitCastExpr" or k == "CStyleCastExpr":
            v = self.ev(e.kids[0], env)
            if isinstance(v, dict) and _is_narrowing((e.kids[0].t or "").strip(),
                                                     (e.t or "").strip(), e.v):
                return p_mul(v, NARROW)
            return v
        if k == "IntegerLiteral":
            return int(e.v)
        if k == "FloatingLiteral":
            f = float(e.v)
            if f != int(f):
                raise AnalysisError("set-op table: non-integral constant %s" % e.v)
            return int(f)
        if k == "DeclRefExpr":
            if e.n in env:
                v = env[e.n]
                if isinstance(v, tuple) and v and v[0] == "ref" and isinstance(env.get(v[1]), Cursor):
                    return env[v[1]]          # a pointer to a cursor that has been initialised since
                return v
            if e.n == "_Py_NoneStruct":
                return ("none",)
            if e.n in ("BucketType", "SetType", "BTreeType", "TreeSetType"):
                return ("type", "map" if e.n in ("BucketType", "BTreeType") else "set")
            raise AnalysisError("set-op table: unknown variable %s at %s:%s" % (e.n, e.f, e.l))
        if k == "UnaryOperator":
            if e.v == "&":
                x = strip(e.kids[0])
                if x.k == "DeclRefExpr" and "SetIteration" in (x.t or "") and "*" not in (x.t or ""):
                    cur = env.get(x.n)
                    if not isinstance(cur, Cursor):
                        return ("ref", x.n)      # a cursor that is initialised later
                return self.ev(e.kids[0], env)
            if e.v == "!":
                return int(not self.truth(self.ev(e.kids[0], env)))
            if e.v in ("post++", "++"):
                return 0
            if e.v == "-":
                v = self.ev(e.kids[0], env)
                return -v if isinstance(v, int) else p_mul(p_const(-1), v)
            if e.v == "*":
                v = self.ev(e.kids[0], env)
                if isinstance(v, tuple) and v and v[0] in ("key", "slot"):
                    return v        # element of a byte-array key (fs family)
        if k == "MemberExpr":
            b = self.ev(e.kids[0], env)
            if isinstance(b, tuple) and b and b[0] == "ref":
                b = env.get(b[1], b)
            if isinstance(b, Cursor):
                if e.n == "usesValue":
                    return int(b.uses)
                if e.n == "value":
                    v = b.value()
                    if v is None:
                        raise AnalysisError("set-op table: value of a key-only cursor used at %s:%s" % (e.f, e.l))
                    return v
                if e.n == "key":
                    return ("key", b.op)
                if e.n == "position":
                    return ("pos", b.op)
                if e.n == "next":
                    return ("next", b)
            if isinstance(b, Result):
                if e.n == "ob_type":
                    return ("type", b.kind)
                if e.n in ("len", "size"):
                    return ("rlen",)
                if e.n in ("keys", "values"):
                    return ("rarr", e.n)
            if isinstance(b, tuple) and b and b[0] == "obj" and e.n == "ob_type":
                return ("type?",)
            raise AnalysisError("set-op table: member %s of %r at %s:%s" % (e.n, b, e.f, e.l))
        if k == "ArraySubscriptExpr":
            b = self.ev(e.kids[0], env)
            if isinstance(b, tuple) and b[0] == "rarr":
                return ("slot", b[1])
            if isinstance(b, tuple) and b and b[0] in ("key", "slot"):
                return b            # byte of a byte-array key (fs family)
            raise AnalysisError("set-op table: subscript at %s:%s" % (e.f, e.l))
        if k == "ConditionalOperator":
            # a key comparison (COMPARE / int compare expansion) mentions two cursor keys
            ks = self._keys_in(e, env)
            if len(ks) == 2:
                return self.sg(ks[0], ks[1])
            c = self.ev(e.kids[0], env)
            if isinstance(c, tuple) and c and c[0] == "undet":
                return ("depends on " + c[1],)
            return self.ev(e.kids[1] if self.truth(c) else e.kids[2], env)
        if k == "BinaryOperator":
            op = e.v
            if op == ",":
                self.ev(e.kids[0], env)
                return self.ev(e.kids[1], env)
            if op == "&&":
                # allocation guard: r->len >= r->size && Bucket_grow(...) < 0
                if any(n.k == "CallExpr" and callee(n) == ("fn", "Bucket_grow") for n in e.walk()):
                    return 0
                return int(self.truth(self.ev(e.kids[0], env)) and self.truth(self.ev(e.kids[1], env)))
            if op == "||":
                return int(self.truth(self.ev(e.kids[0], env)) or self.truth(self.ev(e.kids[1], env)))
            if op == "=":
                return self.assign(e.kids[0], e.kids[1], env)
            if op in ("==", "!=", "<", ">", "<=", ">=") and \
                    any(m.k == "MemberExpr" and m.n == "size" for m in e.kids[1].walk()) and \
                    any(m.k == "MemberExpr" and m.n == "len" for m in e.kids[0].walk()):
                # capacity test of the result (len against size): the result has room -
                # growing it is not part of the table
                return int({">=": False, ">": False, "==": False, "<": True, "<=": True, "!=": True}[op])
            if op in ("==", "!=", "<", ">", "<=", ">="):
                ks = self._keys_in(e, env)
                a = self.ev(e.kids[0], env)
                b = self.ev(e.kids[1], env)
                if isinstance(a, tuple) and a[0] == "pos" and isinstance(b, int):
                    if op == ">=" and b == 0:
                        return int(self.sit.live[a[1]])
                    if op == "<" and b == 0:
                        return int(not self.sit.live[a[1]])
                    raise AnalysisError("set-op table: position test %s" % text(e))
                if a == ("rlen",) and isinstance(b, int) and b <= 0 and op in ("<", ">=", "<=", ">") and \
                        not (b == 0 and op in ("<=", ">")):
                    # a position in the result is not negative (success of a helper returning the slot)
                    return int({"<": False, ">=": True, "<=": False, ">": True}[op])
                if isinstance(a, tuple) and a[0] == "call<0":
                    return int({"<": False, ">=": True, "==": True, "!=": False}[op]) \
                        if b == 0 else 0
                # a live object compared with NULL
                for x, y in ((a, b), (b, a)):
                    if isinstance(y, int) and y == 0 and (
                            isinstance(x, (Result, Cursor)) or
                            (isinstance(x, tuple) and x and x[0] in ("obj", "tuple"))) and op in ("==", "!="):
                        return int(op == "!=")
                if isinstance(a, tuple) and isinstance(b, tuple):
                    if a[0] == "obj" and b == ("none",):
                        n = self.sit.noneA if a[1] == "A" else self.sit.noneB
                        return int(n if op == "==" else not n)
                    if a[0] in ("type",) and b[0] == "type":
                        return int((a[1] == b[1]) == (op == "=="))
                    if "type?" in (a[0], b[0]) and {a[0], b[0]} <= {"type?", "type"}:
                        # the concrete type of an *operand*: not a function of
                        # the table's atoms (a set operand may be a Set or a
                        # TreeSet, a mapping a Bucket or a BTree)
                        return ("undet", "the concrete type of an operand (%s)" % text(e)[:50])
                if isinstance(a, int) and isinstance(b, int):
                    return int({"==": a == b, "!=": a != b, "<": a < b, ">": a > b,
                                "<=": a <= b, ">=": a >= b}[op])
                raise AnalysisError("set-op table: comparison %s at %s:%s" % (text(e)[:60], e.f, e.l))
            if op in ("+", "-", "*", "|"):
                a, b = self.ev(e.kids[0], env), self.ev(e.kids[1], env)
                if op == "|" and isinstance(a, int) and isinstance(b, int):
                    return a | b
                if op in ("+", "-") and ("rlen",) in (a, b):
                    return ("rlen",)        # a position in the result (positions are not tracked)
                pa = p_const(a) if isinstance(a, int) else a
                pb = p_const(b) if isinstance(b, int) else b
                if isinstance(pa, dict) and isinstance(pb, dict):
                    if op == "+":
                        return p_add(pa, pb)
                    if op == "-":
                        return p_add(pa, pb, -1)
                    if op == "*":
                        return p_mul(pa, pb)
        if k == "CallExpr":
            return self.call(e, env)
        if k == "StringLiteral":
            return ("str", e.v)
        raise AnalysisError("set-op table: unrecognised expression %s (%s) at %s:%s"
                            % (text(e)[:70], k, e.f, e.l))

    def _keys_in(self, e, env):
        out = []
        for n in e.walk():
            if n.k == "MemberExpr" and n.n == "key":
                b = strip(n.kids[0])
                try:
                    c = self.ev(b, env)
                except AnalysisError:
                    continue
                if isinstance(c, Cursor) and c.op not in out:
                    out.append(c.op)
        return out

    def sg(self, a, b):
        if a == b:
            return 0
        return self.sit.sign if (a, b) == ("A", "B") else -self.sit.sign

    def truth(self, v):
        if isinstance(v, int):
            return v != 0
        if isinstance(v, (Cursor, Result)):
            return True
        if isinstance(v, tuple):
            if v[0] == "obj":
                return True
            if v[0] == "null":
                return False
            return True
        if isinstance(v, dict):
            raise AnalysisError("set-op table: branch on a symbolic weight/value")
        return bool(v)

    def assign(self, lhs, rhs, env):
        l0 = strip(lhs)
        val = self.ev(rhs, env)
        if l0.k == "DeclRefExpr":
            by_value = isinstance(val, Cursor) and "*" not in (l0.t or "")     # a struct copy; a pointer aliases
            env[l0.n] = val.copy() if by_value else val
            if isinstance(val, Result):
                self.rkind = val.kind
            return val
        if l0.k == "MemberExpr":
            b = self.ev(l0.kids[0], env)
            if isinstance(b, tuple) and b and b[0] == "ref":
                b = env.get(b[1], b)
            if isinstance(b, Cursor) and l0.n == "value":
                if isinstance(val, int):
                    val = p_const(val)
                b.default = val
                return val
            if isinstance(b, Result) and l0.n in ("len", "size") and val == ("rlen",):
                return val                  # the fill count moves on (like r->len++)
        if l0.k in ("ArraySubscriptExpr", "UnaryOperator"):
            tgt = self.ev(l0, env)
            if isinstance(tgt, tuple) and tgt[0] == "slot":
                if tgt[1] == "keys":
                    if not (isinstance(val, tuple) and val[0] == "key"):
                        raise AnalysisError("set-op table: key slot receives %r" % (val,))
                    if self.act.armed and not (self.act.outk and self.act.outk[-1] == val[1]
                                               and l0.k == "ArraySubscriptExpr" and
                                               strip(l0.kids[0]).k == "ArraySubscriptExpr"):
                        self.act.outk.append(val[1])
                else:
                    if isinstance(val, int):
                        val = p_const(val)
                    if self.act.armed:
                        self.act.outv.append(val)
                return val
        raise AnalysisError("set-op table: assignment to %s at %s:%s" % (text(lhs)[:50], lhs.f, lhs.l))

    def call(self, e, env):
        c = callee(e)
        args = e.kids[1:]
        if c[0] == "fn":
            n = c[1]
            if n in ("PyArg_ParseTuple",):
                outs = [strip(a) for a in args[2:]]
                names = [path(o.kids[0]) for o in outs]
                vals = [("obj", "A"), ("obj", "B"), p_var("w1"), p_var("w2")]
                for nm, v in zip(names, vals):
                    env[nm] = v
                return 1
            if n in ("Py_INCREF", "Py_DECREF", "Py_XDECREF", "finiSetIteration", "PyErr_SetString"):
                return 0
            if n == "Py_TYPE" and len(args) == 1:
                o = self.ev(args[0], env)
                if isinstance(o, Result):
                    return ("type", o.kind)
                if isinstance(o, tuple) and o and o[0] == "obj":
                    return ("type?",)
            if n == "PyErr_Occurred":
                return 0
            if n == "Bucket_grow":
                return ("call<0",)
            if n == "memcpy" and len(args) == 3:
                dst = self.ev(args[0], env)
                src = self.ev(args[1], env)
                if isinstance(dst, tuple) and dst[0] == "slot" and dst[1] == "values":
                    if isinstance(src, int):
                        src = p_const(src)
                    if self.act.armed:
                        self.act.outv.append(src)
                    return 0
            if n == "Py_BuildValue":
                vals = [self.ev(a, env) for a in args[1:]]
                return ("tuple", vals[0], vals[1])
            if n == "PyTuple_Pack" and len(args) == 3 and const_int(args[0]) == 2:
                w0 = self.ev(args[1], env)
                if isinstance(w0, tuple) and w0 and w0[0] == "wobj":
                    w0 = w0[1]
                return ("tuple", w0, self.ev(args[2], env))
            if n in ("PyLong_FromLong", "PyLong_FromLongLong", "PyLong_FromUnsignedLong",
                     "PyLong_FromUnsignedLongLong", "PyFloat_FromDouble", "longlong_as_object",
                     "ulonglong_as_object") and len(args) == 1:
                return ("wobj", self.ev(args[0], env))       # the object form of a weight / value: not NULL
            if n == "PyObject_CallObject":
                t = self.ev(args[0], env)
                if isinstance(t, tuple) and t[0] == "type":
                    r = Result(t[1])
                    self.rkind = t[1]
                    return r
            if n == "PyVar_Assign":
                tgt = strip(args[0])
                nm = path(tgt.kids[0])
                env[nm] = self.ev(args[1], env)
                return 0
            if n == "initSetIteration":
                cur = strip(args[0])
                nm = path(cur.kids[0])
                o = self.ev(args[1], env)
                uv = self.ev(args[2], env)
                if not (isinstance(o, tuple) and o[0] == "obj"):
                    raise AnalysisError("set-op table: initSetIteration on %r" % (o,))
                env[nm] = Cursor(o[1], bool(uv) and self.sit.kind[o[1]] == "map")
                return ("call<0",)
            if n in ("set_operation", "copyRemaining"):
                return self.inline(n, [self.ev(a, env) for a in args])
            if n in self.tu.funcs and n not in ("initSetIteration", "bucket_merge"):
                # a helper of the repository: interpret its body with the
                # parameters bound to the caller's values (cursors and the
                # result bucket are passed by reference)
                return self.inline(n, [self.ev(a, env) for a in args])
        if c[0] == "ptr":
            f = self.ev(strip(e.kids[0]), env)
            if isinstance(f, tuple) and f[0] == "next":
                if self.act.armed:
                    self.act.adv.append(f[1].op)
                return ("call<0",)
        raise AnalysisError("set-op table: unrecognised call %s at %s:%s" % (text(e)[:60], e.f, e.l))

    def inline(self, name, argvals):
        fn = self.tu.func(name)
        params = [k.n for k in fn.kids if k.k == "ParmVarDecl"]
        env = dict(zip(params, argvals))
        self.depth += 1
        if self.depth > 4:
            raise AnalysisError("set-op table: inlining too deep")
        ret = self.run_body(self.tu.body(name), env)
        self.depth -= 1
        return ret

    # -- statements ---------------------------------------------------------------
    class _Return(Exception):
        def __init__(self, v):
            self.v = v

    def run_body(self, body, env):
        try:
            self.stmt(body, env)
        except CSetOp._Return as r:
            return r.v
        return None

    def stmt(self, s, env):
        k = s.k
        if k == "CompoundStmt":
            for c in s.kids:
                self.stmt(c, env)
        elif k in ("NullStmt",):
            pass
        elif k == "DeclStmt":
            for v in s.kids:
                if v.k == "VarDecl":
                    init = [c for c in v.kids if c.k != "Absent"]
                    if init and init[-1].k != "InitListExpr":
                        val = self.ev(init[-1], env)
                        env[v.n] = val
                    elif init:
                        env[v.n] = ("uninit",)
        elif k == "IfStmt":
            if self.truth(self.ev(s.kids[0], env)):
                self.stmt(s.kids[1], env)
            elif len(s.kids) > 2:
                self.stmt(s.kids[2], env)
        elif k == "WhileStmt":
            self.act.armed = True
            if self.truth(self.ev(s.kids[0], env)):
                self.stmt(s.kids[-1], env)
                raise _Stop()
        elif k == "GotoStmt":
            if s.n == "invalid_set_operation":
                self.act.final = ("error", "TypeError")
            else:
                self.act.final = ("error", "propagated")
            raise _Stop()
        elif k == "LabelStmt":
            # reaching a label by fall-through: the error labels come after
            # the success return, so this is not expected
            raise AnalysisError("set-op table: fell into label %s" % s.n)
        elif k == "ReturnStmt":
            v = self.ev(s.kids[0], env) if s.kids else None
            raise CSetOp._Return(v)
        elif k.endswith("Stmt"):
            raise AnalysisError("set-op table: statement %s at %s:%s" % (k, s.f, s.l))
        else:
            self.ev(s, env)

    def run(self, entry_fn):
        fn = self.tu.func(entry_fn)
        params = [k.n for k in fn.kids if k.k == "ParmVarDecl"]
        env = {p: ("arg", p) for p in params}
        try:
            ret = self.run_body(self.tu.body(entry_fn), env)
        except _Stop:
            return self.act.canon(self.rkind)
        return _none_canon(_ret_canon(ret, self.act, self.rkind), self.sit)


def _ret_canon(ret, act, rkind):
    if act.final is not None:
        return act.final
    if isinstance(ret, tuple) and ret and ret[0] == "obj":
        return ("ret", None, ret[1])
    if isinstance(ret, tuple) and ret and ret[0] == "tuple":
        w, o = ret[1], ret[2]
        w = show(p_const(w)) if isinstance(w, int) else (w[0] if isinstance(w, tuple) else show(w))
        if isinstance(o, Result):
            return ("end", o.kind, w)
        if isinstance(o, tuple) and o[0] == "obj":
            return ("ret", w, o[1])
        if o is None or o == ("none",):
            return ("ret", w, "None")
    if isinstance(ret, Result):
        return ("end", ret.kind, None)
    if ret is None or ret == 0:
        return ("ret", None, "NULL")
    raise AnalysisError("set-op table: unrecognised result %r" % (ret,))


def _none_canon(c, sit):
    if c and c[0] == "ret" and c[2] in ("A", "B"):
        if (c[2] == "A" and sit.noneA) or (c[2] == "B" and sit.noneB):
            return ("ret", c[1], "None")
    return c


def c_table(tu, entry):
    fn = ENTRY[entry]
    if fn not in tu.funcs:
        return None
    out = {}
    for key, sit in situations(entry).items():
        out[key] = CSetOp(tu, sit).run(fn)
    return out


# ---------------------------------------------------------------------------
# Python

WIRING_FAULTS = []


def py_value_wiring():
    """How _module_builder wires MERGE / MERGE_WEIGHT / MERGE_DEFAULT for each
    numeric value datatype: {code: {"MERGE": FunctionDef, "MERGE_WEIGHT":
    FunctionDef, "MERGE_DEFAULT": constant}}, resolved through the ASTs of
    _module_builder.py, _datatypes.py and _base.py."""
    mb = pyfront.module(SRC + "/_module_builder.py")
    dt = pyfront.module(SRC + "/_datatypes.py")
    base = pyfront.base_py()
    cc = pyfront.functions(mb).get("_create_classes")
    if cc is None:
        raise AnalysisError("anchor vanished: _module_builder._create_classes")
    kw = None
    for n in ast.walk(cc):
        if isinstance(n, ast.Call) and isinstance(n.func, ast.Name) and n.func.id == "type" \
                and len(n.args) == 3 and isinstance(n.args[2], ast.Call) and \
                pyfront.unparse(n.args[2].func) == "dict":
            kw = {k.arg: k.value for k in n.args[2].keywords}
    if kw is None or not all(k in kw for k in ("MERGE", "MERGE_WEIGHT", "MERGE_DEFAULT")):
        raise AnalysisError("unrecognised idiom: class construction in _create_classes")
    vparam = [a.arg for a in cc.args.args][2]
    kparam = [a.arg for a in cc.args.args][1]
    del WIRING_FAULTS[:]

    def resolve(expr, code):
        if isinstance(expr, ast.Attribute) and isinstance(expr.value, ast.Name) \
                and expr.value.id == kparam:
            # wired to the *key* datatype: a finding, then analysed as written
            # for the value datatype so that the tables can still be built
            what = "%s taken from the key datatype (%s)" % (expr.attr, pyfront.unparse(expr))
            if what not in WIRING_FAULTS:
                WIRING_FAULTS.append(what)
            expr = ast.Attribute(value=ast.Name(id=vparam, ctx=ast.Load()), attr=expr.attr, ctx=ast.Load())
        if isinstance(expr, ast.Name):
            fn = pyfront.functions(base).get(expr.id)
            if fn is None:
                raise AnalysisError("_create_classes: %s is not a _base function" % expr.id)
            return fn
        if isinstance(expr, ast.Attribute) and isinstance(expr.value, ast.Name) \
                and expr.value.id == vparam:
            r = pyfront.resolve(dt, code, expr.attr)
            if r is None:
                raise AnalysisError("_datatypes.%s has no %s" % (code, expr.attr))
            cls, m = r
            if isinstance(m, ast.FunctionDef):
                return m
            mem = pyfront.class_members(pyfront.classes(dt)[cls])[expr.attr]
            if mem[0] == "expr" and isinstance(mem[1], ast.Constant):
                return mem[1].value
            raise AnalysisError("_datatypes.%s.%s: unrecognised definition" % (cls, expr.attr))
        raise AnalysisError("unrecognised idiom in _create_classes: %s" % pyfront.unparse(expr))
    out = {}
    for code in ("I", "L", "U", "Q", "F"):
        if code not in pyfront.classes(dt):
            raise AnalysisError("anchor vanished: _datatypes.%s" % code)
        out[code] = {k: resolve(kw[k], code) for k in ("MERGE", "MERGE_WEIGHT", "MERGE_DEFAULT")}
    return out


class PySetOp(object):
    def __init__(self, tree, sit, wiring=None):
        self.tree = tree
        self.sit = sit
        self.wiring = wiring
        self.act = Act()
        self.rkind = None
        self.funcs = pyfront.functions(tree)
        self.depth = 0

    class _Return(Exception):
        def __init__(self, v):
            self.v = v

    class _Continue(Exception):
        pass

    def _bind(self, target, v, env, st):
        if isinstance(target, ast.Name):
            env[target.id] = v
        elif isinstance(target, ast.Tuple) and isinstance(v, tuple) and v and v[0] == "tuple" \
                and len(v) - 1 == len(target.elts):
            for tt, vv in zip(target.elts, v[1:]):
                self._bind(tt, vv, env, st)
        else:
            raise AnalysisError("set-op table (py): binding %s line %s" % (pyfront.unparse(target), st.lineno))

    def truth(self, v):
        if isinstance(v, dict):
            raise AnalysisError("set-op table (py): branch on a symbolic value")
        if isinstance(v, (Cursor, Result)):
            return True
        if isinstance(v, tuple) and v and v[0] == "obj":
            if (v[1] == "A" and self.sit.noneA) or (v[1] == "B" and self.sit.noneB):
                return False
            raise AnalysisError("set-op table (py): truth value of an operand (runs user __bool__/__len__)")
        return bool(v)

    def ev(self, e, env):
        if isinstance(e, ast.Constant):
            return e.value
        if isinstance(e, ast.Name):
            if e.id in env:
                return env[e.id]
            if e.id in ("Set", "TreeSet"):
                return ("cls", "set")
            if e.id in ("Bucket", "Tree"):
                return ("cls", "map")
            if e.id in self.funcs:
                return ("fn", e.id)
            raise AnalysisError("set-op table (py): unknown name %s line %s" % (e.id, e.lineno))
        if isinstance(e, ast.Tuple):
            return ("tuple",) + tuple(self.ev(x, env) for x in e.elts)
        if isinstance(e, ast.UnaryOp) and isinstance(e.op, ast.Not):
            return not self.truth(self.ev(e.operand, env))
        if isinstance(e, ast.BoolOp):
            if isinstance(e.op, ast.And):
                for x in e.values:
                    if not self.truth(self.ev(x, env)):
                        return False
                return True
            for x in e.values:
                if self.truth(self.ev(x, env)):
                    return True
            return False
        if isinstance(e, ast.Attribute):
            b = self.ev(e.value, env)
            if isinstance(b, Cursor):
                if e.attr == "useValues":
                    return b.uses
                if e.attr == "active":
                    return self.sit.live[b.op]
                if e.attr == "key":
                    return ("key", b.op)
                if e.attr == "value":
                    v = b.value()
                    if v is None:
                        raise AnalysisError("set-op table (py): value of a key-only cursor")
                    return v
                if e.attr == "advance":
                    return ("advance", b)
            if isinstance(b, Result) and e.attr in ("_keys", "_values"):
                return ("rarr", e.attr)
            if isinstance(b, tuple) and b and b[0] == "obj":
                if e.attr == "_mapping_type":
                    return ("ctor", "map")
                if e.attr == "_set_type":
                    return ("ctor", "set")
            if isinstance(b, tuple) and b and b[0] == "rarr" and e.attr == "append":
                return ("append", b[1])
            raise AnalysisError("set-op table (py): attribute %s line %s" % (pyfront.unparse(e), e.lineno))
        if isinstance(e, ast.Compare) and len(e.ops) == 1:
            a, b = self.ev(e.left, env), self.ev(e.comparators[0], env)
            op = e.ops[0]
            if isinstance(op, (ast.Is, ast.IsNot)):
                if isinstance(a, tuple) and a and a[0] == "obj" and b is None:
                    n = self.sit.noneA if a[1] == "A" else self.sit.noneB
                    return n if isinstance(op, ast.Is) else not n
                if b is None:
                    return (a is None) == isinstance(op, ast.Is)
            if isinstance(a, int) and isinstance(b, int):
                return {ast.Eq: a == b, ast.NotEq: a != b, ast.Lt: a < b, ast.Gt: a > b,
                        ast.LtE: a <= b, ast.GtE: a >= b}[type(op)]
            raise AnalysisError("set-op table (py): comparison %s line %s" % (pyfront.unparse(e), e.lineno))
        if isinstance(e, ast.BinOp) and isinstance(e.op, (ast.Add, ast.Sub, ast.Mult)):
            a, b = self.ev(e.left, env), self.ev(e.right, env)
            pa = p_const(a) if isinstance(a, int) else a
            pb = p_const(b) if isinstance(b, int) else b
            if isinstance(pa, dict) and isinstance(pb, dict):
                if isinstance(e.op, ast.Add):
                    return p_add(pa, pb)
                if isinstance(e.op, ast.Sub):
                    return p_add(pa, pb, -1)
                return p_mul(pa, pb)
        if isinstance(e, ast.Call):
            return self.call(e, env)
        if isinstance(e, ast.IfExp):
            return self.ev(e.body if self.truth(self.ev(e.test, env)) else e.orelse, env)
        raise AnalysisError("set-op table (py): unrecognised expression %s line %s"
                            % (pyfront.unparse(e)[:60], getattr(e, "lineno", "?")))

    def call(self, c, env):
        f = c.func
        args = [self.ev(a, env) for a in c.args]
        if isinstance(f, ast.Name):
            n = f.id
            if n == "_SetIteration":
                o = args[0]
                uv = args[1] if len(args) > 1 else False
                default = args[2] if len(args) > 2 else None
                if isinstance(default, int):
                    default = p_const(default)
                if not (isinstance(o, tuple) and o[0] == "obj"):
                    raise AnalysisError("set-op table (py): _SetIteration over %r" % (o,))
                return Cursor(o[1], bool(uv) and self.sit.kind[o[1]] == "map", default)
            if n == "compare" and len(args) == 2:
                a, b = args
                if a[0] == "key" and b[0] == "key":
                    if a[1] == b[1]:
                        return 0
                    return self.sit.sign if (a[1], b[1]) == ("A", "B") else -self.sit.sign
            if n == "getattr":
                o, name = args[0], args[1]
                if isinstance(o, tuple) and o[0] == "obj" and name in self.wiring:
                    w = self.wiring[name]
                    if isinstance(w, ast.FunctionDef):
                        return ("method", w)
                    if isinstance(w, (int, float)):
                        if w != int(w):
                            raise AnalysisError("MERGE_DEFAULT is not integral: %r" % (w,))
                        return int(w)
                    return w
            if n == "isinstance" and isinstance(args[0], Result):
                kinds = args[1][1:] if args[1][0] == "tuple" else (args[1],)
                return any(k == ("cls", args[0].kind) for k in kinds)
            if n in env:
                return self.apply(env[n], args, env)
            if n in self.funcs:
                return self.inline(self.funcs[n], args)
        else:
            fv = self.ev(f, env)
            return self.apply(fv, args, env)
        raise AnalysisError("set-op table (py): call %s line %s" % (pyfront.unparse(c)[:50], c.lineno))

    def apply(self, fv, args, env):
        if isinstance(fv, tuple):
            if fv[0] == "ctor":
                self.rkind = fv[1]
                return Result(fv[1])
            if fv[0] == "settype":
                self.rkind = "set"
                return Result("set")
            if fv[0] == "advance":
                if self.act.armed:
                    self.act.adv.append(fv[1].op)
                return None
            if fv[0] == "append":
                v = args[0]
                if fv[1] == "_keys":
                    if not (isinstance(v, tuple) and v[0] == "key"):
                        raise AnalysisError("set-op table (py): key list receives %r" % (v,))
                    if self.act.armed:
                        self.act.outk.append(v[1])
                else:
                    if isinstance(v, int):
                        v = p_const(v)
                    if self.act.armed:
                        self.act.outv.append(v)
                return None
            if fv[0] == "method":
                return self.inline(fv[1], [("self",)] + list(args))
            if fv[0] == "closure":
                return self.inline(fv[1], args, fv[2])
            if fv[0] == "fn":
                return self.inline(self.funcs[fv[1]], args)
        raise AnalysisError("set-op table (py): cannot call %r" % (fv,))

    def inline(self, fn, args, outer=None):
        params = [a.arg for a in fn.args.args]
        env = dict(outer or {})
        defaults = fn.args.defaults
        for i, p in enumerate(params):
            if i < len(args):
                env[p] = args[i]
            else:
                d = defaults[i - (len(params) - len(defaults))]
                env[p] = self.ev(d, env)
        self.depth += 1
        if self.depth > 5:
            raise AnalysisError("set-op table (py): inlining too deep")
        try:
            self.block(fn.body, env)
            ret = None
        except PySetOp._Return as r:
            ret = r.v
        self.depth -= 1
        return ret

    def block(self, body, env):
        for st in body:
            self.stmt(st, env)

    def stmt(self, st, env):
        if isinstance(st, ast.Expr):
            if isinstance(st.value, ast.Constant):
                return
            self.ev(st.value, env)
        elif isinstance(st, ast.Assign) and len(st.targets) == 1:
            t = st.targets[0]
            v = self.ev(st.value, env)
            if isinstance(t, ast.Name):
                env[t.id] = v
                if isinstance(v, Result):
                    self.rkind = v.kind
            elif isinstance(t, ast.Tuple) and isinstance(v, tuple) and v[0] == "tuple":
                self._bind(t, v, env, st)
            else:
                raise AnalysisError("set-op table (py): assignment %s" % pyfront.unparse(st))
        elif isinstance(st, ast.If):
            self.block(st.body if self.truth(self.ev(st.test, env)) else st.orelse, env)
        elif isinstance(st, ast.While):
            self.act.armed = True
            if self.truth(self.ev(st.test, env)):
                try:
                    self.block(st.body, env)
                except PySetOp._Continue:
                    pass
                raise _Stop()
        elif isinstance(st, ast.For):
            # a loop over a literal tuple (e.g. the two cursors with their
            # weights): unrolled
            it = self.ev(st.iter, env)
            if not (isinstance(it, tuple) and it and it[0] == "tuple"):
                raise AnalysisError("set-op table (py): loop over %s line %s" % (
                    pyfront.unparse(st.iter)[:40], st.lineno))
            for item in it[1:]:
                self._bind(st.target, item, env, st)
                try:
                    self.block(st.body, env)
                except PySetOp._Continue:
                    pass
        elif isinstance(st, ast.Continue):
            raise PySetOp._Continue()
        elif isinstance(st, ast.FunctionDef):
            env[st.name] = ("closure", st, env)
        elif isinstance(st, ast.Return):
            raise PySetOp._Return(self.ev(st.value, env) if st.value is not None else None)
        elif isinstance(st, ast.Raise):
            nm = pyfront.unparse(st.exc.func) if isinstance(st.exc, ast.Call) else pyfront.unparse(st.exc)
            self.act.final = ("error", nm)
            raise _Stop()
        elif isinstance(st, ast.Pass):
            pass
        else:
            raise AnalysisError("set-op table (py): statement %s line %s" % (type(st).__name__, st.lineno))

    def run(self, name):
        fn = self.funcs.get(name)
        if fn is None:
            raise AnalysisError("anchor vanished: %s in _base.py" % name)
        args = [("settype",), ("obj", "A"), ("obj", "B")]
        params = [a.arg for a in fn.args.args]
        if len(params) > 3:
            args += [p_var("w1"), p_var("w2")]
        try:
            ret = self.inline(fn, args)
        except _Stop:
            return self.act.canon(self.rkind)
        return _none_canon(_py_ret_canon(ret, self.act), self.sit)


def _py_ret_canon(ret, act):
    if act.final is not None:
        return act.final
    if isinstance(ret, Result):
        return ("end", ret.kind, None)
    if isinstance(ret, tuple) and ret and ret[0] == "obj":
        return ("ret", None, ret[1])
    if isinstance(ret, tuple) and ret and ret[0] == "tuple":
        w, o = ret[1], ret[2]
        w = show(p_const(w)) if isinstance(w, int) else (w[0] if isinstance(w, tuple) else show(w))
        if isinstance(o, Result):
            return ("end", o.kind, w)
        if isinstance(o, tuple) and o[0] == "obj":
            return ("ret", w, o[1])
        if o is None:
            return ("ret", w, "None")
    if ret is None:
        return ("ret", None, "None")
    raise AnalysisError("set-op table (py): unrecognised result %r" % (ret,))


def py_table(entry, wiring=None):
    tree = pyfront.base_py()
    if wiring is None:
        wiring = py_value_wiring()["I"]
    out = {}
    for key, sit in situations(entry).items():
        out[key] = PySetOp(tree, sit, wiring).run(entry)
    return out


# ---------------------------------------------------------------------------
# specification (Interfaces.py)

def spec(entry, sit):
    A, B = sit.noneA, sit.noneB
    w = entry.startswith("weighted")
    if A or B:
        if entry == "difference":
            return ("ret", None, "None" if A else "A")   # difference(None,x)=None; (x,None)=x
        if not w:
            if A and B:
                return ("ret", None, "None")
            return ("ret", None, "B" if A else "A")
        if A and B:
            return ("ret", show(p_const(0)), "None")
        return ("ret", show(p_var("w2")), "B") if A else ("ret", show(p_var("w1")), "A")
    kA, kB = sit.kind["A"], sit.kind["B"]
    lA, lB = sit.live["A"], sit.live["B"]
    one = p_const(1)
    vA = p_var("vA") if kA == "map" else one
    vB = p_var("vB") if kB == "map" else one
    if entry == "difference":
        rk = "map" if kA == "map" else "set"
        val = (lambda: show(p_var("vA"))) if rk == "map" else (lambda: None)
        if lA and lB:
            if sit.sign < 0:
                return ("step", rk, ("A", val()), "A")
            if sit.sign == 0:
                return ("step", rk, None, "AB")
            return ("step", rk, None, "B")
        if lA:
            return ("step", rk, ("A", val()), "A")
        return ("end", rk, None)
    if entry in ("union", "intersection"):
        rk = "set"
        inter = entry == "intersection"
        if lA and lB:
            if sit.sign < 0:
                return ("step", rk, None if inter else ("A", None), "A")
            if sit.sign == 0:
                return ("step", rk, ("A|B", None), "AB")
            return ("step", rk, None if inter else ("B", None), "B")
        if inter:
            return ("end", rk, None)
        if lA:
            return ("step", rk, ("A", None), "A")
        if lB:
            return ("step", rk, ("B", None), "B")
        return ("end", rk, None)
    # weighted
    rk = "set" if (kA == "set" and kB == "set") else "map"
    inter = entry == "weightedIntersection"
    wA, wB = p_var("w1"), p_var("w2")

    def val(p):
        return None if rk == "set" else show(p)
    if lA and lB:
        if sit.sign < 0:
            return ("step", rk, None if inter else ("A", val(p_mul(vA, wA))), "A")
        if sit.sign == 0:
            return ("step", rk, ("A|B", val(p_add(p_mul(vA, wA), p_mul(vB, wB)))), "AB")
        return ("step", rk, None if inter else ("B", val(p_mul(vB, wB))), "B")
    if not inter and lA:
        return ("step", rk, ("A", val(p_mul(vA, wA))), "A")
    if not inter and lB:
        return ("step", rk, ("B", val(p_mul(vB, wB))), "B")
    if inter and rk == "set":
        return ("end", rk, show(p_add(wA, wB)))
    return ("end", rk, show(one))


def matches(canon, sp):
    if canon[0] != sp[0]:
        return False
    if canon[0] == "step":
        _, rk, emit, adv = canon
        _, srk, semit, sadv = sp
        if rk != srk or adv != sadv:
            return False
        if (emit is None) != (semit is None):
            return False
        if emit is None:
            return True
        if emit[0] not in semit[0].split("|"):
            return False
        return emit[1] == semit[1]
    return tuple(canon) == tuple(sp)
