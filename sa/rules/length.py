"""C19: Length is a conflict-free counter.

LEN-ALGEBRA  every value returned by Length._p_resolveConflict(old, s1, s2)
             normalises (polynomial canonical form over Z, straight-line
             locals substituted) to  s1 + s2 - old.
LEN-CELL     the state is the single attribute `value`: set/__setstate__/
             __init__ assign their argument unconditionally, change adds its
             argument unconditionally, __call__/__getstate__ return it; no
             other attribute is written.
"""
import ast

from ..common import AnalysisError, SRC
from .. import pyfront

REL = SRC + "/Length.py"


# ---- polynomials: {monomial(tuple of sorted var names): coeff} ---------------

def p_const(c):
    return {(): c} if c else {}


def p_var(v):
    return {(v,): 1}


def p_add(a, b, sign=1):
    out = dict(a)
    for m, c in b.items():
        out[m] = out.get(m, 0) + sign * c
        if out[m] == 0:
            del out[m]
    return out


def p_mul(a, b):
    out = {}
    for m1, c1 in a.items():
        for m2, c2 in b.items():
            m = tuple(sorted(m1 + m2))
            out[m] = out.get(m, 0) + c1 * c2
            if out[m] == 0:
                del out[m]
    return out


def poly(e, env):
    """Polynomial of expression e, or None when e is not polynomial."""
    if isinstance(e, ast.Constant) and isinstance(e.value, int) and not isinstance(e.value, bool):
        return p_const(e.value)
    if isinstance(e, ast.Name):
        return env.get(e.id)
    if isinstance(e, ast.UnaryOp) and isinstance(e.op, (ast.USub, ast.UAdd)):
        v = poly(e.operand, env)
        if v is None:
            return None
        return p_mul(p_const(-1), v) if isinstance(e.op, ast.USub) else v
    if isinstance(e, ast.BinOp) and isinstance(e.op, (ast.Add, ast.Sub, ast.Mult)):
        a, b = poly(e.left, env), poly(e.right, env)
        if a is None or b is None:
            return None
        if isinstance(e.op, ast.Add):
            return p_add(a, b)
        if isinstance(e.op, ast.Sub):
            return p_add(a, b, -1)
        return p_mul(a, b)
    return None


def show(p):
    if p is None:
        return "<not a polynomial>"
    if not p:
        return "0"
    parts = []
    for m, c in sorted(p.items()):
        parts.append("%+d%s" % (c, "*" + "*".join(m) if m else ""))
    return " ".join(parts)


def _returns(body, env, out, fn):
    """Collect (Return node, polynomial) over all syntactic paths."""
    env = dict(env)
    for st in body:
        if isinstance(st, ast.Expr) and isinstance(st.value, ast.Constant):
            continue
        if isinstance(st, ast.Pass):
            continue
        if isinstance(st, ast.Assign) and len(st.targets) == 1 and \
                isinstance(st.targets[0], ast.Name):
            env[st.targets[0].id] = poly(st.value, env)
            continue
        if isinstance(st, ast.AugAssign) and isinstance(st.target, ast.Name) and \
                isinstance(st.op, (ast.Add, ast.Sub, ast.Mult)):
            fake = ast.BinOp(left=ast.Name(id=st.target.id), op=st.op, right=st.value)
            env[st.target.id] = poly(fake, env)
            continue
        if isinstance(st, ast.Return):
            out.append((st, poly(st.value, env) if st.value is not None else None))
            return True
        if isinstance(st, ast.If):
            t = _returns(st.body, env, out, fn)
            f = _returns(st.orelse, env, out, fn)
            if t and f:
                return True
            # names assigned in only one branch become unknown
            for sub in st.body + st.orelse:
                for n in ast.walk(sub):
                    if isinstance(n, ast.Name) and isinstance(n.ctx, ast.Store):
                        env[n.id] = None
            continue
        if isinstance(st, ast.Raise):
            return True
        raise AnalysisError("unrecognised statement %s in %s (%s:%s)" % (
            type(st).__name__, fn.name, REL, st.lineno))
    return False


def check():
    tree = pyfront.module(REL)
    cls = pyfront.classes(tree).get("Length")
    if cls is None:
        raise AnalysisError("anchor vanished: class Length in %s" % REL)
    mem = pyfront.class_members(cls)
    findings = []
    obligations = []

    def need(name):
        f = mem.get(name)
        if not isinstance(f, ast.FunctionDef):
            raise AnalysisError("anchor vanished: Length.%s" % name)
        return f

    # ---- LEN-ALGEBRA ---------------------------------------------------------
    f = need("_p_resolveConflict")
    args = [a.arg for a in f.args.args]
    if len(args) != 4:
        raise AnalysisError("Length._p_resolveConflict: expected (self, old, s1, s2)")
    _self, old, s1, s2 = args
    env = {old: p_var("old"), s1: p_var("s1"), s2: p_var("s2")}
    target = {("s1",): 1, ("s2",): 1, ("old",): -1}
    rets = []
    falls = not _returns(f.body, env, rets, f)
    if falls:
        findings.append(dict(
            rule="LEN-ALGEBRA", function="Length._p_resolveConflict", file=REL,
            line=f.lineno, construct="path without return",
            detail="a path through _p_resolveConflict returns None instead "
                   "of s1 + s2 - old", path=[]))
    for r, p in rets:
        obligations.append({"return": pyfront.unparse(r), "polynomial": show(p)})
        if p != target:
            findings.append(dict(
                rule="LEN-ALGEBRA", function="Length._p_resolveConflict",
                file=REL, line=r.lineno,
                construct="return %s" % pyfront.unparse(r.value) if r.value else "return",
                detail="returns %s, which is not the polynomial s1 + s2 - old "
                       "(a resolution that loses or double-counts one "
                       "transaction's change)" % show(p), path=[]))
    # the same with s1 and s2 exchanged (order independence)
    env2 = {old: p_var("old"), s1: p_var("s2"), s2: p_var("s1")}
    rets2 = []
    _returns(f.body, env2, rets2, f)
    for (r, p), (_, q) in zip(rets, rets2):
        obligations.append({"symmetry": pyfront.unparse(r), "swapped": show(q)})
        if p != q and p == target:
            findings.append(dict(
                rule="LEN-ALGEBRA", function="Length._p_resolveConflict",
                file=REL, line=r.lineno,
                construct="asymmetric return %s" % pyfront.unparse(r.value),
                detail="result depends on the order of the two states", path=[]))

    # ---- LEN-CELL --------------------------------------------------------------
    def top_assign(fn, param):
        """unconditional `self.value = <param>` at the top level of fn."""
        for st in fn.body:
            if isinstance(st, ast.Assign) and len(st.targets) == 1 and \
                    pyfront.is_self_attr(st.targets[0], "value") and \
                    isinstance(st.value, ast.Name) and st.value.id == param:
                return True
        return False

    for name in ("set", "__setstate__", "__init__"):
        fn = need(name)
        params = [a.arg for a in fn.args.args][1:]
        obligations.append({"cell": "Length.%s assigns its argument to self.value unconditionally" % name})
        if not params or not top_assign(fn, params[0]):
            findings.append(dict(
                rule="LEN-CELL", function="Length.%s" % name, file=REL, line=fn.lineno,
                construct="self.value = %s not unconditional" % (params[0] if params else "?"),
                detail="Length.%s does not store its argument in self.value on "
                       "every path (a plain integer cell must)" % name, path=[]))
    fn = need("change")
    params = [a.arg for a in fn.args.args][1:]
    ok = False
    for st in fn.body:
        if isinstance(st, ast.AugAssign) and isinstance(st.op, ast.Add) and \
                pyfront.is_self_attr(st.target, "value") and \
                isinstance(st.value, ast.Name) and params and st.value.id == params[0]:
            ok = True
        if isinstance(st, ast.Assign) and len(st.targets) == 1 and \
                pyfront.is_self_attr(st.targets[0], "value") and params:
            e = {"__v": p_var("v"), params[0]: p_var("d")}
            v = st.value
            class R(ast.NodeTransformer):
                def visit_Attribute(self, n):
                    if pyfront.is_self_attr(n, "value"):
                        return ast.Name(id="__v")
                    return n
            if poly(R().visit(ast.parse(pyfront.unparse(v), mode="eval").body), e) == \
                    {("v",): 1, ("d",): 1}:
                ok = True
    obligations.append({"cell": "Length.change adds its argument to self.value unconditionally"})
    if not ok:
        findings.append(dict(
            rule="LEN-CELL", function="Length.change", file=REL, line=fn.lineno,
            construct="self.value += delta not unconditional",
            detail="Length.change does not add its argument to self.value on "
                   "every path", path=[]))
    for name in ("__call__", "__getstate__"):
        fn = need(name)
        rets = [n for n in ast.walk(fn) if isinstance(n, ast.Return)]
        obligations.append({"cell": "Length.%s returns self.value" % name})
        bad = [r for r in rets if not (r.value is not None and pyfront.is_self_attr(r.value, "value"))]
        if not rets or bad:
            findings.append(dict(
                rule="LEN-CELL", function="Length.%s" % name, file=REL, line=fn.lineno,
                construct="return is not self.value",
                detail="Length.%s must return the stored value" % name, path=[]))
    # no other attribute is written anywhere in the class
    for n in ast.walk(cls):
        tgt = None
        if isinstance(n, (ast.Assign, ast.AugAssign, ast.AnnAssign, ast.Delete)):
            tgts = n.targets if isinstance(n, (ast.Assign, ast.Delete)) else [n.target]
            for t in tgts:
                for a in ast.walk(t):
                    if pyfront.is_self_attr(a) and a.attr != "value" and \
                            isinstance(a.ctx, (ast.Store, ast.Del)):
                        tgt = a
        if isinstance(n, ast.Call) and isinstance(n.func, ast.Name) and \
                n.func.id in ("setattr", "delattr"):
            tgt = n
        if tgt is not None:
            findings.append(dict(
                rule="LEN-CELL", function="Length", file=REL, line=n.lineno,
                construct="writes %s" % pyfront.unparse(tgt),
                detail="Length keeps state outside its single value cell", path=[]))
    return findings, obligations
