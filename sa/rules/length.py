"""C19: Length is a conflict-free counter.

LEN-ALGEBRA  every value returned by Length._p_resolveConflict(old, s1, s2)
             normalises (polynomial canonical form over Z, straight-line
             locals substituted) to  s1 + s2 - old.
LEN-CELL     the state is the single attribute `value`: set/__setstate__/
             __init__ assign their argument unconditionally, change adds its
             argument unconditionally, __call__/__getstate__ return it; no
             other attribute is written.
"""
import ast

from ..common import AnalysisError, SRC
from .. import pyfront

REL = SRC + "/Length.py"


# ---- polynomials: {monomial(tuple of sorted var names): coeff} ---------------

def p_const(c):
    return {(): c} if c else {}


def p_var(v):
    return {(v,): 1}


def p_add(a, b, sign=1):
    out = dict(a)
    for m, c in b.items():
        out[m] = out.get(m, 0) + sign * c
        if out[m] == 0:
            del out[m]
    return out


def p_mul(a, b):
    out = {}
    for m1, c1 in a.items():
        for m2, c2 in b.items():
            m = tuple(sorted(m1 + m2))
            out[m] = out.get(m, 0) + c1 * c2
            if out[m] == 0:
                del out[m]
    return out


def poly(e, env):
    """Polynomial of expression e, or None when e is not polynomial."""
    if isinstance(e, ast.Constant) and isinstance(e.value, int) and not isinstance(e.value, bool):
        return p_const(e.value)
    if isinstance(e, ast.Name):
        return env.get(e.id)
    if isinstance(e, ast.UnaryOp) and isinstance(e.op, (ast.USub, ast.UAdd)):
        v = poly(e.operand, env)
        if v is None:
            return None
        return p_mul(p_const(-1), v) if isinstance(e.op, ast.USub) else v
    if isinstance(e, ast.BinOp) and isinstance(e.op, (ast.Add, ast.Sub, ast.Mult)):
        a, b = poly(e.left, env), poly(e.right, env)
        if a is None or b is None:
            return None
        if isinstance(e.op, ast.Add):
            return p_add(a, b)
        if isinstance(e.op, ast.Sub):
            return p_add(a, b, -1)
        return p_mul(a, b)
    return None


def show(p):
    if p is None:
        return "<not a polynomial>"
    if not p:
        return "0"
    parts = []
    for m, c in sorted(p.items()):
        parts.append("%+d%s" % (c, "*" + "*".join(m) if m else ""))
    return " ".join(parts)


# ---- all-paths symbolic interpreter for the methods of Length ----------------
#
# Values are polynomials over the method's parameters and the symbol `value`
# (contents of the cell at entry), the marker SELF, None, or OTHER (anything
# else).  A state is (locals, cell polynomial, other attributes written).
# Every syntactic path is followed (both branches of every `if`); calls of
# module-level functions and of methods of the class are inlined (a parameter
# bound to SELF aliases the object).  Unknown constructs are an AnalysisError.

class _Self(object):
    def __repr__(self):
        return "<self>"


SELF = _Self()


class _Other(object):
    def __repr__(self):
        return "<other>"


OTHER = _Other()


class _Outcome(object):
    __slots__ = ("kind", "value", "cell", "others", "line")

    def __init__(self, kind, value, cell, others, line):
        self.kind, self.value, self.cell, self.others, self.line = kind, value, cell, others, line


class LenInterp(object):
    MAX_DEPTH = 6

    def __init__(self, tree, cls):
        self.tree = tree
        self.cls = cls
        self.mod_funcs = {n.name: n for n in tree.body if isinstance(n, ast.FunctionDef)}
        self.methods = {n.name: n for n in cls.body if isinstance(n, ast.FunctionDef)}
        self.cls_name = cls.name

    # state: (env dict, cell poly, frozenset other writes)
    def ev(self, e, st, depth):
        """-> list of (value, state)"""
        env, cell, others = st
        if isinstance(e, ast.Constant):
            if isinstance(e.value, int) and not isinstance(e.value, bool):
                return [(p_const(e.value), st)]
            if e.value is None:
                return [(None, st)]
            return [(OTHER, st)]
        if isinstance(e, ast.Name):
            if e.id in env:
                return [(env[e.id], st)]
            return [(OTHER, st)]
        if isinstance(e, ast.Attribute):
            out = []
            for base, st2 in self.ev(e.value, st, depth):
                if base is SELF and e.attr == "value":
                    out.append((st2[1], st2))
                else:
                    out.append((OTHER, st2))
            return out
        if isinstance(e, ast.UnaryOp) and isinstance(e.op, (ast.USub, ast.UAdd)):
            out = []
            for v, st2 in self.ev(e.operand, st, depth):
                if isinstance(v, dict):
                    out.append((p_mul(p_const(-1), v) if isinstance(e.op, ast.USub) else v, st2))
                else:
                    out.append((OTHER, st2))
            return out
        if isinstance(e, ast.BinOp) and isinstance(e.op, (ast.Add, ast.Sub, ast.Mult)):
            out = []
            for a, st2 in self.ev(e.left, st, depth):
                for b, st3 in self.ev(e.right, st2, depth):
                    if isinstance(a, dict) and isinstance(b, dict):
                        v = p_add(a, b) if isinstance(e.op, ast.Add) else \
                            p_add(a, b, -1) if isinstance(e.op, ast.Sub) else p_mul(a, b)
                        out.append((v, st3))
                    else:
                        out.append((OTHER, st3))
            return out
        if isinstance(e, ast.Call) and isinstance(e.func, ast.Name) and e.func.id == "sum" and \
                len(e.args) in (1, 2) and not e.keywords:
            r = self.sum_call(e, st, depth)
            if r is not None:
                return r
        if isinstance(e, ast.Call):
            return self.call(e, st, depth)
        if isinstance(e, (ast.Compare, ast.BoolOp, ast.IfExp, ast.Tuple, ast.List, ast.Dict,
                          ast.Subscript, ast.JoinedStr)):
            if isinstance(e, ast.IfExp):
                out = []
                for _c, st2 in self.ev(e.test, st, depth):
                    out += self.ev(e.body, st2, depth) + self.ev(e.orelse, st2, depth)
                return out
            # evaluate sub-expressions for their effects, value unknown
            sts = [st]
            for sub in ast.iter_child_nodes(e):
                if isinstance(sub, ast.expr):
                    sts = [s3 for s2 in sts for _v, s3 in self.ev(sub, s2, depth)]
            return [(OTHER, s2) for s2 in sts]
        raise AnalysisError("Length: unrecognised expression %s (%s:%s)" % (
            pyfront.unparse(e)[:60], REL, getattr(e, "lineno", "?")))

    def sum_call(self, e, st, depth):
        """sum(<tuple/list/set literal>) and sum(<elt> for x in <literal>):
        the polynomial sum of the elements.  A set literal loses equal
        elements: a second outcome gives the sum when two of them coincide."""
        arg = e.args[0]
        elt = var = None
        if isinstance(arg, ast.GeneratorExp) or isinstance(arg, ast.ListComp):
            if len(arg.generators) != 1 or arg.generators[0].ifs or \
                    not isinstance(arg.generators[0].target, ast.Name):
                return None
            elt, var, coll = arg.elt, arg.generators[0].target.id, arg.generators[0].iter
        else:
            coll = arg
        if not isinstance(coll, (ast.Tuple, ast.List, ast.Set)):
            return None
        combos = [([], st)]
        for x in coll.elts:
            combos = [(vs + [v], s3) for vs, s2 in combos for v, s3 in self.ev(x, s2, depth)]
        out = []
        for vals, st2 in combos:
            if not all(isinstance(v, dict) for v in vals):
                out.append((OTHER, st2))
                continue
            variants = [vals]
            if isinstance(coll, ast.Set) and len(vals) > 1:
                variants.append(vals[:-1])          # two elements equal: one of them is dropped
            for vs in variants:
                total = p_const(0)
                sts = [(total, st2)]
                for v in vs:
                    if elt is None:
                        sts = [(p_add(t, v), s3) for t, s3 in sts]
                    else:
                        nxt = []
                        for t, s3 in sts:
                            env3 = dict(s3[0])
                            env3[var] = v
                            for ev_, s4 in self.ev(elt, (env3, s3[1], s3[2]), depth):
                                if isinstance(ev_, dict):
                                    nxt.append((p_add(t, ev_), (s3[0], s4[1], s4[2])))
                                else:
                                    nxt.append((OTHER, (s3[0], s4[1], s4[2])))
                        sts = nxt
                    sts = [(t if isinstance(t, dict) else OTHER, s3) for t, s3 in sts]
                    if any(not isinstance(t, dict) for t, _ in sts):
                        break
                if len(e.args) == 2:
                    nxt = []
                    for t, s3 in sts:
                        for sv, s4 in self.ev(e.args[1], s3, depth):
                            nxt.append((p_add(t, sv) if isinstance(t, dict) and isinstance(sv, dict) else OTHER, s4))
                    sts = nxt
                out.extend(sts)
        return out

    def call(self, c, st, depth):
        if depth > self.MAX_DEPTH:
            raise AnalysisError("Length: call depth exceeded at line %s" % c.lineno)
        fn = None
        bound_self = None
        if isinstance(c.func, ast.Name) and c.func.id in self.mod_funcs:
            fn = self.mod_funcs[c.func.id]
        elif isinstance(c.func, ast.Attribute) and isinstance(c.func.value, ast.Name) \
                and c.func.value.id == getattr(self, "cls_name", None) and c.func.attr in self.methods:
            # Length.method(self, ...): the method of this class, called unbound
            fn = self.methods[c.func.attr]
        elif isinstance(c.func, ast.Attribute):
            bases = self.ev(c.func.value, st, depth)
            if len(bases) == 1 and bases[0][0] is SELF and c.func.attr in self.methods:
                fn = self.methods[c.func.attr]
                bound_self = SELF
        if fn is None:
            # a function outside this module: its value is unknown; it cannot
            # touch the cell unless the object itself is handed to it
            name = pyfront.unparse(c.func)
            sts = [([], st)]
            for a in list(c.args) + [k.value for k in c.keywords]:
                sts = [(vs + [v], s3) for vs, s2 in sts for v, s3 in self.ev(a, s2, depth)]
            if isinstance(c.func, ast.Attribute):
                sts = [(vs + [v], s3) for vs, s2 in sts for v, s3 in self.ev(c.func.value, s2, depth)]
            for vs, _s in sts:
                if any(v is SELF for v in vs):
                    raise AnalysisError("Length: the object is passed to %s, which cannot be "
                                        "resolved (%s:%s)" % (name, REL, c.lineno))
            return [(OTHER, s2) for _vs, s2 in sts]
        # evaluate arguments left to right
        combos = [([], st)]
        for a in c.args:
            combos = [(vals + [v], s3) for vals, s2 in combos for v, s3 in self.ev(a, s2, depth)]
        kwnames = [k.arg for k in c.keywords]
        for k in c.keywords:
            combos = [(vals + [v], s3) for vals, s2 in combos for v, s3 in self.ev(k.value, s2, depth)]
        out = []
        params = [a.arg for a in fn.args.args]
        for vals, st2 in combos:
            env2 = {}
            pos = vals[:len(c.args)]
            if bound_self is not None:
                pos = [SELF] + pos
            for pname, v in zip(params, pos):
                env2[pname] = v
            for kname, v in zip(kwnames, vals[len(c.args):]):
                env2[kname] = v
            # defaults
            defaults = fn.args.defaults
            for pname, d in zip(params[len(params) - len(defaults):], defaults):
                if pname not in env2:
                    dv = self.ev(d, ({}, st2[1], st2[2]), depth)
                    env2[pname] = dv[0][0]
            for pname in params:
                env2.setdefault(pname, OTHER)
            caller_env = st2[0]
            for oc in self.run(fn.body, (env2, st2[1], st2[2]), depth + 1):
                if oc.kind == "raise":
                    raise AnalysisError("Length: helper %s can raise (line %s)" % (fn.name, oc.line))
                out.append((oc.value, (caller_env, oc.cell, oc.others)))
        return out

    def run(self, body, st, depth=0):
        """-> list of _Outcome (kind return/fall/raise)"""
        states = [st]
        outcomes = []
        for stmt in body:
            nxt = []
            for s0 in states:
                r = self.stmt(stmt, s0, depth)
                for kind, payload in r:
                    if kind == "next":
                        nxt.append(payload)
                    else:
                        outcomes.append(payload)
            states = nxt
            if not states:
                break
        for env, cell, others in states:
            outcomes.append(_Outcome("fall", None, cell, others, None))
        return outcomes

    def _store(self, target, v, st, stmt, depth):
        env, cell, others = st
        if isinstance(target, ast.Name):
            env = dict(env)
            env[target.id] = v
            return [(env, cell, others)]
        if isinstance(target, ast.Attribute):
            out = []
            for base, st2 in self.ev(target.value, st, depth):
                env2, cell2, others2 = st2
                if base is SELF:
                    if target.attr == "value":
                        if not isinstance(v, dict):
                            v = {("<non-polynomial>",): 1}
                        out.append((env2, v, others2))
                    else:
                        out.append((env2, cell2, others2 | {target.attr}))
                else:
                    out.append(st2)
            return out
        if isinstance(target, ast.Subscript) and isinstance(target.value, ast.Attribute) and \
                target.value.attr == "__dict__":
            out = []
            for base, st2 in self.ev(target.value.value, st, depth):
                env2, cell2, others2 = st2
                if base is SELF:
                    key = target.slice.value if isinstance(target.slice, ast.Constant) else None
                    if key == "value" and isinstance(v, dict):
                        cell2 = v
                    # a store that bypasses Persistent.__setattr__: no change registration
                    out.append((env2, cell2, others2 | {"__dict__[%r] (bypasses change registration)" % (key,)}))
                else:
                    out.append(st2)
            return out
        raise AnalysisError("Length: store to %s (%s:%s)" % (pyfront.unparse(target), REL, stmt.lineno))

    def stmt(self, stmt, st, depth):
        if isinstance(stmt, ast.Expr):
            if isinstance(stmt.value, ast.Constant):
                return [("next", st)]
            return [("next", s2) for _v, s2 in self.ev(stmt.value, st, depth)]
        if isinstance(stmt, ast.Pass):
            return [("next", st)]
        if isinstance(stmt, ast.Assign) and len(stmt.targets) == 1:
            out = []
            for v, s2 in self.ev(stmt.value, st, depth):
                out += [("next", s3) for s3 in self._store(stmt.targets[0], v, s2, stmt, depth)]
            return out
        if isinstance(stmt, ast.AugAssign) and isinstance(stmt.op, (ast.Add, ast.Sub, ast.Mult)):
            fake = ast.BinOp(left=stmt.target, op=stmt.op, right=stmt.value)
            ast.copy_location(fake, stmt)
            tgt = stmt.target
            out = []
            for v, s2 in self.ev(fake, st, depth):
                out += [("next", s3) for s3 in self._store(tgt, v, s2, stmt, depth)]
            return out
        if isinstance(stmt, ast.Return):
            if stmt.value is None:
                return [("done", _Outcome("return", None, st[1], st[2], stmt.lineno))]
            return [("done", _Outcome("return", v, s2[1], s2[2], stmt.lineno))
                    for v, s2 in self.ev(stmt.value, st, depth)]
        if isinstance(stmt, ast.Raise):
            return [("done", _Outcome("raise", None, st[1], st[2], stmt.lineno))]
        if isinstance(stmt, ast.If):
            out = []
            for _c, s2 in self.ev(stmt.test, st, depth):
                for branch in (stmt.body, stmt.orelse):
                    for oc in self.run(branch, s2, depth):
                        if oc.kind == "fall":
                            out.append(("next", (s2[0], oc.cell, oc.others)))
                        else:
                            out.append(("done", oc))
            # locals assigned inside a branch are not tracked across the join
            # (the cell and the attribute writes are)
            return out
        if isinstance(stmt, ast.With):
            sts = [st]
            for item in stmt.items:
                sts = [s3 for s2 in sts for _v, s3 in self.ev(item.context_expr, s2, depth)]
            out = []
            for s2 in sts:
                for oc in self.run(stmt.body, s2, depth):
                    if oc.kind == "fall":
                        out.append(("next", (s2[0], oc.cell, oc.others)))
                    else:
                        out.append(("done", oc))
            return out
        if isinstance(stmt, ast.Try):
            out = []
            # the body completes, or a handler runs from the state at entry
            # (an approximation that keeps every path's final effect visible)
            for branch in [stmt.body + stmt.orelse] + [h.body for h in stmt.handlers]:
                for oc in self.run(branch + stmt.finalbody, st, depth):
                    if oc.kind == "fall":
                        out.append(("next", (st[0], oc.cell, oc.others)))
                    else:
                        out.append(("done", oc))
            return out
        if isinstance(stmt, (ast.Assert, ast.Global, ast.Nonlocal, ast.Import, ast.ImportFrom)):
            return [("next", st)]
        raise AnalysisError("unrecognised statement %s (%s:%s)" % (type(stmt).__name__, REL, stmt.lineno))


def check():
    tree = pyfront.module(REL)
    cls = pyfront.classes(tree).get("Length")
    if cls is None:
        raise AnalysisError("anchor vanished: class Length in %s" % REL)
    mem = pyfront.class_members(cls)
    findings = []
    obligations = []
    it = LenInterp(tree, cls)

    def need(name):
        f = mem.get(name)
        if not isinstance(f, ast.FunctionDef):
            raise AnalysisError("anchor vanished: Length.%s" % name)
        return f

    def outcomes(fn, argpolys):
        params = [a.arg for a in fn.args.args]
        env = {params[0]: SELF}
        for pname, v in zip(params[1:], argpolys):
            env[pname] = v
        for pname in params[1 + len(argpolys):]:
            env[pname] = OTHER
        if fn.args.vararg is not None:
            env[fn.args.vararg.arg] = OTHER
        return it.run(fn.body, (env, p_var("value"), frozenset()))

    # ---- LEN-ALGEBRA ---------------------------------------------------------
    f = need("_p_resolveConflict")
    if len(f.args.args) != 4:
        raise AnalysisError("Length._p_resolveConflict: expected (self, old, s1, s2)")
    target = {("s1",): 1, ("s2",): 1, ("old",): -1}
    for oc in outcomes(f, [p_var("old"), p_var("s1"), p_var("s2")]):
        got = oc.value if oc.kind == "return" else None
        obligations.append({"path ending at line": oc.line, "returns": show(got) if isinstance(got, dict) or got is None else repr(got)})
        if oc.kind != "return" or got != target:
            what = "path without return" if oc.kind == "fall" else \
                "raises at line %s" % oc.line if oc.kind == "raise" else \
                "return at line %s yields %s" % (oc.line, show(got) if isinstance(got, dict) else repr(got))
            findings.append(dict(
                rule="LEN-ALGEBRA", function="Length._p_resolveConflict", file=REL,
                line=oc.line or f.lineno, construct=what,
                detail="a path through _p_resolveConflict does not return the "
                       "polynomial s1 + s2 - old (a resolution that loses or "
                       "double-counts one transaction's change, or depends on "
                       "the order of the two states)", path=[]))
        if oc.cell != p_var("value") or oc.others:
            findings.append(dict(
                rule="LEN-ALGEBRA", function="Length._p_resolveConflict", file=REL,
                line=oc.line or f.lineno, construct="conflict resolution modifies the object",
                detail="_p_resolveConflict must be a pure function of the three states", path=[]))

    # ---- LEN-CELL --------------------------------------------------------------
    def cell_rule(name, args, want_cell, want_ret, text):
        fn = need(name)
        obligations.append({"cell": "Length.%s %s on every path" % (name, text)})
        for oc in outcomes(fn, args):
            bad = None
            if oc.kind == "raise":
                bad = "raises at line %s" % oc.line
            elif oc.cell != want_cell:
                bad = "leaves value = %s" % show(oc.cell)
            elif oc.others and not (name in ("__setstate__", "__init__") and
                                    oc.others == {"__dict__['value'] (bypasses change registration)"}):
                # (installing a state / constructing need not register a change)
                bad = "writes %s" % ", ".join("self.%s" % a for a in sorted(oc.others))
            elif want_ret is not None and not (oc.kind == "return" and oc.value == want_ret):
                bad = "returns %s" % (show(oc.value) if isinstance(oc.value, dict) else repr(oc.value))
            if bad:
                findings.append(dict(
                    rule="LEN-CELL", function="Length.%s" % name, file=REL, line=oc.line or fn.lineno,
                    construct="%s: %s" % (name, bad),
                    detail="Length.%s must %s on every path (a plain integer "
                           "cell); this path %s" % (name, text, bad), path=[]))
    v, d = p_var("v"), p_var("d")
    val = p_var("value")
    for name in ("set", "__setstate__", "__init__"):
        cell_rule(name, [v], v, None, "store its argument in self.value and nothing else")
    cell_rule("change", [d], p_add(val, d), None, "add its argument to self.value")
    cell_rule("__call__", [], val, val, "return self.value unchanged")
    cell_rule("__getstate__", [], val, val, "return self.value unchanged")
    # no other attribute is written anywhere in the class (also outside the
    # methods interpreted above)
    for n in ast.walk(cls):
        tgt = None
        if isinstance(n, (ast.Assign, ast.AugAssign, ast.AnnAssign, ast.Delete)):
            tgts = n.targets if isinstance(n, (ast.Assign, ast.Delete)) else [n.target]
            for t in tgts:
                for a in ast.walk(t):
                    if pyfront.is_self_attr(a) and a.attr != "value" and \
                            isinstance(a.ctx, (ast.Store, ast.Del)):
                        tgt = a
        if isinstance(n, ast.Call) and isinstance(n.func, ast.Name) and \
                n.func.id in ("setattr", "delattr"):
            tgt = n
        if tgt is not None:
            findings.append(dict(
                rule="LEN-CELL", function="Length", file=REL, line=n.lineno,
                construct="writes %s" % pyfront.unparse(tgt),
                detail="Length keeps state outside its single value cell", path=[]))
    return findings, obligations
