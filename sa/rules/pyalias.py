"""PY-STALE-ALIAS (C05, Python implementation): no write through a stale copy
of a node's state list.

The pure-Python nodes are not pinned while a method runs: a key comparison is
foreign code, and a cache sweep inside it turns an unmodified node into a ghost;
the next attribute access reloads it and `__setstate__` installs *new* lists in
`_keys` / `_values` / `_data`.  A local bound to one of these lists before the
comparing call still names the old list.  Reading through it is harmless (same
contents); *writing* through it is lost - the reloaded node keeps the old
contents while children have already been changed.

Rule (linear walk in source order, both branches of a conditional): state
attributes are the attributes `clear()` / `__setstate__` of the class (or a
base) assign on self.  A local is an alias while it is bound to
`self.<state attr>`; it becomes stale at the next call of a function from which
a key comparison is reachable (closure by name over _base.py, through local
method aliases; `minKey()` / `maxKey()` without a bound do not compare); a mutation through a
stale alias (`alias.insert/append/pop/extend/remove/clear/sort`,
`alias[..] = ..`, `alias[..].attr = ..`, `del alias[..]`) is reported.
"""
import ast

from ..common import AnalysisError, SRC
from .. import pyfront

REL = SRC + "/_base.py"
# seeds of the comparing layer; closed under "calls a comparing function"
# over the functions of _base.py (by name) in comparing_names()
COMPARE_SEEDS = ("compare", "_to_key", "_to_value", "sorted", "sort")
# names too generic to be resolved by name (list.insert, dict.get, ...)
UNRESOLVED = ("insert", "append", "pop", "get", "update", "add", "remove", "clear",
              "extend", "index", "count", "keys", "values", "items", "next", "__init__")
MUTATORS = ("insert", "append", "pop", "extend", "remove", "clear", "sort", "reverse")
NODE_CLASSES = ("_BucketBase", "Bucket", "Set", "_Tree", "Tree", "TreeSet")


def comparing_names(tree):
    """Names of functions of _base.py from which a key comparison is
    reachable (calls resolved by name; generic container method names are not
    followed)."""
    defs = {}
    for n in ast.walk(tree):
        if isinstance(n, ast.FunctionDef):
            defs.setdefault(n.name, []).append(n)
    comparing = set(COMPARE_SEEDS)
    changed = True
    while changed:
        changed = False
        for name, fns in defs.items():
            if name in comparing or name in UNRESOLVED:
                continue
            for fn in fns:
                for c in ast.walk(fn):
                    if isinstance(c, ast.Call):
                        cn = c.func.attr if isinstance(c.func, ast.Attribute) else \
                            c.func.id if isinstance(c.func, ast.Name) else None
                        if cn in comparing:
                            comparing.add(name)
                            changed = True
                            break
                if name in comparing:
                    break
    return comparing


def state_attrs(tree):
    cls = pyfront.classes(tree)
    out = set()
    for cname in NODE_CLASSES:
        c = cls.get(cname)
        if c is None:
            continue
        mem = pyfront.class_members(c)
        for m in ("clear", "__setstate__", "_p_deactivate"):
            fn = mem.get(m)
            if isinstance(fn, ast.FunctionDef):
                for a in ast.walk(fn):
                    if isinstance(a, ast.Assign):
                        for t in a.targets:
                            if isinstance(t, ast.Attribute) and pyfront.unparse(t.value) == "self" \
                                    and t.attr.startswith("_") and not t.attr.startswith("_p_"):
                                if isinstance(a.value, (ast.List, ast.Call, ast.ListComp)):
                                    out.add(t.attr)
    return out


def mutated_params(tree):
    """{function name: set of positions (self excluded) of parameters the
    function writes through} over the functions of _base.py, by name"""
    out = {}
    for fn in ast.walk(tree):
        if not isinstance(fn, ast.FunctionDef):
            continue
        params = [a.arg for a in fn.args.args]
        if params and params[0] == "self":
            params = params[1:]
        hit = set()
        for n in ast.walk(fn):
            name = None
            if isinstance(n, ast.Call) and isinstance(n.func, ast.Attribute) and n.func.attr in MUTATORS \
                    and isinstance(n.func.value, ast.Name):
                name = n.func.value.id
            elif isinstance(n, (ast.Assign, ast.Delete)):
                for t in n.targets:
                    if isinstance(t, ast.Subscript) and isinstance(t.value, ast.Name):
                        name = t.value.id
                        if name in params:
                            hit.add(params.index(name))
                continue
            if name in params:
                hit.add(params.index(name))
        if hit:
            out.setdefault(fn.name, set()).update(hit)
    return out


class _Walk(object):
    MUTATED = {}

    def __init__(self, fn, attrs, comparing):
        self.fn = fn
        self.attrs = attrs
        self.comparing = comparing
        self.alias = {}      # local -> (attr, stale: bool)
        self.method_alias = {}
        self.hits = []
        self.events = 0
        self.bindings = 0

    def _call_name(self, c):
        if isinstance(c.func, ast.Attribute):
            return c.func.attr
        if isinstance(c.func, ast.Name):
            return self.method_alias.get(c.func.id, c.func.id)
        return None

    def expr(self, e):
        """calls in evaluation order (approximately): inner first"""
        for n in ast.walk(e):
            if isinstance(n, ast.Call):
                nm = self._call_name(n)
                # mutation through an alias:  alias.insert(...)
                if isinstance(n.func, ast.Attribute) and isinstance(n.func.value, ast.Name) \
                        and n.func.value.id in self.alias and n.func.attr in MUTATORS:
                    self.events += 1
                    attr, stale = self.alias[n.func.value.id]
                    if stale:
                        self.hits.append((n, n.func.value.id, attr, "%s.%s(...)" % (n.func.value.id, n.func.attr)))
                # a stale alias handed to a function that writes through that parameter
                if nm in self.MUTATED:
                    for i, a in enumerate(n.args):
                        if isinstance(a, ast.Name) and a.id in self.alias and i in self.MUTATED[nm]:
                            self.events += 1
                            attr, stale = self.alias[a.id]
                            if stale:
                                self.hits.append((n, a.id, attr, "%s(..%s..), which writes through it" % (nm, a.id)))
        for n in ast.walk(e):
            if isinstance(n, ast.Call) and self._call_name(n) in self.comparing and not (
                    self._call_name(n) in ("minKey", "maxKey") and not n.args and not n.keywords):
                for k in list(self.alias):
                    self.alias[k] = (self.alias[k][0], True)
                break

    def stmt(self, st):
        if isinstance(st, ast.Assign):
            self.expr(st.value)
            for t in st.targets:
                if isinstance(t, ast.Name):
                    v = st.value
                    if isinstance(v, ast.Attribute) and pyfront.unparse(v.value) == "self":
                        if v.attr in self.attrs:
                            self.alias[t.id] = (v.attr, False)
                            self.bindings += 1
                            continue
                        self.method_alias[t.id] = v.attr
                    self.alias.pop(t.id, None)
                elif isinstance(t, ast.Subscript) and isinstance(t.value, ast.Name) and t.value.id in self.alias:
                    self.events += 1
                    attr, stale = self.alias[t.value.id]
                    if stale:
                        self.hits.append((st, t.value.id, attr, pyfront.unparse(t) + " = ..."))
                elif isinstance(t, ast.Attribute) and isinstance(t.value, ast.Subscript) and \
                        isinstance(t.value.value, ast.Name) and t.value.value.id in self.alias:
                    # alias[i].key = ...: the item belongs to the stale list
                    self.events += 1
                    attr, stale = self.alias[t.value.value.id]
                    if stale:
                        self.hits.append((st, t.value.value.id, attr, pyfront.unparse(t) + " = ..."))
            return
        if isinstance(st, ast.Delete):
            for t in st.targets:
                if isinstance(t, ast.Subscript) and isinstance(t.value, ast.Name) and t.value.id in self.alias:
                    self.events += 1
                    attr, stale = self.alias[t.value.id]
                    if stale:
                        self.hits.append((st, t.value.id, attr, "del " + pyfront.unparse(t)))
            return
        if isinstance(st, (ast.If, ast.While)):
            self.expr(st.test)
            before = dict(self.alias)
            for b in st.body:
                self.stmt(b)
            after = dict(self.alias)
            self.alias = dict(before)
            for b in st.orelse:
                self.stmt(b)
            for k, v in after.items():
                if k in self.alias:
                    self.alias[k] = (v[0], v[1] or self.alias[k][1])
                else:
                    self.alias[k] = v
            if isinstance(st, ast.While):
                # second pass: staleness acquired late in the body reaches its start
                for b in st.body:
                    self.stmt(b)
            return
        if isinstance(st, ast.For):
            self.expr(st.iter)
            for _ in (0, 1):
                for b in st.body:
                    self.stmt(b)
            for b in st.orelse:
                self.stmt(b)
            return
        if isinstance(st, ast.Try):
            for b in st.body + [x for h in st.handlers for x in h.body] + st.orelse + st.finalbody:
                self.stmt(b)
            return
        if isinstance(st, (ast.FunctionDef, ast.ClassDef)):
            return
        for child in ast.iter_child_nodes(st):
            if isinstance(child, ast.expr):
                self.expr(child)


def check(res, rule="PY-STALE-ALIAS"):
    tree = pyfront.base_py()
    attrs = state_attrs(tree)
    comparing = comparing_names(tree)
    if not {"_search", "_findbucket", "_set", "_del"} <= comparing:
        raise AnalysisError("comparing layer of _base.py not recognised (%s)" % sorted(comparing)[:12])
    if not {"_keys", "_data"} <= attrs:
        raise AnalysisError("anchor vanished: state attributes of the Python nodes (%s)" % sorted(attrs))
    cls = pyfront.classes(tree)
    _Walk.MUTATED = mutated_params(tree)
    n = 0
    aliases = 0
    for cname in NODE_CLASSES:
        c = cls.get(cname)
        if c is None:
            continue
        for fn in c.body:
            if not isinstance(fn, ast.FunctionDef) or fn.name in ("clear", "__setstate__", "__getstate__"):
                continue
            w = _Walk(fn, attrs, comparing)
            for st in fn.body:
                w.stmt(st)
            n += w.events
            aliases += w.bindings
            seen = set()
            for node, name, attr, what in w.hits:
                key = (cname, fn.name, what)
                if key in seen:
                    continue
                seen.add(key)
                res.findings.add(dict(
                    rule=rule, function="%s.%s" % (cname, fn.name), file=REL, line=node.lineno,
                    construct="write through a stale alias of self.%s: %s" % (attr, what),
                    detail="`%s` was bound to self.%s before a call into the "
                           "comparing layer; a cache sweep during a key "
                           "comparison turns the unmodified node into a ghost "
                           "and the reload installs a new list in self.%s, so "
                           "this write goes to the discarded list (the C type "
                           "pins the node for the duration of the call)" % (name, attr, attr),
                    path=[]))
    res.count(rule, n + aliases)
    res.floor("local aliases of node state lists (Python)", aliases, 9)
    res.extra["python_state_attributes"] = sorted(attrs)
    res.extra["python_comparing_functions"] = sorted(comparing)
    return n
