"""multiunion (C11): RADIX-SIGN, HIST-DIM, UNIQ-COPY, APPEND-GUARD, RESULT-LEN.

RADIX-SIGN   the byte order in which radixsort_int lays out the most
             significant byte must be 0x80..0xff,0x00..0x7f iff the resolved
             element type is signed and 0x00..0xff iff it is unsigned; every
             other byte uses 0x00..0xff
HIST-DIM     the histogram has sizeof(element_type) rows and the counting pass
             fills one row per byte (shifts 0, 8, ..)
UNIQ-COPY    uniq(out, in, n): every non-trivial return is reached only after
             the `in != out` copy decision (the radix result may live in the
             scratch buffer)
"""
from ..cir import strip, path, callee, text, const_int
from ..cfg import CFG
from ..common import AnalysisError

SIGNED = {"int": True, "long long": True, "long": True, "unsigned int": False,
          "unsigned long long": False, "unsigned long": False}
WIDTH = {"int": 4, "unsigned int": 4, "long long": 8, "unsigned long long": 8, "long": 8,
         "unsigned long": 8}


def _index_loops(stmt, last, unsigned_const, tu=None):
    """Constant ranges of the for-loops that assign index[i], in execution
    order, for the pass selected by `last`."""
    out = []

    def ev(cond):
        """truth of the pass-selection condition under the valuation"""
        c = strip(cond)
        v = const_int(c)
        if v is not None:
            return bool(v)
        if c.k == "DeclRefExpr":
            # a local that names the condition (`const int is_sign_byte = ...`)
            inits = [d.kids[-1] for d in stmt.walk() if d.k == "VarDecl" and d.n == c.n and d.kids
                     and d.kids[-1].k != "Absent"]
            assigns = [a for a in stmt.walk() if a.k == "BinaryOperator" and a.v == "=" and path(a.kids[0]) == c.n]
            if len(inits) == 1 and not assigns:
                return ev(inits[0])
            return None
        if c.k == "UnaryOperator" and c.v == "!":
            r = ev(c.kids[0])
            return None if r is None else not r
        if c.k == "BinaryOperator" and c.v == "||":
            a, b = ev(c.kids[0]), ev(c.kids[1])
            if a is True or b is True:
                return True
            if a is False and b is False:
                return False
            return None
        if c.k == "BinaryOperator" and c.v == "&&":
            a, b = ev(c.kids[0]), ev(c.kids[1])
            if a is False or b is False:
                return False
            if a is True and b is True:
                return True
            return None
        if c.k == "BinaryOperator" and c.v in ("<", "!=") and "bytenum" in text(c.kids[0]) \
                and "sizeof" in text(c.kids[1]):
            return not last
        if c.k == "BinaryOperator" and c.v in ("==", ">=") and "bytenum" in text(c.kids[0]) \
                and "sizeof" in text(c.kids[1]):
            return last
        return None

    def helper_ranges(e, env):
        """index ranges laid out by helpers called inside expression e (a
        helper whose body has the index-filling loop with bounds taken from
        its parameters)"""
        for c in e.walk():
            if c.k == "CallExpr" and callee(c)[0] == "fn" and tu is not None and callee(c)[1] in tu.funcs \
                    and callee(c)[1] != "radixsort_int":
                name = callee(c)[1]
                params = tu.params(name)
                env2 = {}
                for p0, a in zip(params, c.kids[1:]):
                    v = const_int(a)
                    if v is None and path(a) in env:
                        v = env[path(a)]
                    if v is not None:
                        env2[p0.n] = v
                walk(tu.body(name), env2)

    def bound(e, env):
        v = const_int(e)
        if v is None and path(e) in env:
            v = env[path(e)]
        return v

    def walk(s, env=None):
        env = env or {}
        if s.k == "CompoundStmt":
            for c in s.kids:
                walk(c, env)
        elif s.k == "IfStmt":
            t = ev(s.kids[0])
            if t is None:
                # conditions on counts (icount == n, i < 256): both branches
                # are data dependent; loops inside are not index loops - but a
                # helper called in the condition may lay out a range
                helper_ranges(s.kids[0], env)
                for c in s.kids[1:]:
                    walk(c, env)
            elif t:
                walk(s.kids[1], env)
            elif len(s.kids) > 2:
                walk(s.kids[2], env)
        elif s.k == "ForStmt":
            body = s.kids[-1]
            assigns = [a for a in body.walk() if a.k == "BinaryOperator" and a.v == "="
                       and text(a.kids[0]).startswith("index[")]
            if assigns:
                init, cond = s.kids[0], s.kids[2]
                lo = bound(strip(init).kids[1], env) if strip(init).k == "BinaryOperator" else None
                hi = bound(strip(cond).kids[1], env) if strip(cond).k == "BinaryOperator" else None
                out.append((lo, hi))
            else:
                walk(body, env)
        elif s.k in ("WhileStmt", "DoStmt"):
            walk(s.kids[-1] if s.k == "WhileStmt" else s.kids[0], env)
        elif s.k.endswith("Stmt"):
            pass
        else:
            helper_ranges(s, env)
    walk(stmt)
    return out


def analyse_tu(tu):
    if "radixsort_int" not in tu.funcs:
        return dict(findings=[], stats={"has_radix": False})
    findings = []
    et = tu.typedefs.get("element_type")
    kt = None
    for f, t in tu.records.get("Bucket_s", []):
        if f == "keys":
            kt = t.strip()[:-1].strip()
    kt = tu.typedefs.get(kt, kt)
    if et is None:
        raise AnalysisError("anchor vanished: typedef element_type in %s" % tu.stub)
    et = et.strip()
    fn = tu.func("radixsort_int")
    if et != kt:
        findings.append(dict(
            rule="RADIX-SIGN", function="radixsort_int", file=fn.f, line=fn.l,
            construct="element_type %s differs from KEY_TYPE %s" % (et, kt),
            detail="the sorter's element type must be the family's key type", path=[]))
    if et not in SIGNED:
        raise AnalysisError("radix: unknown element type %s" % et)
    # the radix for-loop over bytenum
    loop = None
    for s in fn.walk():
        if s.k == "ForStmt" and "bytenum" in text(s.kids[2] if len(s.kids) > 2 else s):
            loop = s
            break
    if loop is None:
        raise AnalysisError("anchor vanished: radix loop in radixsort_int")
    body = loop.kids[-1]
    last = _index_loops(body, True, not SIGNED[et], tu)
    other = _index_loops(body, False, not SIGNED[et], tu)
    want_last = [(128, 256), (0, 128)] if SIGNED[et] else [(0, 256)]
    if last != want_last:
        findings.append(dict(
            rule="RADIX-SIGN", function="radixsort_int", file=fn.f, line=loop.l,
            construct="most significant byte laid out as %s for %s keys (expected %s)" % (
                last, "signed" if SIGNED[et] else "unsigned", want_last),
            detail="the final radix pass orders the top byte %s, but the "
                   "resolved key type `%s` is %s: keys with the top bit set "
                   "end up on the wrong side and the union is not sorted" % (
                       last, et, "signed" if SIGNED[et] else "unsigned"), path=[]))
    if other != [(0, 256)]:
        findings.append(dict(
            rule="RADIX-SIGN", function="radixsort_int", file=fn.f, line=loop.l,
            construct="lower bytes laid out as %s (expected [(0, 256)])" % (other,),
            detail="every byte except the most significant one must be "
                   "distributed in plain order 0x00..0xff", path=[]))
    # HIST-DIM
    rows = None
    for v in fn.walk():
        if v.k == "VarDecl" and v.n == "count":
            import re
            m = re.search(r"\[(\d+)\]\[(\d+)\]", v.t or "")
            if m:
                rows = (int(m.group(1)), int(m.group(2)))
    shifts = sorted(set(const_int(s.kids[1]) for s in fn.walk()
                        if s.k == "BinaryOperator" and s.v == ">>" and path(s.kids[0]) == "x"
                        and const_int(s.kids[1]) is not None))
    filled = sorted(set(const_int(a.kids[1]) for a in fn.walk()
                        if a.k == "ArraySubscriptExpr" and path(a.kids[0]) == "count"
                        and const_int(a.kids[1]) is not None))
    w = WIDTH[et]
    if rows != (w, 256) or filled != list(range(w)) or shifts != [8 * i for i in range(1, w)]:
        findings.append(dict(
            rule="HIST-DIM", function="radixsort_int", file=fn.f, line=fn.l,
            construct="histogram %s rows filled %s shifts %s for a %d-byte key" % (rows, filled, shifts, w),
            detail="the byte histogram must have one 256-entry row per key "
                   "byte and the counting pass must fill every row", path=[]))
    # UNIQ-COPY
    u = tu.func("uniq")
    cfg = CFG(u)
    dom = cfg.dominators()
    params = [k.n for k in u.kids if k.k == "ParmVarDecl"]
    copy_branch = None
    for n in cfg.live_nodes():
        if n.kind == "branch" and n.e is not None:
            e = strip(n.e)
            if e.k == "BinaryOperator" and e.v in ("!=", "==") and \
                    {path(e.kids[0]), path(e.kids[1])} == set(params[:2]):
                copy_branch = n
    has_copy = any(c.k == "CallExpr" and callee(c) in (("fn", "memcpy"), ("fn", "memmove"))
                   and path(c.kids[1]) == params[0] for c in u.walk())
    if copy_branch is None or not has_copy:
        findings.append(dict(
            rule="UNIQ-COPY", function="uniq", file=u.f, line=u.l,
            construct="no `in != out` copy of the unique prefix",
            detail="when the sorted data lives in the scratch buffer (odd "
                   "number of radix passes) nothing moves it into the result", path=[]))
    else:
        for r in cfg.returns():
            if const_int(r.e) == 0:
                continue
            if copy_branch.id not in dom[r.id]:
                findings.append(dict(
                    rule="UNIQ-COPY", function="uniq", file=u.f, line=r.line,
                    construct="return %s bypasses the `in != out` copy" % text(r.e)[:30],
                    detail="uniq returns a non-empty result on a path that "
                           "skips copying the unique prefix from `in` to "
                           "`out`: after radix sort the sorted keys may still "
                           "be in the scratch buffer and the result bucket "
                           "keeps unsorted data", path=[]))
    # sort_int_nodups: uniq writes into p, result count returned
    sn = tu.func("sort_int_nodups")
    p0 = [k.n for k in sn.kids if k.k == "ParmVarDecl"][0]
    ucalls = [c for c in sn.walk() if c.k == "CallExpr" and callee(c) == ("fn", "uniq")]
    for c in ucalls:
        if path(c.kids[1]) != p0:
            findings.append(dict(
                rule="UNIQ-COPY", function="sort_int_nodups", file=c.f, line=c.l,
                construct="uniq output is %s, not %s" % (path(c.kids[1]), p0),
                detail="the de-duplicated keys must end up in the caller's array", path=[]))
    if len(ucalls) < 1:
        raise AnalysisError("anchor vanished: uniq calls in sort_int_nodups")
    findings.extend(_sorted_source(tu, sn))
    # multiunion_m: result length from sort_int_nodups
    mu = tu.func("multiunion_m")
    ok = False
    # the result set: whatever multiunion_m returns (by role, not by name)
    results = set()
    for r0 in mu.walk():
        if r0.k == "ReturnStmt" and r0.kids:
            x = strip(r0.kids[0])
            if x is not None and x.k == "DeclRefExpr" and x.rk == "VarDecl":
                results.add(x.n)
    if not results:
        raise AnalysisError("anchor vanished: result variable of multiunion_m")
    len_paths = set(v + "->len" for v in results)
    for a in mu.walk():
        if a.k == "BinaryOperator" and a.v == "=" and path(a.kids[0]) in len_paths:
            r = strip(a.kids[1])
            # directly:  result->len = (int)sort_int_nodups(...)
            if r is not None and r.k == "CallExpr" and callee(r) == ("fn", "sort_int_nodups"):
                ok = True
            if r is not None and r.k == "DeclRefExpr":
                for b in mu.walk():
                    if b.k == "BinaryOperator" and b.v == "=" and path(b.kids[0]) == r.n and \
                            any(c.k == "CallExpr" and callee(c) == ("fn", "sort_int_nodups")
                                for c in b.kids[1].walk()):
                        ok = True
    if not ok:
        findings.append(dict(
            rule="RESULT-LEN", function="multiunion_m", file=mu.f, line=mu.l,
            construct="result->len is not set from sort_int_nodups",
            detail="the result's length must be the number of unique keys", path=[]))
    return dict(findings=findings,
                stats={"has_radix": True, "element_type": et, "last_pass": last,
                       "rows": rows, "uniq_returns": len(cfg.returns())})


def append_guard(tu):
    """A store at X->keys[X->len] / X->values[X->len] is dominated by the
    capacity test X->len >= X->size (whose true side grows X)."""
    findings = []
    sites = 0
    for name in tu.order:
        fn = tu.funcs[name]
        stores = []
        for a in fn.walk():
            if a.k == "BinaryOperator" and a.v == "=":
                l0 = strip(a.kids[0])
                while l0 is not None and l0.k == "UnaryOperator" and l0.v == "*":
                    l0 = strip(l0.kids[0])
                if l0 is not None and l0.k == "ArraySubscriptExpr":
                    b, idx = strip(l0.kids[0]), strip(l0.kids[1])
                    if b is not None and b.k == "ArraySubscriptExpr":
                        b, idx = strip(b.kids[0]), strip(b.kids[1])
                    if b is not None and b.k == "MemberExpr" and b.n in ("keys", "values") and \
                            idx is not None and idx.k == "MemberExpr" and idx.n == "len" and \
                            path(idx.kids[0]) == path(b.kids[0]):
                        stores.append((a, path(b.kids[0])))
            elif a.k == "CallExpr" and callee(a) == ("fn", "memcpy") and len(a.kids) > 1:
                d = strip(a.kids[1])
                if d is not None and d.k == "ArraySubscriptExpr":
                    b, idx = strip(d.kids[0]), strip(d.kids[1])
                    if b is not None and b.k == "MemberExpr" and b.n in ("keys", "values") and \
                            idx is not None and idx.k == "MemberExpr" and idx.n == "len" and \
                            path(idx.kids[0]) == path(b.kids[0]):
                        stores.append((a, path(b.kids[0])))
        if not stores:
            continue
        cfg = CFG(fn)
        dom = cfg.dominators()
        guards = {}
        for n in cfg.live_nodes():
            if n.kind == "branch" and n.e is not None:
                e = strip(n.e)
                if e.k == "BinaryOperator" and e.v in (">=", "==", ">"):
                    a0, b0 = strip(e.kids[0]), strip(e.kids[1])
                    if a0.k == "MemberExpr" and a0.n == "len" and b0.k == "MemberExpr" and \
                            b0.n == "size" and path(a0.kids[0]) == path(b0.kids[0]):
                        guards.setdefault(path(a0.kids[0]), []).append(n)
        for a, x in stores:
            holder = None
            for n in cfg.live_nodes():
                if n.e is not None and any(y is a for y in n.e.walk()):
                    holder = n
            if holder is None:
                continue
            sites += 1
            if not any(g.id in dom[holder.id] for g in guards.get(x, [])):
                findings.append(dict(
                    rule="APPEND-GUARD", function=name, file=a.f, line=a.l,
                    construct="append to %s without capacity test" % x,
                    detail="%s->keys/values[%s->len] is written without a "
                           "dominating `%s->len >= %s->size` test that grows "
                           "the arrays: write past the end of the block" % (x, x, x, x), path=[]))
    return dict(findings=findings, sites=sites)


def _sorted_source(tu, sn):
    """SORT-SOURCE: uniq reads the array that holds the sorted keys.  After
    `radixsort_int(p, work, n)` that is the pointer it *returns* (p or work,
    depending on the number of passes); after `quicksort(p, n)` it is p.  Path
    rule over sort_int_nodups: where the sorted data is, whether uniq was given
    that place, and that every return comes after a uniq call."""
    from ..cfg import CFG
    from ..flow import Analysis, sget, sset

    class A(Analysis):
        track_flags = False

        def __init__(self, cfg, tu):
            Analysis.__init__(self, cfg, tu)
            self.bad = []

        def on_node(self, node, st):
            e = node.e
            if e is None:
                return [st]
            for n in e.walk():
                if n.k != "CallExpr" or callee(n)[0] != "fn":
                    continue
                nm = callee(n)[1]
                if nm == "radixsort_int":
                    holder = None
                    for a in e.walk():
                        if a.k == "BinaryOperator" and a.v == "=" and any(x is n for x in a.kids[1].walk()):
                            holder = path(a.kids[0])
                        if a.k == "VarDecl" and a.kids and any(x is n for x in a.kids[-1].walk()):
                            holder = a.n
                    st = sset(st, "src", ("result", holder))
                elif nm == "quicksort":
                    st = sset(st, "src", ("array", path(n.kids[1])))
                elif nm == "uniq":
                    src = sget(st, "src")
                    given = path(n.kids[2])
                    if src is None:
                        self.bad.append((n, "uniq runs on unsorted data (no sort on this path)"))
                    elif src[0] == "result" and src[1] is None:
                        self.bad.append((n, "the pointer radixsort_int returns is dropped: the sorted keys may be "
                                            "in the scratch buffer, uniq reads %s" % given))
                    elif src[1] != given:
                        self.bad.append((n, "uniq reads %s, the sorted keys are in %s" % (given, src[1])))
                    st = sset(st, "u", True)
            if node.kind == "return" and not sget(st, "u"):
                self.bad.append((node.e if node.e is not None else sn, "a return without uniq: duplicates stay"))
            return [st]

    an = A(CFG(sn), tu)
    an.solve()
    out = []
    seen = set()
    for n, what in an.bad:
        if what in seen:
            continue
        seen.add(what)
        out.append(dict(
            rule="UNIQ-COPY", function="sort_int_nodups", file=getattr(n, "f", sn.f), line=getattr(n, "l", sn.l),
            construct="sort_int_nodups: %s" % what.split(":")[0][:80],
            detail="%s; radixsort_int skips the passes of byte positions on which all keys agree, so "
                   "after an odd number of passes the sorted data is in the scratch buffer - the result "
                   "would be unsorted with duplicates" % what, path=[]))
    return out
