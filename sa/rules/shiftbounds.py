"""SHIFT-BOUNDS (C16): the in-place shifts of a node's arrays stay inside the
entries the node holds.

`memmove(A + a, A + b, n * sizeof(elem))` on the keys / values / data array of
a node X reads the elements b .. b+n-1.  They must be entries the node held on
entry to the function: b + n <= len0, where the node's `len` at the call is
len0 plus the net effect of the `len--` / `++len` statements executed before it
on that path (dataflow over the CFG).  Offsets and counts are affine terms over
the index variables; pointer locals with a single definition (`d = self->data +
min`) are resolved.  A delete that shifts before it decrements `len` moves one
element too many and reads A[len0] - past the allocation when the node is full.
Only shifts whose bound comes out as a constant are decided.
"""
from ..cir import strip, path, callee, const_int, text
from ..cfg import CFG
from ..flow import Analysis, sget, sset
from ..common import AnalysisError
from .clayout import Aff, K

ARRAYS = ("keys", "values", "data")


def _defs(fn):
    defs = {}
    for n in fn.walk():
        if n.k == "VarDecl" and n.kids and n.kids[-1].k != "Absent":
            defs.setdefault(n.n, []).append(n.kids[-1])
        elif n.k == "BinaryOperator" and n.v == "=":
            l = strip(n.kids[0])
            if l is not None and l.k == "DeclRefExpr":
                defs.setdefault(l.n, []).append(n.kids[1])
    return defs


class _NA(Exception):
    pass


def _int(e, defs):
    """affine value of an integer expression; `X->len` is the atom len(X)"""
    e = strip(e)
    c = const_int(e)
    if c is not None and e.k != "UnaryExprOrTypeTraitExpr":
        return K(c)
    if e.k == "DeclRefExpr":
        return Aff.atom(e.n)
    if e.k == "MemberExpr" and e.n in ("len", "size"):
        return Aff.atom("%s(%s)" % (e.n, path(e.kids[0])))
    if e.k == "BinaryOperator" and e.v in ("+", "-"):
        a, b = _int(e.kids[0], defs), _int(e.kids[1], defs)
        return a + b if e.v == "+" else a - b
    if e.k == "BinaryOperator" and e.v == "*":
        a, b = strip(e.kids[0]), strip(e.kids[1])
        if a.k == "UnaryExprOrTypeTraitExpr":
            return _int(b, defs)                  # sizeof(elem) * count
        if b.k == "UnaryExprOrTypeTraitExpr":
            return _int(a, defs)
        ca, cb = const_int(a), const_int(b)
        if ca is not None:
            return _int(b, defs).scale(ca)
        if cb is not None:
            return _int(a, defs).scale(cb)
    raise _NA()


def _ptr(e, defs, depth=0):
    """(owner path, array field, offset Aff) of a pointer into a node array"""
    e = strip(e)
    if e.k == "MemberExpr" and e.n in ARRAYS:
        return path(e.kids[0]), e.n, K(0)
    if e.k == "BinaryOperator" and e.v in ("+", "-"):
        try:
            o, f, off = _ptr(e.kids[0], defs, depth)
            d = _int(e.kids[1], defs)
            return o, f, off + d if e.v == "+" else off - d
        except _NA:
            if e.v == "+":
                o, f, off = _ptr(e.kids[1], defs, depth)
                return o, f, off + _int(e.kids[0], defs)
            raise
    if e.k == "DeclRefExpr" and depth < 3:
        ds = [d for d in defs.get(e.n, [])]
        ptrs = []
        for d in ds:
            try:
                ptrs.append(_ptr(d, defs, depth + 1))
            except _NA:
                return_na = True
                raise
        if len(ptrs) == 1:
            return ptrs[0]
    if e.k == "UnaryOperator" and e.v == "&":
        x = strip(e.kids[0])
        if x is not None and x.k == "ArraySubscriptExpr":
            o, f, off = _ptr(x.kids[0], defs, depth)
            return o, f, off + _int(x.kids[1], defs)
    raise _NA()


class LenDelta(Analysis):
    """net change of X->len since function entry, per owner path"""

    def on_node(self, node, st):
        e = node.e
        if e is None:
            return [st]
        for n in e.walk():
            tgt = d = None
            if n.k == "UnaryOperator" and n.v in ("post++", "post--", "pre++", "pre--", "++", "--"):
                tgt, d = strip(n.kids[0]), (1 if "+" in n.v else -1)
            elif n.k == "CompoundAssignOperator" and n.v in ("+=", "-=") and const_int(n.kids[1]) is not None:
                tgt, d = strip(n.kids[0]), const_int(n.kids[1]) * (1 if n.v == "+=" else -1)
            elif n.k == "BinaryOperator" and n.v == "=":
                l = strip(n.kids[0])
                if l is not None and l.k == "MemberExpr" and l.n == "len":
                    st = sset(st, "dl:" + (path(l.kids[0]) or "?"), "?")
                continue
            if tgt is not None and tgt.k == "MemberExpr" and tgt.n == "len":
                key = "dl:" + (path(tgt.kids[0]) or "?")
                cur = sget(st, key, 0)
                nv = "?" if cur == "?" else cur + d
                if nv != "?" and abs(nv) > 2:
                    nv = "?"                       # a loop that keeps changing len: not tracked
                st = sset(st, key, nv or None)
        return [st]


def analyse_tu(tu):
    findings = []
    decided = seen_sites = 0
    for name in tu.order:
        fn = tu.funcs[name]
        body = tu.body(name)
        if body is None or not any(n.k == "CallExpr" and callee(n) in (("fn", "memmove"), ("fn", "memcpy"))
                                   for n in body.walk()):
            continue
        defs = _defs(fn)
        an = LenDelta(CFG(fn), tu)
        an.solve()
        for nd in an.cfg.live_nodes():
            if nd.e is None:
                continue
            for call in nd.e.walk():
                if call.k != "CallExpr" or callee(call) not in (("fn", "memmove"), ("fn", "memcpy")):
                    continue
                try:
                    do, df, doff = _ptr(call.kids[1], defs)
                    so, sf, soff = _ptr(call.kids[2], defs)
                    cnt = _int(call.kids[3], defs)
                except _NA:
                    continue
                if (do, df) != (so, sf):
                    continue                      # a copy between nodes: not a shift
                seen_sites += 1
                lenatom = "len(%s)" % so
                for st in an.IN.get(nd.id, ()):
                    dl = sget(st, "dl:" + so, 0)
                    if dl == "?":
                        continue
                    # len at this point = len0 + dl
                    m = {lenatom: Aff.atom("len0") + K(dl)}
                    end = (soff + cnt).subst(m) - Aff.atom("len0")
                    c = end.const()
                    if c is None:
                        continue
                    decided += 1
                    if c > 0:
                        findings.append(dict(
                            rule="SHIFT-BOUNDS", function=name, file=call.f, line=call.l,
                            construct="shift of %s->%s reads %d element(s) past the entries the node holds"
                                      % (so, sf, c),
                            detail="%s reads elements %s .. of %s->%s, %d beyond the `len` the node had on "
                                   "entry (the length is %s at this point): when the node is full this is "
                                   "past the allocation" % (text(call)[:70], repr(soff), so, sf, c,
                                                            "len0%+d" % dl if dl else "still len0"),
                            path=[]))
                        break
    return dict(findings=findings, stats={"shift_sites": seen_sites, "shift_bounds_decided": decided})
