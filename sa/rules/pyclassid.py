"""PY-CLASS-IDENTITY (C06): the Python classes never use `self.__class__` to
decide what an object *is*.

When the C extension is importable the pure-Python classes define `__class__`
as a property that answers with the *pickle replacement class*: for an instance
of exactly `OOBTreePy` it is the C class `OOBTree` (that is how a Python tree is
pickled under the C class's name).  `type(self)` is the real class.  A type
test written against `self.__class__` (`type(child) is self.__class__`,
`isinstance(x, self.__class__)`) therefore compares with the C class and fails
for the object's own children: `__setstate__` rejects the state `__getstate__`
just produced.  Constructing through it (`self.__class__()`) builds a C object
inside a Python tree.

Rule: in every method of _base.py, `self.__class__` - directly or through a
local bound to it - is not an operand of `is` / `is not` / `==` / `!=`, not an
argument of isinstance / issubclass, and is not called.  Its legitimate uses
(the class handed to pickle in `__reduce__`, the class handed to the set
operations as a result-kind hint) are counted.
"""
import ast

from ..common import AnalysisError, SRC
from .. import pyfront

REL = SRC + "/_base.py"


def _is_selfclass(e, aliases):
    if isinstance(e, ast.Attribute) and e.attr == "__class__" and isinstance(e.value, ast.Name) and e.value.id == "self":
        return True
    return isinstance(e, ast.Name) and e.id in aliases


def py_check(res):
    tree = pyfront.base_py()
    uses = 0
    has_property = any(isinstance(f, ast.FunctionDef) and f.name == "__class__" for f in ast.walk(tree))
    if not has_property:
        # without the property `self.__class__` is `type(self)`: nothing to decide
        res.count("PY-CLASS-IDENTITY", 1)
        return
    for cls in ast.walk(tree):
        if not isinstance(cls, ast.ClassDef):
            continue
        for fn in ast.walk(cls):
            if not isinstance(fn, ast.FunctionDef) or fn.name == "__class__":
                continue
            aliases = set()
            for a in ast.walk(fn):
                if isinstance(a, ast.Assign) and len(a.targets) == 1 and isinstance(a.targets[0], ast.Name) \
                        and _is_selfclass(a.value, ()):
                    aliases.add(a.targets[0].id)
            for n in ast.walk(fn):
                if _is_selfclass(n, ()) :
                    uses += 1
                bad = None
                if isinstance(n, ast.Compare):
                    ops = list(zip(n.ops, [n.left] + n.comparators[:-1], n.comparators))
                    for op, l, r in ops:
                        if isinstance(op, (ast.Is, ast.IsNot, ast.Eq, ast.NotEq)) and (
                                _is_selfclass(l, aliases) or _is_selfclass(r, aliases)):
                            bad = "type test `%s`" % pyfront.unparse(n)[:60]
                elif isinstance(n, ast.Call):
                    if isinstance(n.func, ast.Name) and n.func.id in ("isinstance", "issubclass") and len(n.args) == 2:
                        second = n.args[1]
                        elts = second.elts if isinstance(second, ast.Tuple) else [second]
                        if any(_is_selfclass(x, aliases) for x in elts) or (
                                n.func.id == "issubclass" and _is_selfclass(n.args[0], aliases)):
                            bad = "type test `%s`" % pyfront.unparse(n)[:60]
                    elif _is_selfclass(n.func, aliases):
                        bad = "construction `%s`" % pyfront.unparse(n)[:60]
                if bad:
                    res.findings.add(dict(
                        rule="PY-CLASS-IDENTITY", function="%s.%s" % (cls.name, fn.name), file=REL, line=n.lineno,
                        construct="%s in %s.%s goes through the __class__ property" % (bad, cls.name, fn.name),
                        detail="with the C extension present `self.__class__` of an exact *Py instance is "
                               "the C class (pickle replacement), not type(self): the test fails for the "
                               "object's own children / the object built is a C one. __setstate__ then "
                               "rejects the state __getstate__ produced (three-level Python trees cannot "
                               "be reloaded)", path=[]))
    if uses < 1:
        raise AnalysisError("anchor vanished: uses of self.__class__ in _base.py")
    res.count("PY-CLASS-IDENTITY", uses)
