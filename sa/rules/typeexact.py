"""TYPE-EXACT: container kinds are recognised through subclass-tolerant tests.

Applications subclass the C container types (custom max_leaf_size, custom
_bucket_type, extra methods); conflict resolution, state loading and the set
operations must classify such instances like the base type.  The code does so
with PyObject_IsInstance against the four container type objects; the only
exact comparisons are SameType_Check(self, child) (interior node vs leaf: both
sides are Py_TYPE of an object).  The rule reports every == / != between
Py_TYPE(x) (or x->ob_type) and a type *object* (an expression of type
PyTypeObject * that is not itself Py_TYPE of something) in the functions that
classify *incoming* state - everything reachable from the __setstate__ and
_p_resolveConflict methods of the four types - unless the branch it guards
consists of assert expansions only.  (Exact tests elsewhere are fast paths in
front of a general path - multiunion - or look at objects the function itself
created - weightedIntersection - and are counted, not reported.)
"""
from ..cir import strip, callee, text, const_int
from ..common import AnalysisError


def _strip_all(e):
    while e is not None and e.k in ("ParenExpr", "ImplicitCastExpr", "CStyleCastExpr"):
        e = e.kids[-1]
    return e


def _is_type_of(e):
    x = _strip_all(e)
    if x is None:
        return False
    if x.k == "CallExpr" and callee(x) == ("fn", "Py_TYPE"):
        return True
    if x.k == "MemberExpr" and x.n == "ob_type":
        return True
    return False


def _is_type_object(e):
    x = _strip_all(e)
    if x is None or _is_type_of(x):
        return False
    t = (e.t or "").replace("struct _typeobject", "PyTypeObject").replace(" ", "")
    return t in ("PyTypeObject*", "constPyTypeObject*")


def _only_asserts(s):
    if s is None:
        return True
    if s.k == "CompoundStmt":
        return all(_only_asserts(c) for c in s.kids)
    if s.k == "NullStmt":
        return True
    return s.mo == "assert"


ENTRY_METHODS = ("__setstate__", "_p_resolveConflict")


def scope(tu):
    from .. import callgraph, ctables
    g = callgraph.build(tu)
    sc = set()
    entries = [fn for (t, m), fn in ctables.py_methods(tu).items() if m in ENTRY_METHODS]
    if len(entries) < 6:
        raise AnalysisError("TYPE-EXACT: %d state-loading / conflict-resolution entry points" % len(entries))
    for e in entries:
        sc |= {f for f in callgraph.reach(g, e) if f in tu.funcs}
    return sc


def type_exact(tu):
    findings = []
    tests = 0
    inst = 0
    sc = scope(tu)
    for name in tu.order:
        b = tu.body(name)
        if b is None:
            continue
        guarded_ok = set()
        for n in b.walk():
            if n.k == "IfStmt" and _only_asserts(n.kids[1]) and (len(n.kids) < 3 or _only_asserts(n.kids[2])):
                for c in n.kids[0].walk():
                    guarded_ok.add(id(c))
        for n in b.walk():
            if n.k == "CallExpr" and callee(n)[1] in ("PyObject_IsInstance", "PyObject_TypeCheck", "PyType_IsSubtype"):
                inst += 1
            if n.k == "BinaryOperator" and n.v in ("==", "!="):
                a, c = n.kids[0], n.kids[1]
                for x, y in ((a, c), (c, a)):
                    if _is_type_of(x) and _is_type_object(y):
                        tests += 1
                        if id(n) in guarded_ok or name not in sc:
                            continue
                        findings.append(dict(
                            rule="TYPE-EXACT", function=name, file=n.f, line=n.l,
                            construct="exact type comparison %s %s %s" % (text(_strip_all(x))[:40], n.v, text(_strip_all(y))[:40]),
                            detail="an instance of an application subclass of "
                                   "the container type fails this test; sibling "
                                   "code classifies containers with "
                                   "PyObject_IsInstance", path=[]))
    return dict(findings=findings, exact=tests, instance_tests=inst, scope=len(sc))


def tu_check(tu):
    return type_exact(tu)


def extend(res, use_cache=True):
    from .. import engine
    out = engine.map_tus("sa.rules.typeexact", "tu_check", use_cache=use_cache)
    n = 0
    for fam, r in sorted(out.items()):
        res.findings.extend(r["findings"], fam)
        n += r["exact"] + r["instance_tests"]
        if r["instance_tests"] < 4:
            raise AnalysisError("TYPE-EXACT: %s has %d subclass-tolerant type tests (anchor vanished)"
                                % (fam, r["instance_tests"]))
    res.count("TYPE-EXACT", n)
    if "TYPE-EXACT" not in res.rules:
        res.rules.append("TYPE-EXACT")
