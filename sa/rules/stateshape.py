"""Serialized state (C06): STATE-SHAPE facts and TYPE-NAMES.

The shape of a node's state is fixed by a handful of code facts - tuple sizes,
Py_BuildValue / PyArg_ParseTuple formats, the order in which keys, values and
children are laid out, the length arithmetic of the readers, the guard of the
embedded-leaf form.  They are extracted from the four C codecs (each TU) and
the Python codecs and compared with the specification
   leaf  : (items,) | (items, next)      items = k0,v0,k1,v1,.. / k0,k1,..
   tree  : None | ((leafstate,),) | ((c0,k1,c1,..), firstbucket)
and thereby with each other.
"""
import ast

from ..cir import strip, path, callee, text, const_int
from ..common import AnalysisError, SRC
from .. import pyfront, ctables

REL = SRC + "/_base.py"

SPEC = {
    "leaf_writer": {"formats": ["(O)", "OO"], "with_next_second": "self->next",
                    "sizes": ["len", "len*2"], "mapping_order": ["key", "value"]},
    "leaf_reader": {"format": "O|O", "mapping_len": "len/2", "mapping_order": ["key", "value"]},
    "set_reader": {"format": "O|O", "len_arith": None},
    "tree_writer": {"formats": ["(O)", "OO"], "size": "len*2-1", "order": ["key", "child"],
                    "second": "self->firstbucket", "empty": "None"},
    "tree_reader": {"format": "O|O", "len_arith": "(len+1)/2", "order": ["key", "child"],
                    "none_is_empty": True, "embedded_by": "PyTuple_Check"},
}


def _norm(s):
    return s.replace(" ", "").replace("(", "").replace(")", "").replace("self->", "")


def _fmt(call, idx):
    a = strip(call.kids[1 + idx])
    if a is not None and a.k == "StringLiteral":
        v = a.v or ""
        return v.strip('"').split(":")[0]
    return None


def _calls(fn, name):
    return [n for n in fn.walk() if n.k == "CallExpr" and callee(n) == ("fn", name)]


def _slot_order(fn, tuple_var):
    """kinds ('key'/'value'/'child') of the objects stored into tuple_var by
    PyTuple_SET_ITEM, in source order inside loops, judged from the macro the
    stored object was produced by."""
    order = []
    last_kind = None
    for n in fn.walk():
        if n.k == "BinaryOperator" and n.v == "=":
            if n.mo in ("COPY_KEY_TO_OBJECT",):
                last_kind = "key"
            elif n.mo in ("COPY_VALUE_TO_OBJECT",):
                last_kind = "value"
            elif "getstate" in text(n.kids[1]):
                last_kind = "leafstate"
            elif "child" in text(n.kids[1]):
                last_kind = "child"
        if n.k == "CallExpr" and callee(n) == ("fn", "PyTuple_SET_ITEM") and \
                path(n.kids[1]) == tuple_var and last_kind:
            order.append(last_kind)
    return order


def c_facts(tu):
    """role-stream layout of the five C codecs (sa/rules/clayout.py)"""
    from . import clayout
    return clayout.facts(tu)[0]


def compare_c(facts):
    from . import clayout
    return clayout.compare(facts)


def type_names(tu):
    findings = []
    fam = tu.family
    types = ctables.type_objects(tu)
    n = 0
    for var, kind in (("BucketType", "Bucket"), ("SetType", "Set"), ("BTreeType", "BTree"),
                      ("TreeSetType", "TreeSet")):
        n += 1
        t = types.get(var, {}).get("tp_name")
        want = "BTrees.%sBTree.%s%s" % (fam, fam, kind)
        if not t or t[1] != want:
            findings.append(dict(
                rule="TYPE-NAMES", function=var, file=tu.stub, line=1,
                construct="tp_name of %s is %r (expected %r)" % (var, t[1] if t else None, want),
                detail="pickles name classes by tp_name; the Python classes "
                       "are pickled under %r (_fix_pickle), so the two "
                       "implementations would write different class "
                       "references" % want, path=[]))
    return findings, n


# ---------------------------------------------------------------------------
# Python

def py_facts():
    tree = pyfront.base_py()
    cls = pyfront.classes(tree)
    facts = {}
    b = pyfront.class_members(cls["Bucket"])
    s = pyfront.class_members(cls["Set"])
    t = pyfront.class_members(cls["_Tree"])
    for m, name in ((b, "Bucket"), (s, "Set"), (t, "_Tree")):
        for meth in ("__getstate__", "__setstate__"):
            if not isinstance(m.get(meth), ast.FunctionDef):
                raise AnalysisError("anchor vanished: %s.%s" % (name, meth))
    # leaf writer (mapping)
    g = b["__getstate__"]
    rets = [pyfront.unparse(r.value) for r in ast.walk(g) if isinstance(r, ast.Return)]
    apps = [pyfront.unparse(c.args[0]) for c in ast.walk(g) if isinstance(c, ast.Call) and
            isinstance(c.func, ast.Attribute) and c.func.attr == "append" and
            pyfront.unparse(c.func.value) == "data"]
    facts["leaf_writer"] = {"returns": sorted(rets),
                            "mapping_order": ["key" if "keys" in a else "value" for a in apps][:2]}
    g = s["__getstate__"]
    facts["set_writer"] = {"returns": sorted(pyfront.unparse(r.value) for r in ast.walk(g)
                                             if isinstance(r, ast.Return)),
                           "items": [pyfront.unparse(a.value) for a in ast.walk(g)
                                     if isinstance(a, ast.Assign) and pyfront.unparse(a.targets[0]) == "data"]}
    # leaf reader (mapping)
    r = b["__setstate__"]
    rng = [pyfront.unparse(c) for c in ast.walk(r) if isinstance(c, ast.Call) and
           pyfront.unparse(c.func) == "range"]
    apps = [(pyfront.unparse(c.func.value), pyfront.unparse(c.args[0])) for c in ast.walk(r)
            if isinstance(c, ast.Call) and isinstance(c.func, ast.Attribute) and c.func.attr == "append"]
    facts["leaf_reader"] = {"range": rng, "appends": apps,
                            "two_means_next": any(isinstance(i, ast.If) and
                                                  pyfront.unparse(i.test) == "len(state) == 2"
                                                  for i in ast.walk(r))}
    r = s["__setstate__"]
    facts["set_reader"] = {"extend": [pyfront.unparse(c) for c in ast.walk(r) if isinstance(c, ast.Call)
                                      and isinstance(c.func, ast.Attribute) and c.func.attr == "extend"],
                           "two_means_next": any(isinstance(i, ast.If) and
                                                 pyfront.unparse(i.test) == "len(state) == 2"
                                                 for i in ast.walk(r))}
    # tree writer
    g = t["__getstate__"]
    rets = [pyfront.unparse(x.value) for x in ast.walk(g) if isinstance(x, ast.Return)]
    apps = [pyfront.unparse(c.args[0]) for c in ast.walk(g) if isinstance(c, ast.Call) and
            isinstance(c.func, ast.Attribute) and c.func.attr == "append" and
            pyfront.unparse(c.func.value) == "sdata"]
    first = [pyfront.unparse(a.value) for a in ast.walk(g) if isinstance(a, ast.Assign)
             and pyfront.unparse(a.targets[0]) == "sdata"]
    facts["tree_writer"] = {"returns": sorted(rets), "order": ["key" if ".key" in a else "child" for a in apps],
                            "first": first}
    r = t["__setstate__"]
    facts["tree_reader"] = {
        "none_is_empty": any(isinstance(i, ast.If) and pyfront.unparse(i.test) == "state is None" and
                             any(isinstance(x, ast.Return) for x in i.body) for i in ast.walk(r)),
        "one_means_embedded": any(isinstance(i, ast.If) and pyfront.unparse(i.test) == "len(state) == 1"
                                  and any("__setstate__(state[0][0])" in pyfront.unparse(x) for x in i.body)
                                  for i in ast.walk(r)),
        "unpack": [pyfront.unparse(a) for a in ast.walk(r) if isinstance(a, ast.Assign)
                   and pyfront.unparse(a.value) == "state"],
        "pops": [pyfront.unparse(a) for a in ast.walk(r) if isinstance(a, ast.Assign)
                 and pyfront.unparse(a.value) == "data.pop()"],
        "reversed": any("reversed(data)" in pyfront.unparse(a) for a in ast.walk(r)
                        if isinstance(a, ast.Assign)),
    }
    return facts


PY_SPEC = {
    "leaf_writer": {"returns": ["(data, self._next)", "(data,)"], "mapping_order": ["key", "value"]},
    "set_writer": {"returns": ["(data, self._next)", "(data,)"], "items": ["tuple(self._keys)"]},
    "leaf_reader": {"range": ["range(0, len(state), 2)"],
                    "appends": [("keys", "state[i]"), ("values", "state[i + 1]")],
                    "two_means_next": True},
    "set_reader": {"extend": ["self._keys.extend(state)"], "two_means_next": True},
    "tree_writer": {"returns": ["((data[0].child.__getstate__(),),)", "(tuple(sdata), self._firstbucket)", "None"],
                    "order": ["key", "child"], "first": ["[next(data).child]"]},
    "tree_reader": {"none_is_empty": True, "one_means_embedded": True,
                    "unpack": ["data, self._firstbucket = state"],
                    "pops": ["key = data.pop()", "child = data.pop()"], "reversed": True},
}


def py_check(res):
    """Python codecs: role-stream layout (sa/rules/pylayout.py) = specification."""
    from . import pylayout
    facts = pylayout.facts()
    n = 0
    fn = {"leaf_writer": "Bucket.__getstate__", "set_writer": "Set.__getstate__",
          "leaf_reader": "Bucket.__setstate__", "set_reader": "Set.__setstate__",
          "tree_writer": "_Tree.__getstate__", "tree_reader": "_Tree.__setstate__"}
    for codec, spec in pylayout.SPEC.items():
        for k, want in spec.items():
            n += 1
            g = facts[codec].get(k)
            if g != want:
                res.findings.add(dict(
                    rule="STATE-SHAPE", function=fn[codec], file=REL, line=1,
                    construct="%s.%s is %s (state format requires %s)" % (codec, k, g, want),
                    detail="the Python state codec %s deviates from the "
                           "shared state format (leaf: (k0,v0,k1,v1,..)[, next]; "
                           "set: (k0,k1,..)[, next]; tree: None | ((leafstate,),) | "
                           "((c0,k1,c1,..), firstbucket)): %s = %s, expected %s"
                           % (fn[codec], k, g, want), path=[]))
    res.count("PY-STATE-SHAPE", n)
    res.extra["python_state_facts"] = facts
    return facts


def py_class_swap(res):
    """TYPE-NAMES (Python side): _fix_pickle makes the Python classes pickle
    under the C names.  Facts, keyed on attribute names only: inside the loop
    over the container kinds every Python class gets `_BTree_reduce_as` (the
    class registered under the C name), unconditionally; where the C extension
    is absent the class is renamed, and the rename sets `__name__` and
    `__qualname__` to the same value (pickle writes __qualname__)."""
    tree = pyfront.base_py()
    fn = None
    for n in tree.body:
        if isinstance(n, ast.FunctionDef) and n.name == "_fix_pickle":
            fn = n
    if fn is None:
        raise AnalysisError("anchor vanished: _fix_pickle")
    loops = [l for l in ast.walk(fn) if isinstance(l, ast.For)]
    if len(loops) != 1:
        raise AnalysisError("_fix_pickle: expected one loop over the container kinds")
    loop = loops[0]
    kinds = [e.value for e in ast.walk(loop.iter) if isinstance(e, ast.Constant) and isinstance(e.value, str)]
    n = 0
    for k in ("Bucket", "Set", "BTree", "TreeSet"):
        n += 1
        if k not in kinds:
            res.findings.add(dict(
                rule="TYPE-NAMES", function="_fix_pickle", file=REL, line=loop.lineno,
                construct="%s is not among the kinds whose pickled name is fixed" % k,
                detail="the Python %s classes would pickle under their *Py names" % k, path=[]))

    def attr_stores(stmts, cond=None, out=None):
        out = [] if out is None else out
        for st in stmts:
            if isinstance(st, ast.Assign):
                for t in st.targets:
                    if isinstance(t, ast.Attribute):
                        out.append((t.attr, pyfront.unparse(t.value), pyfront.unparse(st.value), cond))
            elif isinstance(st, ast.If):
                attr_stores(st.body, pyfront.unparse(st.test), out)
                attr_stores(st.orelse, "not (%s)" % pyfront.unparse(st.test), out)
            elif isinstance(st, ast.Try):
                attr_stores(st.body + st.orelse + st.finalbody, cond, out)
        return out
    stores = attr_stores(loop.body)
    red = [s for s in stores if s[0] == "_BTree_reduce_as"]
    n += 1
    if not red or any(s[3] is not None for s in red):
        res.findings.add(dict(
            rule="TYPE-NAMES", function="_fix_pickle", file=REL, line=loop.lineno,
            construct="_BTree_reduce_as is not set unconditionally for every kind",
            detail="without it __reduce__ writes the *Py class into the pickle", path=[]))
    names = [s for s in stores if s[0] == "__name__"]
    quals = [s for s in stores if s[0] == "__qualname__"]
    n += 1
    if not names or not quals or set((s[1], s[2], s[3]) for s in names) != set((s[1], s[2], s[3]) for s in quals):
        res.findings.add(dict(
            rule="TYPE-NAMES", function="_fix_pickle", file=REL, line=loop.lineno,
            construct="__name__ and __qualname__ are not renamed together (%s vs %s)" % (
                sorted(set(s[2] for s in names)), sorted(set(s[2] for s in quals))),
            detail="pickle writes a class by __qualname__; where the C "
                   "extension is absent the Python classes are renamed to the "
                   "C names so that both implementations write identical "
                   "class references - renaming only one of the two leaves "
                   "*Py in the pickles", path=[]))
    res.count("PY-TYPE-NAMES", n)
