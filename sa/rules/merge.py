"""Three-way leaf merge (C07): decision-table extraction and comparison.

The merge sees keys only through the signs of three comparisons, values only
through equality tests, and cursors only through liveness and `position == 1`.
For every valuation of these finitely many atoms the first action taken by
each implementation (C bucket_merge in set and mapping mode, Python
Bucket._p_resolveConflict, Python Set._p_resolveConflict) is extracted by
propagating the valuation through the statements (constant propagation over
a finite domain - branches on anything else are an unrecognised idiom), and
compared (a) with the sibling implementations incl. the reason code and
(b) with a specification table written from the property statement.
"""
import ast
import itertools

from ..cir import strip, path, callee, text, const_int
from ..common import AnalysisError, SRC
from .. import pyfront

CUR = ("o", "c", "n")          # original, committed, new
REL = SRC + "/_base.py"


# ---------------------------------------------------------------------------
# valuations

def orderings():
    """All consistent sign triples (cmp(o,c), cmp(o,n), cmp(c,n))."""
    out = set()
    for ro, rc, rn in itertools.product(range(3), repeat=3):
        sg = lambda a, b: (a > b) - (a < b)
        out.add((sg(ro, rc), sg(ro, rn), sg(rc, rn)))
    return sorted(out)


def value_patterns():
    """Consistent (veq(o,c), veq(o,n), veq(c,n))."""
    out = []
    for a, b, c in itertools.product((True, False), repeat=3):
        if a and b and not c:
            continue
        if a and c and not b:
            continue
        if b and c and not a:
            continue
        out.append((a, b, c))
    return out


class Val(object):
    """One valuation of the atoms."""
    __slots__ = ("live", "sign", "veq", "pos1", "is_set")

    def __init__(self, live, sign, veq, pos1, is_set):
        self.live = live        # dict cursor -> bool
        self.sign = sign        # dict (a,b) -> -1/0/1
        self.veq = veq          # dict frozenset({a,b}) -> bool
        self.pos1 = pos1        # dict cursor -> bool
        self.is_set = is_set

    def sg(self, a, b):
        if a == b:
            return 0
        if (a, b) in self.sign:
            return self.sign[(a, b)]
        return -self.sign[(b, a)]

    def ve(self, a, b):
        if a == b:
            return True
        return self.veq[frozenset((a, b))]

    def key(self):
        lv = "".join(c for c in CUR if self.live[c])
        live = [c for c in CUR if self.live[c]]
        sg = ",".join("%s%s%s" % (a, "<=>"[self.sg(a, b) + 1], b)
                      for a, b in itertools.combinations(live, 2))
        ve = "" if self.is_set else " veq:" + ",".join(
            "%s%s" % (a, b) for a, b in itertools.combinations(live, 2) if self.ve(a, b))
        p1 = " first:" + "".join(c for c in live if self.pos1[c])
        return "%s live=%s [%s]%s%s" % ("set" if self.is_set else "map", lv, sg, ve, p1)


def valuations(is_set):
    for live in itertools.product((True, False), repeat=3):
        L = dict(zip(CUR, live))
        for s in orderings():
            sign = {("o", "c"): s[0], ("o", "n"): s[1], ("c", "n"): s[2]}
            # only the relations among live cursors matter; dedupe below
            for ve in (value_patterns() if not is_set else [(True, True, True)]):
                veq = {frozenset("oc"): ve[0], frozenset("on"): ve[1], frozenset("cn"): ve[2]}
                for p in itertools.product((True, False), repeat=2):
                    pos1 = {"o": False, "c": p[0], "n": p[1]}
                    yield Val(L, sign, veq, pos1, is_set)


def distinct_valuations(is_set):
    seen = {}
    for v in valuations(is_set):
        k = v.key()
        if k not in seen:
            seen[k] = v
    return seen


# ---------------------------------------------------------------------------
# canonical actions

class Action(object):
    """First action: error code, or (emit key from, value from, advanced)."""
    def __init__(self):
        self.outk = []
        self.outv = []
        self.adv = []
        self.err = None
        self.done = False

    def canon(self, v):
        if self.err is not None:
            return ("refuse", self.err)
        if self.done and not (self.outk or self.adv):
            return ("end",)
        kclass = vclass = None
        if self.outk:
            if len(self.outk) != 1:
                return ("weird", "emits %d keys" % len(self.outk))
            k = self.outk[0]
            kclass = "".join(c for c in CUR if v.live[c] and v.sg(k, c) == 0)
            if self.outv and not v.is_set:
                y = self.outv[0]
                vclass = "".join(c for c in kclass if v.ve(y, c))
                if y not in kclass:
                    vclass = "?" + y
        return ("step", kclass, vclass, "".join(sorted(set(self.adv), key=CUR.index)))


def spec(v):
    """Specification of one merge step (from the property statement).

    Returns ("refuse",) / ("end",) / ("step", keyclass, valueclass, advanced).
    """
    live = [c for c in CUR if v.live[c]]
    if not live:
        return ("end",)
    # cursors holding the minimal key
    m = [c for c in live if all(v.sg(c, d) <= 0 for d in live)]
    S = "".join(m)
    o_live, c_live, n_live = v.live["o"], v.live["c"], v.live["n"]
    if S == "ocn":
        cc = not v.is_set and not v.ve("o", "c")      # committed changed the value
        nc = not v.is_set and not v.ve("o", "n")
        if cc and nc:
            return ("refuse",)
        src = "n" if nc else ("c" if cc else "o")
        vclass = None if v.is_set else "".join(x for x in "ocn" if v.ve(src, x))
        return ("step", "ocn", vclass, "ocn")
    if S in ("oc", "on"):
        other = "n" if S == "oc" else "c"          # the side that deleted the key
        keeper = "c" if S == "oc" else "n"
        if not v.live[other]:
            # the deleting side has no further keys: it deleted the rest
            pass
        if not v.is_set and not v.ve("o", keeper):
            return ("refuse",)                    # delete vs. value change
        if v.live[other] and v.pos1[other]:
            return ("refuse",)                    # removed its then-smallest key
        return ("step", None, None, S)
    if S == "cn":
        return ("refuse",)                        # both inserted the same key
    if S == "o":
        return ("refuse",)                        # both deleted the same key
    if S in ("c", "n"):
        vclass = None if v.is_set else S
        return ("step", S, vclass, S)
    raise AssertionError(S)


def agrees_with_spec(canon, sp, v):
    if sp[0] == "refuse":
        return canon[0] == "refuse"
    if sp[0] == "end":
        return canon[0] == "end"
    if canon[0] != "step":
        return False
    _, k, val, adv = canon
    _, sk, sval, sadv = sp
    if k != sk or adv != sadv:
        return False
    if v.is_set or sk is None:
        return True
    return val == sval


# ---------------------------------------------------------------------------
# C interpreter (structured walk over the IR of bucket_merge)

class _Stop(Exception):
    pass


class CInterp(object):
    def __init__(self, tu, v, names=("i1", "i2", "i3")):
        self.tu = tu
        self.v = v
        self.cur = dict(zip(names, CUR))
        self.env = {}
        self.act = Action()

    # cursor of an expression like i2.position / &i2
    def _cursor_of(self, e):
        for n in e.walk():
            if n.k == "DeclRefExpr" and n.n in self.cur:
                return self.cur[n.n]
        return None

    def _members(self, e, field):
        out = []
        for n in e.walk():
            if n.k == "MemberExpr" and n.n == field:
                b = strip(n.kids[0])
                if b is not None and b.k == "DeclRefExpr" and b.n in self.cur:
                    c = self.cur[b.n]
                    if c not in out:
                        out.append(c)
        return out

    def ev(self, e):
        """Value of expression e (int) under the valuation; raises on unknown."""
        e = strip(e)
        k = e.k
        c = const_int(e)
        if c is not None:
            return c
        if k == "DeclRefExpr":
            if e.n == "set":
                return int(self.v.is_set)
            if e.n == "mapping":
                return int(not self.v.is_set)
            if e.n in self.env:
                return self.env[e.n]
            raise AnalysisError("merge table: unknown variable %s at %s:%s" % (e.n, e.f, e.l))
        if k == "UnaryOperator" and e.v == "!":
            return int(not self.ev(e.kids[0]))
        if k == "BinaryOperator":
            op = e.v
            if op == "&&":
                return int(bool(self.ev(e.kids[0])) and bool(self.ev(e.kids[1])))
            if op == "||":
                return int(bool(self.ev(e.kids[0])) or bool(self.ev(e.kids[1])))
            if op == ",":
                self.ev_stmt_expr(e.kids[0])
                return self.ev(e.kids[1])
            if op == "=":
                val = self.ev(e.kids[1])
                p = path(e.kids[0])
                if p is None:
                    raise AnalysisError("merge table: store to %s" % text(e.kids[0]))
                self.env[p] = val
                return val
            if op in ("==", "!=", "<", ">", "<=", ">="):
                a, b = e.kids[0], e.kids[1]
                # iN.position >= 0  -> liveness ; iN.position == 1 -> first
                pa = self._members(a, "position")
                cb = const_int(b)
                if pa and cb is not None and len(pa) == 1:
                    cu = pa[0]
                    if op == ">=" and cb == 0:
                        return int(self.v.live[cu])
                    if op == "<" and cb == 0:
                        return int(not self.v.live[cu])
                    if op == "==" and cb == 1:
                        return int(self.v.pos1[cu])
                    raise AnalysisError("merge table: position test %s" % text(e))
                # TEST_VALUE(iX.value, iY.value) == 0
                va = self._members(a, "value")
                if len(va) == 2 and cb == 0 and op in ("==", "!="):
                    r = self.v.ve(va[0], va[1])
                    return int(r if op == "==" else not r)
                # call results compared with 0: merge_output(...) < 0 etc.
                a0 = strip(a)
                if a0.k == "CallExpr" and cb == 0:
                    self.call(a0)
                    return int({"<": False, ">=": True, "==": True, "!=": False,
                                ">": False, "<=": True}[op])
                # r->len == 0 : result emptiness (epilogue) - not part of a step
                if path(a) == "r->len":
                    raise _Stop()
                x, y = self.ev(a), self.ev(b)
                return int({"==": x == y, "!=": x != y, "<": x < y, ">": x > y,
                            "<=": x <= y, ">=": x >= y}[op])
            if op == "|":
                return self.ev(e.kids[0]) | self.ev(e.kids[1])
        if k == "ConditionalOperator" or k == "CallExpr" or k == "MemberExpr":
            # a key comparison: expression mentioning exactly two cursor keys
            ks = self._members(e, "key")
            if len(ks) == 2:
                return self.v.sg(ks[0], ks[1])
            if k == "CallExpr":
                c = callee(e)
                if c == ("fn", "PyErr_Occurred"):
                    return 0
                self.call(e)
                return 0
        raise AnalysisError("merge table: unrecognised expression %s at %s:%s"
                            % (text(e)[:80], e.f, e.l))

    def call(self, e):
        c = callee(e)
        args = e.kids[1:]
        if c == ("fn", "merge_output"):
            cu = self._cursor_of(args[1])
            self.act.outk.append(cu)
            self.act.outv.append(cu)
            return
        if c[0] == "ptr" and c[1] and c[1].endswith(".next"):
            cu = self._cursor_of(e.kids[0])
            self.act.adv.append(cu)
            return
        if c == ("fn", "merge_error"):
            self.act.err = const_int(args[3])
            return
        if c == ("fn", "finiSetIteration"):
            return
        raise AnalysisError("merge table: unrecognised call %s at %s:%s" % (text(e)[:60], e.f, e.l))

    def ev_stmt_expr(self, e):
        e0 = strip(e)
        if e0.k == "CallExpr":
            self.call(e0)
        else:
            self.ev(e0)

    def run(self, stmts):
        try:
            for s in stmts:
                self.stmt(s)
            self.act.done = True
        except _Stop:
            if not (self.act.outk or self.act.adv or self.act.err is not None):
                self.act.done = True
        return self.act

    def stmt(self, s):
        k = s.k
        if k == "CompoundStmt":
            for c in s.kids:
                self.stmt(c)
        elif k == "NullStmt":
            pass
        elif k == "IfStmt":
            if self.ev(s.kids[0]):
                self.stmt(s.kids[1])
            elif len(s.kids) > 2:
                self.stmt(s.kids[2])
        elif k == "WhileStmt":
            if self.ev(s.kids[0]):
                self.stmt(s.kids[-1])
                raise _Stop()          # one iteration = one step
        elif k == "GotoStmt":
            raise _Stop()
        elif k == "ReturnStmt":
            raise _Stop()
        elif k == "DeclStmt":
            pass
        elif k.endswith("Stmt"):
            raise AnalysisError("merge table: unrecognised statement %s at %s:%s" % (k, s.f, s.l))
        else:
            self.ev_stmt_expr(s)


def c_merge_statements(tu):
    """Statements of bucket_merge from the first merge loop up to (excluding)
    the epilogue."""
    body = tu.body("bucket_merge")
    kids = list(body.kids)
    first = None
    for i, s in enumerate(kids):
        if s.k == "WhileStmt":
            first = i
            break
    if first is None:
        raise AnalysisError("anchor vanished: merge loops of bucket_merge")
    return kids[first:]


def c_table(tu, is_set):
    stmts = c_merge_statements(tu)
    out = {}
    for key, v in distinct_valuations(is_set).items():
        out[key] = (v, CInterp(tu, v).run(stmts).canon(v))
    return out


# ---------------------------------------------------------------------------
# Python interpreter

class PyInterp(object):
    def __init__(self, fn, v, names=("i_old", "i_com", "i_new")):
        self.fn = fn
        self.v = v
        self.cur = dict(zip(names, CUR))
        self.env = {}
        self.act = Action()
        self.defs = {n.name: n for n in fn.body if isinstance(n, ast.FunctionDef)}

    def _cur(self, e, bind=None):
        if isinstance(e, ast.Name):
            if bind and e.id in bind:
                return bind[e.id]
            return self.cur.get(e.id)
        return None

    def _attr(self, e, bind=None):
        """(cursor, attr) for i_X.attr"""
        if isinstance(e, ast.Attribute):
            c = self._cur(e.value, bind)
            if c is not None:
                return c, e.attr
        return None

    def ev(self, e, bind=None):
        if isinstance(e, ast.Constant):
            return e.value
        if isinstance(e, ast.Name):
            if e.id in self.env:
                return self.env[e.id]
            raise AnalysisError("merge table (py): unknown name %s line %s" % (e.id, e.lineno))
        if isinstance(e, ast.UnaryOp) and isinstance(e.op, ast.Not):
            return not self.ev(e.operand, bind)
        if isinstance(e, ast.BoolOp):
            vals = e.values
            if isinstance(e.op, ast.And):
                for x in vals:
                    if not self.ev(x, bind):
                        return False
                return True
            for x in vals:
                if self.ev(x, bind):
                    return True
            return False
        a = self._attr(e, bind)
        if a is not None:
            if a[1] == "active":
                return self.v.live[a[0]]
            raise AnalysisError("merge table (py): bare use of %s" % pyfront.unparse(e))
        if isinstance(e, ast.Call):
            fname = pyfront.unparse(e.func)
            if fname == "compare" and len(e.args) == 2:
                x, y = self._attr(e.args[0], bind), self._attr(e.args[1], bind)
                if x and y and x[1] == "key" and y[1] == "key":
                    return self.v.sg(x[0], y[0])
            if fname == "len":
                raise _Stop()
            raise AnalysisError("merge table (py): call %s line %s" % (fname, e.lineno))
        if isinstance(e, ast.Compare) and len(e.ops) == 1:
            l, r, op = e.left, e.comparators[0], e.ops[0]
            x, y = self._attr(l, bind), self._attr(r, bind)
            if x and y and x[1] == "value" and y[1] == "value" and isinstance(op, (ast.Eq, ast.NotEq)):
                res = self.v.ve(x[0], y[0])
                return res if isinstance(op, ast.Eq) else not res
            if x and x[1] == "position" and isinstance(r, ast.Constant) and r.value == 1 \
                    and isinstance(op, ast.Eq):
                return self.v.pos1[x[0]]
            if x and x[1] == "key" or y and y[1] == "key":
                raise AnalysisError("merge table (py): direct key comparison %s" % pyfront.unparse(e))
            a, b = self.ev(l, bind), self.ev(r, bind)
            return {ast.Eq: a == b, ast.NotEq: a != b, ast.Lt: a < b, ast.Gt: a > b,
                    ast.LtE: a <= b, ast.GtE: a >= b}[type(op)]
        raise AnalysisError("merge table (py): unrecognised expression %s line %s"
                            % (pyfront.unparse(e)[:60], getattr(e, "lineno", "?")))

    def call_stmt(self, c, bind=None):
        fname = pyfront.unparse(c.func)
        # it.advance()
        if isinstance(c.func, ast.Attribute) and c.func.attr == "advance":
            cu = self._cur(c.func.value, bind)
            if cu is None:
                raise AnalysisError("merge table (py): advance on %s" % fname)
            self.act.adv.append(cu)
            return
        # result._keys.append(it.key) / result._values.append(it.value)
        if isinstance(c.func, ast.Attribute) and c.func.attr == "append" and len(c.args) == 1:
            a = self._attr(c.args[0], bind)
            tgt = pyfront.unparse(c.func.value)
            if a and tgt == "result._keys" and a[1] == "key":
                self.act.outk.append(a[0])
                return
            if a and tgt == "result._values" and a[1] == "value":
                self.act.outv.append(a[0])
                return
        if isinstance(c.func, ast.Name) and c.func.id in self.defs:
            d = self.defs[c.func.id]
            params = [p.arg for p in d.args.args]
            b = {}
            for p, arg in zip(params, c.args):
                cu = self._cur(arg, bind)
                if cu is not None:
                    b[p] = cu
                else:
                    self.env[p] = self.ev(arg, bind)
            self.block(d.body, b)
            return
        raise AnalysisError("merge table (py): unrecognised call %s line %s" % (fname, c.lineno))

    def block(self, body, bind=None):
        for st in body:
            self.stmt(st, bind)

    def stmt(self, st, bind=None):
        if isinstance(st, ast.If):
            if self.ev(st.test, bind):
                self.block(st.body, bind)
            else:
                self.block(st.orelse, bind)
        elif isinstance(st, ast.While):
            if self.ev(st.test, bind):
                self.block(st.body, bind)
                raise _Stop()
        elif isinstance(st, ast.Raise):
            exc = st.exc
            if isinstance(exc, ast.Call):
                name = pyfront.unparse(exc.func)
                if name == "merge_error" and exc.args:
                    self.act.err = self.ev(exc.args[0], bind)
                    raise _Stop()
                if name == "BTreesConflictError" and len(exc.args) == 4:
                    self.act.err = self.ev(exc.args[3], bind)
                    raise _Stop()
            raise AnalysisError("merge table (py): raise %s" % pyfront.unparse(st))
        elif isinstance(st, ast.Assign) and len(st.targets) == 1:
            t = st.targets[0]
            if isinstance(t, ast.Name):
                self.env[t.id] = self.ev(st.value, bind)
            elif isinstance(t, ast.Subscript) and pyfront.unparse(t.value) == "result":
                k, val = self._attr(t.slice, bind), self._attr(st.value, bind)
                if not (k and val and k[1] == "key" and val[1] == "value"):
                    raise AnalysisError("merge table (py): %s" % pyfront.unparse(st))
                self.act.outk.append(k[0])
                self.act.outv.append(val[0])
            elif pyfront.unparse(t) == "result._next":
                raise _Stop()
            else:
                raise AnalysisError("merge table (py): assignment %s" % pyfront.unparse(st))
        elif isinstance(st, ast.Expr) and isinstance(st.value, ast.Call):
            self.call_stmt(st.value, bind)
        elif isinstance(st, ast.Expr) and isinstance(st.value, ast.Constant):
            pass
        elif isinstance(st, ast.Return):
            raise _Stop()
        elif isinstance(st, (ast.FunctionDef, ast.Pass)):
            pass
        else:
            raise AnalysisError("merge table (py): unrecognised statement %s line %s"
                                % (type(st).__name__, st.lineno))

    def run(self, stmts):
        try:
            self.block(stmts)
            self.act.done = True
        except _Stop:
            if not (self.act.outk or self.act.adv or self.act.err is not None):
                self.act.done = True
        return self.act


def py_merge_function(kind):
    tree = pyfront.base_py()
    r = pyfront.resolve(tree, kind, "_p_resolveConflict")
    if r is None or r[1] is None:
        raise AnalysisError("anchor vanished: %s._p_resolveConflict" % kind)
    return r[1]


def py_merge_statements(fn):
    first = None
    for i, s in enumerate(fn.body):
        if isinstance(s, ast.While):
            first = i
            break
    if first is None:
        raise AnalysisError("anchor vanished: merge loops of %s" % fn.name)
    return fn.body[first:]


def py_table(kind):
    fn = py_merge_function(kind)
    stmts = py_merge_statements(fn)
    is_set = kind == "Set"
    out = {}
    for key, v in distinct_valuations(is_set).items():
        out[key] = (v, PyInterp(fn, v).run(stmts).canon(v))
    return out, fn


# ---------------------------------------------------------------------------
# REFUSAL-PRELUDE and UNWRAP-TABLE

def _connected(pairs, nodes):
    seen = {nodes[0]}
    changed = True
    while changed:
        changed = False
        for a, b in pairs:
            if a in seen and b not in seen:
                seen.add(b); changed = True
            if b in seen and a not in seen:
                seen.add(a); changed = True
    return seen == set(nodes)


def c_prelude(tu):
    """Facts about the refusal prelude of the C leaf resolution."""
    findings = []
    facts = {}
    fn = tu.func("_bucket__p_resolveConflict")
    guard = None
    for n in fn.walk():
        if n.k == "IfStmt":
            nx = [m for m in n.kids[0].walk() if m.k == "MemberExpr" and m.n == "next"]
            if nx:
                guard = n
    if guard is None:
        raise AnalysisError("anchor vanished: successor-link guard in _bucket__p_resolveConflict")
    pairs, bad = [], []

    def disj(e):
        e = strip(e)
        if e.k == "BinaryOperator" and e.v == "||":
            disj(e.kids[0]); disj(e.kids[1])
        elif e.k == "BinaryOperator" and e.v == "!=":
            a, b = path(e.kids[0]), path(e.kids[1])
            pairs.append((a, b))
        else:
            bad.append(text(e))
    disj(guard.kids[0])
    facts["successor_guard"] = pairs
    nodes = ["b[0]->next", "b[1]->next", "b[2]->next"]
    then_codes = [const_int(c.kids[4]) for c in guard.kids[1].walk()
                  if c.k == "CallExpr" and callee(c) == ("fn", "merge_error")]
    els = guard.kids[2] if len(guard.kids) > 2 else None
    merges = [c for c in (els.walk() if els is not None else []) if c.k == "CallExpr"
              and callee(c) == ("fn", "bucket_merge")]
    if bad or not _connected(pairs, nodes) or any(p[0] not in nodes or p[1] not in nodes for p in pairs):
        findings.append(dict(
            rule="REFUSAL-PRELUDE", function="_bucket__p_resolveConflict", file=guard.f,
            line=guard.l, construct="successor guard %s" % text(guard.kids[0])[:100],
            detail="the successor-link refusal must compare the next pointer of "
                   "all three states (original, committed, new); the guard "
                   "compares %s" % (pairs,), path=[]))
    if then_codes != [0]:
        findings.append(dict(
            rule="REFUSAL-PRELUDE", function="_bucket__p_resolveConflict", file=guard.f,
            line=guard.l, construct="successor refusal code %s" % then_codes,
            detail="a changed successor link must refuse with reason 0", path=[]))
    if not merges or [path(a) for a in merges[0].kids[1:]] != ["b[0]", "b[1]", "b[2]"]:
        findings.append(dict(
            rule="REFUSAL-PRELUDE", function="_bucket__p_resolveConflict", file=guard.f,
            line=guard.l, construct="bucket_merge argument order",
            detail="bucket_merge must receive (original, committed, new) in "
                   "this order on the non-refusing branch", path=[]))
    # bucket_merge: emptiness refusal (12) before the loops, empty result (10) after
    bm = tu.body("bucket_merge")
    kids = list(bm.kids)
    first_loop = next((i for i, s in enumerate(kids) if s.k == "WhileStmt"), None)
    last_loop = max((i for i, s in enumerate(kids) if s.k == "WhileStmt"), default=None)
    e12 = e10 = nextcopy = None
    for i, s in enumerate(kids):
        if s.k == "IfStmt":
            codes = [const_int(c.kids[4]) for c in s.walk()
                     if c.k == "CallExpr" and callee(c) == ("fn", "merge_error")]
            lens = sorted(set(path(m.kids[0]) for m in s.kids[0].walk()
                              if m.k == "MemberExpr" and m.n == "len"))
            if codes == [12]:
                e12 = (i, lens, text(s.kids[0]))
            if codes == [10]:
                e10 = (i, lens)
            if any(path(m) == "r->next" for m in s.walk() if m.k == "MemberExpr") and \
                    any(path(m) == "s1->next" for m in s.walk() if m.k == "MemberExpr"):
                nextcopy = i
    facts["empty_side_check"] = e12
    facts["empty_result_check"] = e10
    if e12 is None or e12[0] > first_loop or e12[1] != ["s2", "s3"] or "&&" in e12[2]:
        findings.append(dict(
            rule="REFUSAL-PRELUDE", function="bucket_merge", file=bm.f, line=bm.l,
            construct="empty-side refusal (12): %s" % (e12,),
            detail="bucket_merge must refuse with reason 12 when the committed "
                   "OR the new state is empty, before the merge walk", path=[]))
    if e10 is None or e10[0] < last_loop or e10[1] != ["r"]:
        findings.append(dict(
            rule="REFUSAL-PRELUDE", function="bucket_merge", file=bm.f, line=bm.l,
            construct="empty-result refusal (10): %s" % (e10,),
            detail="an empty merge result must be refused with reason 10 "
                   "after the merge walk", path=[]))
    if nextcopy is None:
        findings.append(dict(
            rule="REFUSAL-PRELUDE", function="bucket_merge", file=bm.f, line=bm.l,
            construct="successor link not carried to the result",
            detail="the merged state must keep the original successor link "
                   "(r->next = s1->next)", path=[]))
    return findings, facts


def py_prelude(kind):
    fn = py_merge_function(kind)
    findings = []
    facts = {}
    first_loop = next(i for i, s in enumerate(fn.body) if isinstance(s, ast.While))
    last_loop = max(i for i, s in enumerate(fn.body) if isinstance(s, ast.While))
    g0 = g12 = g10 = carry = None
    for i, s in enumerate(fn.body):
        if isinstance(s, ast.If):
            codes = []
            for r in ast.walk(s):
                if isinstance(r, ast.Raise) and isinstance(r.exc, ast.Call) and r.exc.args:
                    a = r.exc.args[-1] if pyfront.unparse(r.exc.func) == "BTreesConflictError" else r.exc.args[0]
                    if isinstance(a, ast.Constant):
                        codes.append(a.value)
            if codes == [0]:
                g0 = (i, s)
            elif codes == [12]:
                g12 = (i, s)
            elif codes == [10]:
                g10 = (i, s)
        if isinstance(s, ast.Assign) and pyfront.unparse(s.targets[0]) == "result._next":
            carry = (i, pyfront.unparse(s.value))
    where = "%s._p_resolveConflict" % kind

    def bad(construct, detail, line):
        findings.append(dict(rule="REFUSAL-PRELUDE", function=where, file=REL, line=line,
                             construct=construct, detail=detail, path=[]))
    if g0 is None or g0[0] > first_loop:
        bad("successor refusal (0) missing", "a changed successor link must refuse with reason 0 before the walk", fn.lineno)
    else:
        t = g0[1].test
        pairs = []
        ok = isinstance(t, ast.BoolOp) and isinstance(t.op, ast.Or)
        for c in (t.values if ok else [t]):
            if isinstance(c, ast.Compare) and len(c.ops) == 1 and isinstance(c.ops[0], (ast.NotEq, ast.IsNot)):
                pairs.append((pyfront.unparse(c.left), pyfront.unparse(c.comparators[0])))
            else:
                ok = False
        nodes = ["b_old._next", "b_com._next", "b_new._next"]
        facts["successor_guard"] = pairs
        if not ok or not _connected(pairs, nodes) or any(a not in nodes or b not in nodes for a, b in pairs):
            bad("successor guard %s" % pyfront.unparse(t)[:100],
                "the successor-link refusal must compare _next of all three states", g0[1].lineno)
    if g12 is None or g12[0] > first_loop or (g0 and g12[0] < g0[0]):
        bad("empty-side refusal (12) missing or misplaced", "must refuse with reason 12 when the committed or the new state is empty, after the successor check and before the walk", fn.lineno)
    else:
        t = g12[1].test
        names = sorted(pyfront.unparse(v.operand) for v in (t.values if isinstance(t, ast.BoolOp) else [t])
                       if isinstance(v, ast.UnaryOp) and isinstance(v.op, ast.Not))
        if not (isinstance(t, ast.BoolOp) and isinstance(t.op, ast.Or) and names == ["b_com", "b_new"]):
            bad("empty-side guard %s" % pyfront.unparse(t), "reason 12 must fire when b_com OR b_new is empty", g12[1].lineno)
    if g10 is None or g10[0] < last_loop:
        bad("empty-result refusal (10) missing", "an empty result must be refused with reason 10 after the walk", fn.lineno)
    if carry is None or carry[1] != "b_old._next":
        bad("successor link not carried (%s)" % (carry,), "result._next must be the original successor", fn.lineno)
    return findings, facts


# shapes for the state unwrapping
SHAPES = {
    "None": None,
    "non-tuple": "x",
    "2-tuple (multi-leaf tree)": ("t", [("t", []), "x"]),
    "0-tuple": ("t", []),
    "3-tuple": ("t", ["x", "x", "x"]),
    "1-tuple of non-tuple": ("t", ["x"]),
    "1-tuple of 2-tuple": ("t", [("t", ["x", "x"])]),
    "1-tuple of 1-tuple of non-tuple": ("t", [("t", ["x"])]),
    "((bucket state,),)": ("t", [("t", [("t", ["x"])])]),
}
UNWRAP_SPEC = {
    "None": "return None", "non-tuple": "TypeError",
    "2-tuple (multi-leaf tree)": "refuse 11", "0-tuple": "TypeError", "3-tuple": "TypeError",
    "1-tuple of non-tuple": "TypeError", "1-tuple of 2-tuple": "TypeError",
    "1-tuple of 1-tuple of non-tuple": "TypeError", "((bucket state,),)": "return inner",
}


def _is_tuple(s):
    return isinstance(s, tuple) and s[0] == "t"


def c_unwrap(tu):
    fn = tu.func("get_bucket_state")
    body = tu.body("get_bucket_state")
    pname = tu.params("get_bucket_state")[0].n
    out = {}
    for name, shape in SHAPES.items():
        env = {pname: shape}

        def ev(e):
            e = strip(e)
            c = const_int(e)
            if c is not None:
                return c
            if e.k == "DeclRefExpr":
                return env[e.n]
            if e.k == "UnaryOperator" and e.v == "!":
                return int(not ev(e.kids[0]))
            if e.k == "UnaryOperator" and e.v == "&" and text(e) == "&_Py_NoneStruct":
                return None
            if e.k == "BinaryOperator" and e.v in ("||", "&&"):
                a = ev(e.kids[0])
                if e.v == "||":
                    return int(bool(a) or bool(ev(e.kids[1])))
                return int(bool(a) and bool(ev(e.kids[1])))
            if e.k == "BinaryOperator" and e.v in ("==", "!="):
                a, b = ev(e.kids[0]), ev(e.kids[1])
                return int((a == b) == (e.v == "=="))
            if e.k == "CallExpr":
                c2 = callee(e)
                args = e.kids[1:]
                if c2 == ("fn", "PyTuple_GET_SIZE"):
                    v = ev(args[0])
                    if not _is_tuple(v):
                        raise AnalysisError("unwrap: size of non-tuple")
                    return len(v[1])
                if c2 == ("fn", "PyTuple_GET_ITEM"):
                    v = ev(args[0])
                    return v[1][ev(args[1])]
                if c2 == ("fn", "PyType_HasFeature") or "PyTuple_Check" in text(e):
                    return int(_is_tuple(ev(args[0]))) if c2[1] != "PyType_HasFeature" else \
                        int(_is_tuple(_typeof_arg(args[0], env)))
            if e.k == "BinaryOperator" and e.v == "=":
                v = ev(e.kids[1])
                env[path(e.kids[0])] = v
                return v
            if e.k == "ArraySubscriptExpr":
                b = strip(e.kids[0])
                if b is not None and b.k == "MemberExpr" and b.n == "ob_item":
                    cont = _typeof_arg(b, env)
                    if not _is_tuple(cont):
                        raise AnalysisError("unwrap (C): item of non-tuple")
                    return cont[1][ev(e.kids[1])]
            raise AnalysisError("unwrap (C): unrecognised %s at %s:%s" % (text(e)[:60], e.f, e.l))

        def _typeof_arg(a, env2):
            # PyType_HasFeature(Py_TYPE(t), TUPLE_SUBCLASS)
            for n in a.walk():
                if n.k == "DeclRefExpr" and n.n in env2:
                    return env2[n.n]
            raise AnalysisError("unwrap (C): PyTuple_Check operand")

        res = None

        def run(s):
            nonlocal res
            if res is not None:
                return
            if s.k == "CompoundStmt":
                for c in s.kids:
                    run(c)
            elif s.k == "IfStmt":
                if ev(s.kids[0]):
                    run(s.kids[1])
                elif len(s.kids) > 2:
                    run(s.kids[2])
            elif s.k == "ReturnStmt":
                r = strip(s.kids[0])
                if r.k == "CallExpr" and callee(r) == ("fn", "merge_error"):
                    res = "refuse %s" % const_int(r.kids[4])
                elif const_int(r) == 0:
                    res = "TypeError" if seterr[0] else "NULL without error"
                else:
                    v = ev(r)
                    res = "return None" if v is None else ("return inner" if v == ("t", ["x"]) else "return %r" % (v,))
            elif s.k == "CallExpr" or (s.k not in ("DeclStmt", "NullStmt") and not s.k.endswith("Stmt")):
                s0 = strip(s)
                if s0.k == "CallExpr" and callee(s0) == ("fn", "PyErr_SetString"):
                    seterr[0] = "TypeError" in text(s0.kids[1])
                else:
                    ev(s0)
        seterr = [False]
        run(body)
        out[name] = res or "falls off"
    return out


def py_unwrap():
    tree = pyfront.base_py()
    fn = pyfront.functions(tree).get("_get_simple_btree_bucket_state")
    if fn is None:
        raise AnalysisError("anchor vanished: _get_simple_btree_bucket_state")
    pname = fn.args.args[0].arg
    out = {}
    for name, shape in SHAPES.items():
        env = {pname: shape}

        def ev(e):
            if isinstance(e, ast.Constant):
                return e.value
            if isinstance(e, ast.Name):
                return env[e.id]
            if isinstance(e, ast.UnaryOp) and isinstance(e.op, ast.Not):
                return not ev(e.operand)
            if isinstance(e, ast.BoolOp):
                if isinstance(e.op, ast.Or):
                    return any(ev(v) for v in e.values)
                return all(ev(v) for v in e.values)
            if isinstance(e, ast.Compare) and len(e.ops) == 1:
                a, b = ev(e.left), ev(e.comparators[0])
                op = e.ops[0]
                if isinstance(op, (ast.Is, ast.Eq)):
                    return a == b
                if isinstance(op, (ast.IsNot, ast.NotEq)):
                    return a != b
            if isinstance(e, ast.Call):
                f = pyfront.unparse(e.func)
                if f == "isinstance" and pyfront.unparse(e.args[1]) == "tuple":
                    return _is_tuple(ev(e.args[0]))
                if f == "len":
                    v = ev(e.args[0])
                    if not _is_tuple(v):
                        raise AnalysisError("unwrap (py): len of non-tuple")
                    return len(v[1])
            if isinstance(e, ast.Subscript):
                return ev(e.value)[1][ev(e.slice)]
            raise AnalysisError("unwrap (py): unrecognised %s" % pyfront.unparse(e))
        res = None
        for st in fn.body:
            if res is not None:
                break

            def run(st):
                nonlocal res
                if isinstance(st, ast.If):
                    for b in (st.body if ev(st.test) else st.orelse):
                        if res is None:
                            run(b)
                elif isinstance(st, ast.Return):
                    v = ev(st.value)
                    res = "return None" if v is None else ("return inner" if v == ("t", ["x"]) else "return %r" % (v,))
                elif isinstance(st, ast.Raise):
                    nm = pyfront.unparse(st.exc.func)
                    if nm == "BTreesConflictError":
                        res = "refuse %s" % st.exc.args[3].value
                    else:
                        res = nm
                elif isinstance(st, ast.Assign):
                    env[st.targets[0].id] = ev(st.value)
                elif isinstance(st, ast.Expr):
                    pass
                else:
                    raise AnalysisError("unwrap (py): statement %s" % type(st).__name__)
            run(st)
        out[name] = res or "falls off"
    return out
