"""Three-way leaf merge (C07): decision-table extraction and comparison.

The merge sees keys only through the signs of three comparisons, values only
through equality tests, and cursors only through liveness and `position == 1`.
For every valuation of these finitely many atoms the first action taken by
each implementation (C bucket_merge in set and mapping mode, Python
Bucket._p_resolveConflict, Python Set._p_resolveConflict) is extracted by
propagating the valuation through the statements (constant propagation over
a finite domain - branches on anything else are an unrecognised idiom), and
compared (a) with the sibling implementations incl. the reason code and
(b) with a specification table written from the property statement.
"""
import ast
import itertools

from ..cir import strip, path, callee, text, const_int
from ..common import AnalysisError, SRC
from .. import pyfront

CUR = ("o", "c", "n")          # original, committed, new
REL = SRC + "/_base.py"


# ---------------------------------------------------------------------------
# valuations

def orderings():
    """All consistent sign triples (cmp(o,c), cmp(o,n), cmp(c,n))."""
    out = set()
    for ro, rc, rn in itertools.product(range(3), repeat=3):
        sg = lambda a, b: (a > b) - (a < b)
        out.add((sg(ro, rc), sg(ro, rn), sg(rc, rn)))
    return sorted(out)


def value_patterns():
    """Consistent (veq(o,c), veq(o,n), veq(c,n))."""
    out = []
    for a, b, c in itertools.product((True, False), repeat=3):
        if a and b and not c:
            continue
        if a and c and not b:
            continue
        if b and c and not a:
            continue
        out.append((a, b, c))
    return out


class Val(object):
    """One valuation of the atoms."""
    __slots__ = ("live", "sign", "veq", "pos1", "is_set")

    def __init__(self, live, sign, veq, pos1, is_set):
        self.live = live        # dict cursor -> bool
        self.sign = sign        # dict (a,b) -> -1/0/1
        self.veq = veq          # dict frozenset({a,b}) -> bool
        self.pos1 = pos1        # dict cursor -> bool
        self.is_set = is_set

    def sg(self, a, b):
        if a == b:
            return 0
        if (a, b) in self.sign:
            return self.sign[(a, b)]
        return -self.sign[(b, a)]

    def ve(self, a, b):
        if a == b:
            return True
        return self.veq[frozenset((a, b))]

    def key(self):
        lv = "".join(c for c in CUR if self.live[c])
        live = [c for c in CUR if self.live[c]]
        sg = ",".join("%s%s%s" % (a, "<=>"[self.sg(a, b) + 1], b)
                      for a, b in itertools.combinations(live, 2))
        ve = "" if self.is_set else " veq:" + ",".join(
            "%s%s" % (a, b) for a, b in itertools.combinations(live, 2) if self.ve(a, b))
        p1 = " first:" + "".join(c for c in live if self.pos1[c])
        return "%s live=%s [%s]%s%s" % ("set" if self.is_set else "map", lv, sg, ve, p1)


def valuations(is_set):
    for live in itertools.product((True, False), repeat=3):
        L = dict(zip(CUR, live))
        for s in orderings():
            sign = {("o", "c"): s[0], ("o", "n"): s[1], ("c", "n"): s[2]}
            # only the relations among live cursors matter; dedupe below
            for ve in (value_patterns() if not is_set else [(True, True, True)]):
                veq = {frozenset("oc"): ve[0], frozenset("on"): ve[1], frozenset("cn"): ve[2]}
                for p in itertools.product((True, False), repeat=2):
                    pos1 = {"o": False, "c": p[0], "n": p[1]}
                    yield Val(L, sign, veq, pos1, is_set)


def distinct_valuations(is_set):
    seen = {}
    for v in valuations(is_set):
        k = v.key()
        if k not in seen:
            seen[k] = v
    return seen


# ---------------------------------------------------------------------------
# canonical actions

class Action(object):
    """First action: error code, or (emit key from, value from, advanced)."""
    def __init__(self):
        self.outk = []
        self.outv = []
        self.adv = []
        self.err = None
        self.done = False

    def canon(self, v):
        if self.err is not None:
            return ("refuse", self.err)
        if self.done and not (self.outk or self.adv):
            return ("end",)
        kclass = vclass = None
        if self.outk:
            if len(self.outk) != 1:
                return ("weird", "emits %d keys" % len(self.outk))
            k = self.outk[0]
            kclass = "".join(c for c in CUR if v.live[c] and v.sg(k, c) == 0)
            if self.outv and not v.is_set:
                y = self.outv[0]
                vclass = "".join(c for c in kclass if v.ve(y, c))
                if y not in kclass:
                    vclass = "?" + y
        return ("step", kclass, vclass, "".join(sorted(set(self.adv), key=CUR.index)))


def spec(v):
    """Specification of one merge step (from the property statement).

    Returns ("refuse",) / ("end",) / ("step", keyclass, valueclass, advanced).
    """
    live = [c for c in CUR if v.live[c]]
    if not live:
        return ("end",)
    # cursors holding the minimal key
    m = [c for c in live if all(v.sg(c, d) <= 0 for d in live)]
    S = "".join(m)
    o_live, c_live, n_live = v.live["o"], v.live["c"], v.live["n"]
    if S == "ocn":
        cc = not v.is_set and not v.ve("o", "c")      # committed changed the value
        nc = not v.is_set and not v.ve("o", "n")
        if cc and nc:
            return ("refuse",)
        src = "n" if nc else ("c" if cc else "o")
        vclass = None if v.is_set else "".join(x for x in "ocn" if v.ve(src, x))
        return ("step", "ocn", vclass, "ocn")
    if S in ("oc", "on"):
        other = "n" if S == "oc" else "c"          # the side that deleted the key
        keeper = "c" if S == "oc" else "n"
        if not v.live[other]:
            # the deleting side has no further keys: it deleted the rest
            pass
        if not v.is_set and not v.ve("o", keeper):
            return ("refuse",)                    # delete vs. value change
        if v.live[other] and v.pos1[other]:
            return ("refuse",)                    # removed its then-smallest key
        return ("step", None, None, S)
    if S == "cn":
        return ("refuse",)                        # both inserted the same key
    if S == "o":
        return ("refuse",)                        # both deleted the same key
    if S in ("c", "n"):
        vclass = None if v.is_set else S
        return ("step", S, vclass, S)
    raise AssertionError(S)


def agrees_with_spec(canon, sp, v):
    if sp[0] == "refuse":
        return canon[0] == "refuse"
    if sp[0] == "end":
        return canon[0] == "end"
    if canon[0] != "step":
        return False
    _, k, val, adv = canon
    _, sk, sval, sadv = sp
    if k != sk or adv != sadv:
        return False
    if v.is_set or sk is None:
        return True
    return val == sval


# ---------------------------------------------------------------------------
# C interpreter (structured walk over the IR of bucket_merge)

class _Stop(Exception):
    pass


class _CRet(Exception):
    def __init__(self, value):
        self.value = value


class CInterp(object):
    def __init__(self, tu, v, names=("i1", "i2", "i3")):
        self.tu = tu
        self.v = v
        self.cur = dict(zip(names, CUR))
        self.env = {}
        self.act = Action()

    # cursor of an expression like i2.position / &i2
    def _cursor_of(self, e):
        for n in e.walk():
            if n.k == "DeclRefExpr" and n.n in self.cur:
                return self.cur[n.n]
        return None

    def _members(self, e, field):
        out = []
        for n in e.walk():
            if n.k == "MemberExpr" and n.n == field:
                b = strip(n.kids[0])
                if b is not None and b.k == "DeclRefExpr" and b.n in self.cur:
                    c = self.cur[b.n]
                    if c not in out:
                        out.append(c)
        return out

    def ev(self, e):
        """Value of expression e (int) under the valuation; raises on unknown."""
        e = strip(e)
        k = e.k
        c = const_int(e)
        if c is not None:
            return c
        if k == "DeclRefExpr":
            if e.n == "set":
                return int(self.v.is_set)
            if e.n == "mapping":
                return int(not self.v.is_set)
            if e.n in self.env:
                return self.env[e.n]
            raise AnalysisError("merge table: unknown variable %s at %s:%s" % (e.n, e.f, e.l))
        if k == "UnaryOperator" and e.v == "!":
            return int(not self.ev(e.kids[0]))
        if k == "BinaryOperator":
            op = e.v
            if op == "&&":
                return int(bool(self.ev(e.kids[0])) and bool(self.ev(e.kids[1])))
            if op == "||":
                return int(bool(self.ev(e.kids[0])) or bool(self.ev(e.kids[1])))
            if op == ",":
                self.ev_stmt_expr(e.kids[0])
                return self.ev(e.kids[1])
            if op == "=":
                val = self.ev(e.kids[1])
                p = path(e.kids[0])
                if p is None:
                    raise AnalysisError("merge table: store to %s" % text(e.kids[0]))
                self.env[p] = val
                return val
            if op in ("==", "!=", "<", ">", "<=", ">="):
                a, b = e.kids[0], e.kids[1]
                # iN.position >= 0  -> liveness ; iN.position == 1 -> first
                pa = self._members(a, "position")
                cb = const_int(b)
                if pa and cb is not None and len(pa) == 1:
                    cu = pa[0]
                    if op == ">=" and cb == 0:
                        return int(self.v.live[cu])
                    if op == "<" and cb == 0:
                        return int(not self.v.live[cu])
                    if op == "==" and cb == 1:
                        return int(self.v.pos1[cu])
                    raise AnalysisError("merge table: position test %s" % text(e))
                # TEST_VALUE(iX.value, iY.value) == 0
                va = self._members(a, "value")
                if len(va) == 2 and cb == 0 and op in ("==", "!="):
                    r = self.v.ve(va[0], va[1])
                    return int(r if op == "==" else not r)
                # call results compared with 0: merge_output(...) < 0 etc.
                a0 = strip(a)
                if a0.k == "CallExpr" and cb == 0:
                    r = self.call(a0)
                    if isinstance(r, int):
                        return int({"<": r < 0, ">=": r >= 0, "==": r == 0, "!=": r != 0,
                                    ">": r > 0, "<=": r <= 0}[op])
                    return int({"<": False, ">=": True, "==": True, "!=": False,
                                ">": False, "<=": True}[op])
                # r->len == 0 : result emptiness (epilogue) - not part of a step
                if path(a) == "r->len":
                    raise _Stop()
                x, y = self.ev(a), self.ev(b)
                return int({"==": x == y, "!=": x != y, "<": x < y, ">": x > y,
                            "<=": x <= y, ">=": x >= y}[op])
            if op == "|":
                return self.ev(e.kids[0]) | self.ev(e.kids[1])
        if k == "ConditionalOperator" or k == "CallExpr" or k == "MemberExpr":
            # a key comparison: expression mentioning exactly two cursor keys
            ks = self._members(e, "key")
            if len(ks) == 2:
                return self.v.sg(ks[0], ks[1])
            if k == "ConditionalOperator":
                return self.ev(e.kids[1] if self.ev(e.kids[0]) else e.kids[2])
            if k == "CallExpr":
                c = callee(e)
                if c == ("fn", "PyErr_Occurred"):
                    return 0
                r = self.call(e)
                return r if isinstance(r, int) else 0     # (the value of an inlined predicate)
        raise AnalysisError("merge table: unrecognised expression %s at %s:%s"
                            % (text(e)[:80], e.f, e.l))

    def call(self, e):
        c = callee(e)
        args = e.kids[1:]
        if c == ("fn", "merge_output"):
            cu = self._cursor_of(args[1])
            self.act.outk.append(cu)
            self.act.outv.append(cu)
            return
        if c[0] == "ptr" and c[1] and c[1].endswith((".next", "->next")):
            cu = self._cursor_of(e.kids[0])
            self.act.adv.append(cu)
            return
        if c == ("fn", "merge_error"):
            r = const_int(args[3])
            if r is None:
                try:
                    r = self.ev(args[3])
                except AnalysisError:
                    r = None
            self.act.err = r
            return
        if c == ("fn", "finiSetIteration"):
            return
        if c[0] == "fn" and c[1] in self.tu.funcs and c[1] != "bucket_merge":
            return self.inline(c[1], args, e)
        raise AnalysisError("merge table: unrecognised call %s at %s:%s" % (text(e)[:60], e.f, e.l))

    def inline(self, name, args, e):
        """Interpret a helper of the repository with its parameters bound to
        the caller's cursors / values."""
        depth = getattr(self, "depth", 0)
        if depth >= 4:
            raise AnalysisError("merge table: call depth at %s (%s:%s)" % (name, e.f, e.l))
        params = self.tu.params(name)
        if len(params) != len(args):
            raise AnalysisError("merge table: %s called with %d arguments" % (name, len(args)))
        saved_cur, saved_env = dict(self.cur), dict(self.env)
        for p0, a in zip(params, args):
            if "SetIteration" in (p0.t or ""):
                cu = self._cursor_of(a)
                if cu is None:
                    raise AnalysisError("merge table: cursor argument %s of %s" % (text(a)[:40], name))
                self.cur[p0.n] = cu
            else:
                try:
                    self.env[p0.n] = self.ev(a)
                except AnalysisError:
                    self.env.pop(p0.n, None)
        self.depth = depth + 1
        try:
            for st in self.tu.body(name).kids:
                self.stmt(st)
            ret = None
        except _CRet as r:
            ret = r.value
        finally:
            self.depth = depth
            self.cur = saved_cur
            # locals of the callee do not leak; stores through the caller's
            # names cannot happen (all by value)
            self.env = saved_env
        return ret

    def ev_stmt_expr(self, e):
        e0 = strip(e)
        if e0.k == "CallExpr":
            self.call(e0)
        else:
            self.ev(e0)

    def run(self, stmts):
        try:
            for s in stmts:
                self.stmt(s)
            self.act.done = True
        except _Stop:
            if not (self.act.outk or self.act.adv or self.act.err is not None):
                self.act.done = True
        return self.act

    def stmt(self, s):
        k = s.k
        if k == "CompoundStmt":
            for c in s.kids:
                self.stmt(c)
        elif k == "NullStmt":
            pass
        elif k == "IfStmt":
            if self.ev(s.kids[0]):
                self.stmt(s.kids[1])
            elif len(s.kids) > 2:
                self.stmt(s.kids[2])
        elif k == "WhileStmt":
            if self.ev(s.kids[0]):
                self.stmt(s.kids[-1])
                raise _Stop()          # one iteration = one step
        elif k == "GotoStmt":
            # a shared exit (`reason = N; goto conflict;`): what stands behind the label
            # still belongs to this step - a refusal made there is this step's refusal
            if getattr(self, "depth", 0) == 0 and getattr(self, "_goto_depth", 0) < 2:
                body = self.tu.body("bucket_merge")
                kids = list(body.kids)
                for i, c in enumerate(kids):
                    if c.k == "LabelStmt" and c.n == s.n:
                        self._goto_depth = getattr(self, "_goto_depth", 0) + 1
                        try:
                            for sub in c.kids:
                                self.stmt(sub)
                            for nxt in kids[i + 1:]:
                                if nxt.k == "LabelStmt" or self.act.err is not None:
                                    break
                                self.stmt(nxt)
                        except AnalysisError:
                            pass          # clean-up code behind the label is not part of the table
                        finally:
                            self._goto_depth -= 1
                        break
            raise _Stop()
        elif k == "ReturnStmt":
            if getattr(self, "depth", 0) > 0:
                raise _CRet(self.ev(s.kids[0]) if s.kids else None)
            raise _Stop()
        elif k == "DeclStmt":
            for d in s.kids:
                if d.k == "VarDecl" and d.kids and d.kids[-1].k != "Absent" and getattr(self, "depth", 0) > 0:
                    try:
                        self.env[d.n] = self.ev(d.kids[-1])
                    except AnalysisError:
                        self.env.pop(d.n, None)
        elif k.endswith("Stmt"):
            raise AnalysisError("merge table: unrecognised statement %s at %s:%s" % (k, s.f, s.l))
        else:
            self.ev_stmt_expr(s)


def c_merge_statements(tu):
    """Statements of bucket_merge from the first merge loop up to (excluding)
    the epilogue."""
    body = tu.body("bucket_merge")
    kids = list(body.kids)
    first = None
    for i, s in enumerate(kids):
        if s.k == "WhileStmt":
            first = i
            break
    if first is None:
        raise AnalysisError("anchor vanished: merge loops of bucket_merge")
    return kids[first:]


def c_table(tu, is_set):
    stmts = c_merge_statements(tu)
    out = {}
    for key, v in distinct_valuations(is_set).items():
        out[key] = (v, CInterp(tu, v).run(stmts).canon(v))
    return out


# ---------------------------------------------------------------------------
# Python interpreter

class _Cur(object):
    __slots__ = ("c",)

    def __init__(self, c):
        self.c = c


class _Fn(object):
    __slots__ = ("node", "frame")

    def __init__(self, node, frame):
        self.node, self.frame = node, frame


class _Conflict(object):
    __slots__ = ("reason",)

    def __init__(self, reason):
        self.reason = reason


class _Sink(object):
    """A container that receives output: result / result._keys / result._values
    or a local list that is later installed as the result's contents."""
    __slots__ = ("name",)

    def __init__(self, name):
        self.name = name


class _Frame(object):
    def __init__(self, parent=None):
        self.vars = {}
        self.parent = parent

    def get(self, name):
        f = self
        while f is not None:
            if name in f.vars:
                return f.vars[name]
            f = f.parent
        raise KeyError(name)


class _Return(Exception):
    def __init__(self, value):
        self.value = value


class PyInterp(object):
    """First action of the Python merge for one valuation: a small interpreter
    over the statement kinds the merge uses (if / while / for over a literal
    tuple / raise / calls of local, module-level and passed-in functions)."""

    def __init__(self, fn, v, names=("i_old", "i_com", "i_new")):
        self.fn = fn
        self.v = v
        self.top = _Frame()
        for n, c in zip(names, CUR):
            self.top.vars[n] = _Cur(c)
        for n in fn.body:
            if isinstance(n, ast.FunctionDef):
                self.top.vars[n.name] = _Fn(n, self.top)
        for st in fn.body:
            # output containers created before the walk
            if isinstance(st, ast.Assign) and len(st.targets) == 1 and isinstance(st.targets[0], ast.Name):
                val = st.value
                if isinstance(val, (ast.List,)) and not val.elts:
                    self.top.vars[st.targets[0].id] = _Sink(st.targets[0].id)
                elif isinstance(val, ast.Call) and not val.args and st.targets[0].id == "result":
                    self.top.vars["result"] = _Sink("result")
        self.module_funcs = pyfront.functions(pyfront.base_py())
        self.act = Action()
        self.sinks = set()
        self.depth = 0

    # ---- values ---------------------------------------------------------
    def lookup(self, name, fr, node=None):
        try:
            return fr.get(name)
        except KeyError:
            pass
        f = self.module_funcs.get(name)
        if f is not None:
            return _Fn(f, None)
        raise AnalysisError("merge table (py): unknown name %s line %s" % (
            name, getattr(node, "lineno", "?")))

    def _attr(self, e, fr):
        """(cursor, attr) for <cursor>.attr"""
        if isinstance(e, ast.Attribute) and isinstance(e.value, ast.Name):
            try:
                c = self.lookup(e.value.id, fr)
            except AnalysisError:
                return None
            if isinstance(c, _Cur):
                return c.c, e.attr
        return None

    def ev(self, e, fr):
        if isinstance(e, ast.Constant):
            return e.value
        if isinstance(e, ast.Name):
            return self.lookup(e.id, fr, e)
        if isinstance(e, ast.Tuple):
            return tuple(self.ev(x, fr) for x in e.elts)
        if isinstance(e, ast.UnaryOp) and isinstance(e.op, ast.Not):
            return not self.ev(e.operand, fr)
        if isinstance(e, ast.BoolOp):
            if isinstance(e.op, ast.And):
                for x in e.values:
                    if not self.ev(x, fr):
                        return False
                return True
            for x in e.values:
                if self.ev(x, fr):
                    return True
            return False
        a = self._attr(e, fr)
        if a is not None:
            if a[1] == "active":
                return self.v.live[a[0]]
            raise AnalysisError("merge table (py): bare use of %s" % pyfront.unparse(e))
        if isinstance(e, ast.Attribute):
            base = e.value
            while isinstance(base, ast.Attribute):
                base = base.value
            if isinstance(base, ast.Name):
                try:
                    bv = self.lookup(base.id, fr)
                except AnalysisError:
                    bv = None
                if isinstance(bv, _Sink):
                    # the contents of the output container are inspected: the
                    # epilogue (emptiness test) - not part of a merge step
                    raise _Stop()
        if isinstance(e, ast.Call):
            return self.call(e, fr)
        if isinstance(e, ast.Compare) and len(e.ops) == 1 and isinstance(e.ops[0], (ast.In, ast.NotIn)) and \
                isinstance(e.comparators[0], (ast.Tuple, ast.List, ast.Set)):
            # v.value in (a.value, b.value): a disjunction of value equalities
            x = self._attr(e.left, fr)
            ys = [self._attr(y, fr) for y in e.comparators[0].elts]
            if x and x[1] == "value" and ys and all(y and y[1] == "value" for y in ys):
                res = any(self.v.ve(x[0], y[0]) for y in ys)
                return res if isinstance(e.ops[0], ast.In) else not res
        if isinstance(e, ast.Compare) and len(e.ops) == 1:
            l, r, op = e.left, e.comparators[0], e.ops[0]
            x, y = self._attr(l, fr), self._attr(r, fr)
            if x and y and x[1] == "value" and y[1] == "value" and isinstance(op, (ast.Eq, ast.NotEq)):
                res = self.v.ve(x[0], y[0])
                return res if isinstance(op, ast.Eq) else not res
            if x and x[1] == "position" and isinstance(r, ast.Constant) and r.value == 1 \
                    and isinstance(op, ast.Eq):
                return self.v.pos1[x[0]]
            if x and x[1] == "key" or y and y[1] == "key":
                raise AnalysisError("merge table (py): direct key comparison %s" % pyfront.unparse(e))
            a, b = self.ev(l, fr), self.ev(r, fr)
            return {ast.Eq: a == b, ast.NotEq: a != b, ast.Lt: a < b, ast.Gt: a > b,
                    ast.LtE: a <= b, ast.GtE: a >= b}[type(op)]
        raise AnalysisError("merge table (py): unrecognised expression %s line %s"
                            % (pyfront.unparse(e)[:60], getattr(e, "lineno", "?")))

    # ---- calls ----------------------------------------------------------------
    def call(self, c, fr):
        fname = pyfront.unparse(c.func)
        if fname == "compare" and len(c.args) == 2:
            x, y = self._attr(c.args[0], fr), self._attr(c.args[1], fr)
            if x and y and x[1] == "key" and y[1] == "key":
                return self.v.sg(x[0], y[0])
            raise AnalysisError("merge table (py): compare(%s)" % pyfront.unparse(c))
        if fname == "len":
            raise _Stop()
        if fname == "BTreesConflictError" and len(c.args) == 4:
            return _Conflict(self.ev(c.args[3], fr))
        # cursor.advance()
        if isinstance(c.func, ast.Attribute) and c.func.attr == "advance":
            a = self._attr(c.func, fr)
            if a is None:
                raise AnalysisError("merge table (py): advance on %s" % fname)
            self.act.adv.append(a[0])
            return None
        # sink.append(cursor.key) / result._keys.append / result._values.append
        if isinstance(c.func, ast.Attribute) and c.func.attr == "append" and len(c.args) == 1:
            a = self._attr(c.args[0], fr)
            tgt = c.func.value
            tname = pyfront.unparse(tgt)
            base = tgt
            while isinstance(base, ast.Attribute):
                base = base.value
            sink = None
            if isinstance(base, ast.Name):
                try:
                    sink = self.lookup(base.id, fr)
                except AnalysisError:
                    sink = None
            if a and isinstance(sink, _Sink):
                what = tname[len(base.id):]
                if a[1] == "key" and what in ("", "._keys"):
                    self.act.outk.append(a[0])
                    self.sinks.add(sink.name + what)
                    return None
                if a[1] == "value" and what in ("._values",):
                    self.act.outv.append(a[0])
                    self.sinks.add(sink.name + what)
                    return None
            raise AnalysisError("merge table (py): unrecognised call %s line %s" % (fname, c.lineno))
        f = None
        if isinstance(c.func, ast.Name):
            f = self.lookup(c.func.id, fr, c)
        elif isinstance(c.func, ast.Attribute) and pyfront.unparse(c.func.value) == "self":
            r = pyfront.resolve(pyfront.base_py(), self._kind_of_fn(), c.func.attr)
            if r is not None and r[1] is not None:
                f = _Fn(r[1], None)
        if isinstance(f, _Fn):
            d = f.node
            params = [p.arg for p in d.args.args]
            args = list(c.args)
            if params and params[0] == "self" and isinstance(c.func, ast.Attribute):
                params = params[1:]
            nf = _Frame(f.frame)
            for n2 in d.body:
                if isinstance(n2, ast.FunctionDef):
                    nf.vars[n2.name] = _Fn(n2, nf)
            if len(args) > len(params):
                raise AnalysisError("merge table (py): too many arguments for %s" % fname)
            for p, arg in zip(params, args):
                nf.vars[p] = self.ev(arg, fr)
            for kw in c.keywords:
                nf.vars[kw.arg] = self.ev(kw.value, fr)
            self.depth += 1
            try:
                self.block(d.body, nf)
                return None
            except _Return as r:
                return r.value
            finally:
                self.depth -= 1
        raise AnalysisError("merge table (py): unrecognised call %s line %s" % (fname, c.lineno))

    def _kind_of_fn(self):
        return getattr(self, "kind", "Bucket")

    # ---- statements ---------------------------------------------------------------
    def block(self, body, fr):
        for st in body:
            self.stmt(st, fr)

    def _assign(self, t, val, fr, st):
        if isinstance(t, ast.Name):
            fr.vars[t.id] = val
        elif isinstance(t, ast.Tuple) and isinstance(val, tuple) and len(t.elts) == len(val):
            for tt, vv in zip(t.elts, val):
                self._assign(tt, vv, fr, st)
        else:
            raise AnalysisError("merge table (py): assignment %s" % pyfront.unparse(st))

    def stmt(self, st, fr=None):
        fr = fr or self.top
        if isinstance(st, ast.If):
            if self.ev(st.test, fr):
                self.block(st.body, fr)
            else:
                self.block(st.orelse, fr)
        elif isinstance(st, ast.While):
            if self.ev(st.test, fr):
                self.block(st.body, fr)
                raise _Stop()
        elif isinstance(st, ast.For):
            items = self.ev(st.iter, fr)
            if not isinstance(items, tuple):
                raise AnalysisError("merge table (py): loop over %s" % pyfront.unparse(st.iter)[:50])
            for it in items:
                self._assign(st.target, it, fr, st)
                self.block(st.body, fr)
        elif isinstance(st, ast.Raise):
            val = self.ev(st.exc, fr) if st.exc is not None else None
            if isinstance(val, _Conflict):
                self.act.err = val.reason
                raise _Stop()
            raise AnalysisError("merge table (py): raise %s" % pyfront.unparse(st))
        elif isinstance(st, ast.Assign) and len(st.targets) == 1:
            t = st.targets[0]
            if isinstance(t, ast.Subscript) and isinstance(t.value, ast.Name) and \
                    isinstance(self.lookup(t.value.id, fr, t), _Sink):
                k, val = self._attr(t.slice, fr), self._attr(st.value, fr)
                if not (k and val and k[1] == "key" and val[1] == "value"):
                    raise AnalysisError("merge table (py): %s" % pyfront.unparse(st))
                self.act.outk.append(k[0])
                self.act.outv.append(val[0])
                self.sinks.add(t.value.id + "[]")
            elif isinstance(t, ast.Attribute) and t.attr == "_next":
                raise _Stop()
            elif isinstance(t, ast.Name) and isinstance(st.value, ast.Call) and not st.value.args \
                    and self.depth == 0 and pyfront.unparse(st.value.func).startswith(("type(self)", "self.__class__")):
                # result = type(self)() after the walk
                raise _Stop()
            else:
                self._assign(t, self.ev(st.value, fr), fr, st)
        elif isinstance(st, ast.Expr) and isinstance(st.value, ast.Call):
            self.ev(st.value, fr)
        elif isinstance(st, ast.Expr) and isinstance(st.value, ast.Constant):
            pass
        elif isinstance(st, ast.Return):
            if self.depth > 0:
                raise _Return(self.ev(st.value, fr) if st.value is not None else None)
            raise _Stop()
        elif isinstance(st, (ast.FunctionDef, ast.Pass)):
            pass
        else:
            raise AnalysisError("merge table (py): unrecognised statement %s line %s"
                                % (type(st).__name__, st.lineno))

    def run(self, stmts):
        try:
            self.block(stmts, self.top)
            self.act.done = True
        except _Stop:
            if not (self.act.outk or self.act.adv or self.act.err is not None):
                self.act.done = True
        return self.act


def py_merge_function(kind):
    tree = pyfront.base_py()
    r = pyfront.resolve(tree, kind, "_p_resolveConflict")
    if r is None or r[1] is None:
        raise AnalysisError("anchor vanished: %s._p_resolveConflict" % kind)
    return r[1]


def py_merge_statements(fn):
    first = None
    for i, s in enumerate(fn.body):
        if isinstance(s, ast.While):
            first = i
            break
    if first is None:
        raise AnalysisError("anchor vanished: merge loops of %s" % fn.name)
    return fn.body[first:]


def py_table(kind):
    fn = py_merge_function(kind)
    stmts = py_merge_statements(fn)
    is_set = kind == "Set"
    out = {}
    sinks = set()
    for key, v in distinct_valuations(is_set).items():
        it = PyInterp(fn, v)
        it.kind = kind
        out[key] = (v, it.run(stmts).canon(v))
        sinks |= it.sinks
    py_table.sinks[kind] = sorted(sinks)
    return out, fn


py_table.sinks = {}


# ---------------------------------------------------------------------------
# REFUSAL-PRELUDE and UNWRAP-TABLE

def _connected(pairs, nodes):
    seen = {nodes[0]}
    changed = True
    while changed:
        changed = False
        for a, b in pairs:
            if a in seen and b not in seen:
                seen.add(b); changed = True
            if b in seen and a not in seen:
                seen.add(a); changed = True
    return seen == set(nodes)


def c_prelude(tu):
    """Facts about the refusal prelude of the C leaf resolution."""
    findings = []
    facts = {}
    fn = tu.func("_bucket__p_resolveConflict")
    guard = None
    for n in fn.walk():
        if n.k == "IfStmt":
            nx = [m for m in n.kids[0].walk() if m.k == "MemberExpr" and m.n == "next"]
            if nx:
                guard = n
    named = {}
    if guard is None:
        # the comparison of the links kept in a local (`same_next = ...; if (same_next)`)
        for n in fn.walk():
            lhs = rhs = None
            if n.k == "BinaryOperator" and n.v == "=":
                l = strip(n.kids[0])
                if l is not None and l.k == "DeclRefExpr":
                    lhs, rhs = l.n, n.kids[1]
            elif n.k == "VarDecl" and n.kids and n.kids[-1].k != "Absent":
                lhs, rhs = n.n, n.kids[-1]
            if lhs and any(m.k == "MemberExpr" and m.n == "next" for m in rhs.walk()):
                named[lhs] = rhs
        for n in fn.walk():
            if n.k == "IfStmt":
                c = strip(n.kids[0])
                while c is not None and c.k == "UnaryOperator" and c.v == "!":
                    c = strip(c.kids[0])
                if c is not None and c.k == "DeclRefExpr" and c.n in named:
                    guard = n
    if guard is None:
        raise AnalysisError("anchor vanished: successor-link guard in _bucket__p_resolveConflict")
    # The guard is evaluated as a boolean function of the three pointer
    # equalities for each of the five consistent partitions of
    # {b[0]->next, b[1]->next, b[2]->next}; the branch taken must refuse with
    # reason 0 unless all three are equal, and must then call bucket_merge with
    # (original, committed, new).
    nodes = ["b[0]->next", "b[1]->next", "b[2]->next"]
    PARTS = {"all equal": (0, 0, 0), "0=1": (0, 0, 1), "0=2": (0, 1, 0), "1=2": (0, 1, 1),
             "all distinct": (0, 1, 2)}

    def beval(e, cls):
        e = strip(e)
        if e.k == "DeclRefExpr" and e.n in named:
            return beval(named[e.n], cls)
        if e.k == "ParenExpr":
            return beval(e.kids[0], cls)
        if e.k == "UnaryOperator" and e.v == "!":
            return not beval(e.kids[0], cls)
        if e.k == "BinaryOperator" and e.v in ("&&", "||"):
            a = beval(e.kids[0], cls)
            if e.v == "&&":
                return a and beval(e.kids[1], cls)
            return a or beval(e.kids[1], cls)
        if e.k == "BinaryOperator" and e.v in ("==", "!="):
            a, b = path(e.kids[0]), path(e.kids[1])
            if a in nodes and b in nodes:
                same = cls[nodes.index(a)] == cls[nodes.index(b)]
                return same if e.v == "==" else not same
        raise AnalysisError("successor guard: cannot evaluate %s at %s:%s" % (text(e)[:60], e.f, e.l))

    def effects(branch):
        codes = [const_int(c.kids[4]) for c in (branch.walk() if branch is not None else [])
                 if c.k == "CallExpr" and callee(c) == ("fn", "merge_error")]
        merges = [[path(a) for a in c.kids[1:4]] for c in (branch.walk() if branch is not None else [])
                  if c.k == "CallExpr" and callee(c) == ("fn", "bucket_merge")]
        return codes, merges
    table = {}
    for pname, cls in PARTS.items():
        taken = guard.kids[1] if beval(guard.kids[0], cls) else (guard.kids[2] if len(guard.kids) > 2 else None)
        table[pname] = effects(taken)
    facts["successor_guard"] = {k: {"refusals": v[0], "merges": v[1]} for k, v in table.items()}
    for pname, (codes, merges) in sorted(table.items()):
        if pname == "all equal":
            if codes or merges != [["b[0]", "b[1]", "b[2]"]]:
                findings.append(dict(
                    rule="REFUSAL-PRELUDE", function="_bucket__p_resolveConflict", file=guard.f,
                    line=guard.l, construct="equal successor links: refusals %s, merges %s" % (codes, merges),
                    detail="when the successor link is the same in all three "
                           "states, bucket_merge must receive (original, "
                           "committed, new) in this order and nothing is "
                           "refused here", path=[]))
        elif codes != [0] or merges:
            findings.append(dict(
                rule="REFUSAL-PRELUDE", function="_bucket__p_resolveConflict", file=guard.f,
                line=guard.l, construct="successor links with %s: refusals %s, merges %s (guard %s)" % (
                    pname, codes, merges, text(guard.kids[0])[:80]),
                detail="the successor-link refusal must compare the next "
                       "pointer of all three states (original, committed, "
                       "new) and refuse with reason 0 when any differs; for "
                       "the case '%s' the code does not" % pname, path=[]))
    # bucket_merge: emptiness refusal (12) before the loops, empty result (10) after
    bm = tu.body("bucket_merge")
    kids = list(bm.kids)
    first_loop = next((i for i, s in enumerate(kids) if s.k == "WhileStmt"), None)
    last_loop = max((i for i, s in enumerate(kids) if s.k == "WhileStmt"), default=None)
    e12 = e10 = nextcopy = None
    for i, s in enumerate(kids):
        if s.k == "IfStmt":
            codes = [const_int(c.kids[4]) for c in s.walk()
                     if c.k == "CallExpr" and callee(c) == ("fn", "merge_error")]
            lens = sorted(set(path(m.kids[0]) for m in s.kids[0].walk()
                              if m.k == "MemberExpr" and m.n == "len"))
            if codes == [12]:
                e12 = (i, lens, text(s.kids[0]))
            if codes == [10]:
                e10 = (i, lens)
            if any(path(m) == "r->next" for m in s.walk() if m.k == "MemberExpr") and \
                    any(path(m) == "s1->next" for m in s.walk() if m.k == "MemberExpr"):
                nextcopy = i
    facts["empty_side_check"] = e12
    facts["empty_result_check"] = e10
    if e12 is None or e12[0] > first_loop or e12[1] != ["s2", "s3"] or "&&" in e12[2]:
        findings.append(dict(
            rule="REFUSAL-PRELUDE", function="bucket_merge", file=bm.f, line=bm.l,
            construct="empty-side refusal (12): %s" % (e12,),
            detail="bucket_merge must refuse with reason 12 when the committed "
                   "OR the new state is empty, before the merge walk", path=[]))
    if e10 is None or e10[0] < last_loop or e10[1] != ["r"]:
        findings.append(dict(
            rule="REFUSAL-PRELUDE", function="bucket_merge", file=bm.f, line=bm.l,
            construct="empty-result refusal (10): %s" % (e10,),
            detail="an empty merge result must be refused with reason 10 "
                   "after the merge walk", path=[]))
    if nextcopy is None:
        findings.append(dict(
            rule="REFUSAL-PRELUDE", function="bucket_merge", file=bm.f, line=bm.l,
            construct="successor link not carried to the result",
            detail="the merged state must keep the original successor link "
                   "(r->next = s1->next)", path=[]))
    return findings, facts


def py_prelude(kind):
    fn0 = py_merge_function(kind)
    findings = []
    facts = {}
    # statements of the method with the bodies of module-level helpers called
    # before the walk spliced in (a prelude factored out into a helper)
    modfuncs = pyfront.functions(pyfront.base_py())

    class _Flat(object):
        pass
    fn = _Flat()
    fn.lineno, fn.name = fn0.lineno, fn0.name
    fn.body = []
    seen_loop = False
    for st in fn0.body:
        if isinstance(st, ast.While):
            seen_loop = True
        if not seen_loop and isinstance(st, (ast.Assign, ast.Expr)) and isinstance(st.value, ast.Call) \
                and isinstance(st.value.func, ast.Name) and st.value.func.id in modfuncs:
            fn.body.extend(x for x in modfuncs[st.value.func.id].body if not isinstance(x, ast.Return))
        fn.body.append(st)
    first_loop = next(i for i, s in enumerate(fn.body) if isinstance(s, ast.While))
    last_loop = max(i for i, s in enumerate(fn.body) if isinstance(s, ast.While))
    g0 = g12 = g10 = carry = None
    for i, s in enumerate(fn.body):
        if isinstance(s, ast.If):
            codes = []
            for r in ast.walk(s):
                if isinstance(r, ast.Raise) and isinstance(r.exc, ast.Call) and r.exc.args:
                    a = r.exc.args[-1] if pyfront.unparse(r.exc.func) == "BTreesConflictError" else r.exc.args[0]
                    if isinstance(a, ast.Constant):
                        codes.append(a.value)
            if codes == [0]:
                g0 = (i, s)
            elif codes == [12]:
                g12 = (i, s)
            elif codes == [10]:
                g10 = (i, s)
        if isinstance(s, ast.Assign) and pyfront.unparse(s.targets[0]) == "result._next":
            carry = (i, pyfront.unparse(s.value))
    where = "%s._p_resolveConflict" % kind

    def bad(construct, detail, line):
        findings.append(dict(rule="REFUSAL-PRELUDE", function=where, file=REL, line=line,
                             construct=construct, detail=detail, path=[]))
    def _named(t):
        """a test given as a local that names the condition"""
        if isinstance(t, ast.Name):
            ds = [a.value for st in fn.body for a in ast.walk(st) if isinstance(a, ast.Assign)
                  and len(a.targets) == 1 and isinstance(a.targets[0], ast.Name) and a.targets[0].id == t.id]
            if len(ds) == 1:
                return ds[0]
        return t
    if g0 is None or g0[0] > first_loop:
        bad("successor refusal (0) missing", "a changed successor link must refuse with reason 0 before the walk", fn.lineno)
    else:
        t = _named(g0[1].test)
        pairs = []
        ok = isinstance(t, ast.BoolOp) and isinstance(t.op, ast.Or)
        for c in (t.values if ok else [t]):
            if isinstance(c, ast.Compare) and len(c.ops) == 1 and isinstance(c.ops[0], (ast.NotEq, ast.IsNot)):
                pairs.append((pyfront.unparse(c.left), pyfront.unparse(c.comparators[0])))
            else:
                ok = False
        nodes = ["b_old._next", "b_com._next", "b_new._next"]
        facts["successor_guard"] = pairs
        if not ok or not _connected(pairs, nodes) or any(a not in nodes or b not in nodes for a, b in pairs):
            bad("successor guard %s" % pyfront.unparse(t)[:100],
                "the successor-link refusal must compare _next of all three states", g0[1].lineno)
    if g12 is None or g12[0] > first_loop or (g0 and g12[0] < g0[0]):
        bad("empty-side refusal (12) missing or misplaced", "must refuse with reason 12 when the committed or the new state is empty, after the successor check and before the walk", fn.lineno)
    else:
        t = _named(g12[1].test)
        names = sorted(pyfront.unparse(v.operand) for v in (t.values if isinstance(t, ast.BoolOp) else [t])
                       if isinstance(v, ast.UnaryOp) and isinstance(v.op, ast.Not))
        if not (isinstance(t, ast.BoolOp) and isinstance(t.op, ast.Or) and names == ["b_com", "b_new"]):
            bad("empty-side guard %s" % pyfront.unparse(t), "reason 12 must fire when b_com OR b_new is empty", g12[1].lineno)
    if g10 is None or g10[0] < last_loop:
        bad("empty-result refusal (10) missing", "an empty result must be refused with reason 10 after the walk", fn.lineno)
    if carry is None or carry[1] != "b_old._next":
        bad("successor link not carried (%s)" % (carry,), "result._next must be the original successor", fn.lineno)
    else:
        # nothing after the carry may reset it: the returned state is taken
        # from the very object that received the link
        robj = None
        for s2 in fn.body:
            if isinstance(s2, ast.Assign) and pyfront.unparse(s2.targets[0]).endswith("._next"):
                robj = pyfront.unparse(s2.targets[0])[:-len("._next")]
        rets = [s2 for s2 in fn.body[carry[0] + 1:] if isinstance(s2, ast.Return)]
        if not rets or pyfront.unparse(rets[-1].value) != "%s.__getstate__()" % robj:
            bad("the returned state is not %s.__getstate__()" % robj,
                "the resolved state must be the state of the object that carries the successor link", fn.lineno)
        for s2 in fn.body[carry[0] + 1:]:
            if isinstance(s2, ast.Return):
                continue
            for c in ast.walk(s2):
                hit = None
                if isinstance(c, ast.Call) and isinstance(c.func, ast.Attribute) and \
                        pyfront.unparse(c.func.value) == robj and c.func.attr != "__getstate__":
                    hit = pyfront.unparse(c)[:60]
                if isinstance(c, ast.Assign) and any(pyfront.unparse(t) in (robj, robj + "._next") for t in c.targets):
                    hit = pyfront.unparse(c)[:60]
                if hit:
                    bad("successor link set before `%s`" % hit,
                        "%s._next is assigned the original successor and then %s "
                        "runs: a state loader / clear / rebinding resets the link, so "
                        "the resolved state loses its successor and the leaf chain is "
                        "cut when it is stored" % (robj, hit), s2.lineno)
        # outputs collected in a local list have to be installed in that object
        for sk in py_table.sinks.get(kind, []):
            base = sk.split(".")[0].split("[")[0]
            if base == robj:
                continue
            installed = False
            for s2 in fn.body[last_loop + 1:]:
                for c in ast.walk(s2):
                    if isinstance(c, (ast.Call, ast.Assign)) and robj in pyfront.unparse(c) and \
                            any(isinstance(x, ast.Name) and x.id == base for x in ast.walk(c)):
                        installed = True
            if not installed:
                bad("merged entries collected in `%s` never reach %s" % (base, robj),
                    "the walk appends its output to %s, but nothing installs it in the "
                    "object whose state is returned" % base, fn.lineno)
    return findings, facts


# shapes for the state unwrapping
SHAPES = {
    "None": None,
    "non-tuple": "x",
    "2-tuple (multi-leaf tree)": ("t", [("t", []), "x"]),
    "0-tuple": ("t", []),
    "3-tuple": ("t", ["x", "x", "x"]),
    "1-tuple of non-tuple": ("t", ["x"]),
    "1-tuple of 2-tuple": ("t", [("t", ["x", "x"])]),
    "1-tuple of 1-tuple of non-tuple": ("t", [("t", ["x"])]),
    "((bucket state,),)": ("t", [("t", [("t", ["x"])])]),
}
UNWRAP_SPEC = {
    "None": "return None", "non-tuple": "TypeError",
    "2-tuple (multi-leaf tree)": "refuse 11", "0-tuple": "TypeError", "3-tuple": "TypeError",
    "1-tuple of non-tuple": "TypeError", "1-tuple of 2-tuple": "TypeError",
    "1-tuple of 1-tuple of non-tuple": "TypeError", "((bucket state,),)": "return inner",
}


def _is_tuple(s):
    return isinstance(s, tuple) and s[0] == "t"


def _raises_typeerror_null(tu, c):
    """the repository function sets TypeError and returns NULL on every path"""
    if not c or c[0] != "fn" or c[1] not in tu.funcs or tu.body(c[1]) is None:
        return False
    fn = tu.funcs[c[1]]
    sets = [n for n in fn.walk() if n.k == "CallExpr" and callee(n)[0] == "fn"
            and callee(n)[1] in ("PyErr_SetString", "PyErr_Format") and len(n.kids) > 1
            and "PyExc_TypeError" in text(n.kids[1])]
    rets = [n for n in fn.walk() if n.k == "ReturnStmt"]
    return bool(sets) and bool(rets) and all(r.kids and const_int(r.kids[0]) == 0 for r in rets)


def c_unwrap(tu):
    fn = tu.func("get_bucket_state")
    body = tu.body("get_bucket_state")
    pname = tu.params("get_bucket_state")[0].n
    out = {}
    for name, shape in SHAPES.items():
        env = {pname: shape}

        def ev(e):
            e = strip(e)
            c = const_int(e)
            if c is not None:
                return c
            if e.k == "DeclRefExpr":
                return env[e.n]
            if e.k == "UnaryOperator" and e.v == "!":
                return int(not ev(e.kids[0]))
            if e.k == "UnaryOperator" and e.v == "&" and text(e) == "&_Py_NoneStruct":
                return None
            if e.k == "BinaryOperator" and e.v in ("||", "&&"):
                a = ev(e.kids[0])
                if e.v == "||":
                    return int(bool(a) or bool(ev(e.kids[1])))
                return int(bool(a) and bool(ev(e.kids[1])))
            if e.k == "BinaryOperator" and e.v in ("==", "!="):
                a, b = ev(e.kids[0]), ev(e.kids[1])
                return int((a == b) == (e.v == "=="))
            if e.k == "CallExpr":
                c2 = callee(e)
                args = e.kids[1:]
                if c2 == ("fn", "PyTuple_GET_SIZE"):
                    v = ev(args[0])
                    if not _is_tuple(v):
                        raise AnalysisError("unwrap: size of non-tuple")
                    return len(v[1])
                if c2 == ("fn", "PyTuple_GET_ITEM"):
                    v = ev(args[0])
                    ix = ev(args[1])
                    if not _is_tuple(v) or not (0 <= ix < len(v[1])):
                        raise AnalysisError("unwrap (C): item %s of %r at %s:%s" % (ix, v, e.f, e.l))
                    return v[1][ix]
                if c2 == ("fn", "PyType_HasFeature") or "PyTuple_Check" in text(e):
                    return int(_is_tuple(ev(args[0]))) if c2[1] != "PyType_HasFeature" else \
                        int(_is_tuple(_typeof_arg(args[0], env)))
            if e.k == "BinaryOperator" and e.v == "=":
                v = ev(e.kids[1])
                env[path(e.kids[0])] = v
                return v
            if e.k == "ArraySubscriptExpr":
                b = strip(e.kids[0])
                if b is not None and b.k == "MemberExpr" and b.n == "ob_item":
                    cont = _typeof_arg(b, env)
                    ix = ev(e.kids[1])
                    if not _is_tuple(cont) or not (0 <= ix < len(cont[1])):
                        raise AnalysisError("unwrap (C): item %s of %r at %s:%s" % (ix, cont, e.f, e.l))
                    return cont[1][ix]
            raise AnalysisError("unwrap (C): unrecognised %s at %s:%s" % (text(e)[:60], e.f, e.l))

        def _typeof_arg(a, env2):
            # PyType_HasFeature(Py_TYPE(t), TUPLE_SUBCLASS)
            for n in a.walk():
                if n.k == "DeclRefExpr" and n.n in env2:
                    return env2[n.n]
            raise AnalysisError("unwrap (C): PyTuple_Check operand")

        res = None

        def run(s):
            nonlocal res
            if res is not None:
                return
            if s.k == "CompoundStmt":
                for c in s.kids:
                    run(c)
            elif s.k == "IfStmt":
                if ev(s.kids[0]):
                    run(s.kids[1])
                elif len(s.kids) > 2:
                    run(s.kids[2])
            elif s.k == "SwitchStmt":
                v = ev(s.kids[0])
                body2 = s.kids[-1]
                items = list(body2.kids) if body2.k == "CompoundStmt" else [body2]
                # flatten  case A: case B: stmt
                flat = []
                for it in items:
                    cur = it
                    while cur.k in ("CaseStmt", "DefaultStmt"):
                        flat.append(("case", const_int(cur.kids[0])) if cur.k == "CaseStmt" else ("default", None))
                        cur = cur.kids[-1]
                    flat.append(("stmt", cur))
                start = None
                for i2, (kind, val) in enumerate(flat):
                    if kind == "case" and val == v:
                        start = i2
                        break
                if start is None:
                    for i2, (kind, val) in enumerate(flat):
                        if kind == "default":
                            start = i2
                            break
                if start is not None:
                    for kind, val in flat[start:]:
                        if kind != "stmt":
                            continue
                        if val.k == "BreakStmt":
                            break
                        run(val)
                        if res is not None:
                            break
            elif s.k == "BreakStmt":
                pass
            elif s.k == "ReturnStmt":
                r = strip(s.kids[0])
                if r.k == "CallExpr" and callee(r) == ("fn", "merge_error"):
                    res = "refuse %s" % const_int(r.kids[4])
                elif r.k == "CallExpr" and _raises_typeerror_null(tu, callee(r)):
                    res = "TypeError"           # a helper that sets TypeError and returns NULL
                elif const_int(r) == 0:
                    res = "TypeError" if seterr[0] else "NULL without error"
                else:
                    v = ev(r)
                    res = "return None" if v is None else ("return inner" if v == ("t", ["x"]) else "return %r" % (v,))
            elif s.k == "CallExpr" or (s.k not in ("DeclStmt", "NullStmt") and not s.k.endswith("Stmt")):
                s0 = strip(s)
                if s0.k == "CallExpr" and callee(s0) in (("fn", "PyErr_SetString"), ("fn", "PyErr_Format")):
                    seterr[0] = "TypeError" in text(s0.kids[1])
                elif s0.k == "CallExpr" and _raises_typeerror_null(tu, callee(s0)):
                    seterr[0] = True
                else:
                    ev(s0)
        seterr = [False]
        run(body)
        out[name] = res or "falls off"
    return out


def py_unwrap():
    tree = pyfront.base_py()
    fn = pyfront.functions(tree).get("_get_simple_btree_bucket_state")
    if fn is None:
        raise AnalysisError("anchor vanished: _get_simple_btree_bucket_state")
    pname = fn.args.args[0].arg
    out = {}
    for name, shape in SHAPES.items():
        env = {pname: shape}

        def ev(e):
            if isinstance(e, ast.Constant):
                return e.value
            if isinstance(e, ast.Name):
                return env[e.id]
            if isinstance(e, ast.UnaryOp) and isinstance(e.op, ast.Not):
                return not ev(e.operand)
            if isinstance(e, ast.BoolOp):
                if isinstance(e.op, ast.Or):
                    return any(ev(v) for v in e.values)
                return all(ev(v) for v in e.values)
            if isinstance(e, ast.Compare) and len(e.ops) == 1:
                a, b = ev(e.left), ev(e.comparators[0])
                op = e.ops[0]
                if isinstance(op, (ast.Is, ast.Eq)):
                    return a == b
                if isinstance(op, (ast.IsNot, ast.NotEq)):
                    return a != b
            if isinstance(e, ast.Call):
                f = pyfront.unparse(e.func)
                if f == "isinstance" and pyfront.unparse(e.args[1]) == "tuple":
                    return _is_tuple(ev(e.args[0]))
                if f == "len":
                    v = ev(e.args[0])
                    if not _is_tuple(v):
                        raise AnalysisError("unwrap (py): len of non-tuple")
                    return len(v[1])
            if isinstance(e, ast.Subscript):
                return ev(e.value)[1][ev(e.slice)]
            raise AnalysisError("unwrap (py): unrecognised %s" % pyfront.unparse(e))
        res = None
        for st in fn.body:
            if res is not None:
                break

            def run(st):
                nonlocal res
                if isinstance(st, ast.If):
                    for b in (st.body if ev(st.test) else st.orelse):
                        if res is None:
                            run(b)
                elif isinstance(st, ast.Return):
                    v = ev(st.value)
                    res = "return None" if v is None else ("return inner" if v == ("t", ["x"]) else "return %r" % (v,))
                elif isinstance(st, ast.Raise):
                    nm = pyfront.unparse(st.exc.func)
                    if nm == "BTreesConflictError":
                        res = "refuse %s" % st.exc.args[3].value
                    else:
                        res = nm
                elif isinstance(st, ast.Assign):
                    env[st.targets[0].id] = ev(st.value)
                elif isinstance(st, ast.Expr):
                    pass
                else:
                    raise AnalysisError("unwrap (py): statement %s" % type(st).__name__)
            run(st)
        out[name] = res or "falls off"
    return out
