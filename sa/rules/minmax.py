"""MINMAX-TABLE (C02), Python side: minKey(b) / maxKey(b) of the leaves and of
the tree nodes as decision tables.

`minKey(b)` is "least key >= b", `maxKey(b)` "greatest key <= b", ValueError
when there is none.  A leaf sees the bound through one binary search; a tree
node sees it through the leaf (or child) the bound sorts into.  The bound can
fall *behind the last key* of that leaf (the separator of the next leaf is
larger still) or, after deletions, *before the first key* of the child - then
the answer lives in the neighbouring leaf / child.

The methods are walked by a small abstract interpreter (no code is run):

  values    the omitted-argument marker, None, the converted bound, the found
            leaf F, its successor N, key slots `F.keys[e]`, children
            `data[e].child`, integers as affine terms over the search index I,
            len(F.keys) and the child index J
  atoms     bound given; container empty; position of the bound in F
            (before / hit / hit on the last key / inner / past); F has a successor; child index is 0;
            the child's smallest key is greater than the bound
  oracles   `_search` on a leaf returns I for a hit and -I-1 otherwise, with I
            tied to the position atom (before: 0, inner: 1..len-1, past: len);
            `compare(x, y)` is decided from the position of the two operands in
            the key order the atoms fix; `_findbucket(b)` is the leaf whose
            separator range contains b (all keys of N are greater than b)

Every condition must be decidable from the atoms (otherwise the run ends with
an analysis error, not with a verdict).  The outcome of every valuation -
which key slot is returned, or ValueError - is compared with the
specification table.  Leaf methods are inlined where the tree-level methods
call them, so a tree-level answer is the composition actually written.
"""
import ast
import itertools

from ..common import AnalysisError, SRC
from .. import pyfront

REL = SRC + "/_base.py"


# ---- affine integers over non-negative parameters -----------------------------
# a term is {name: coeff, 1: const}; names are resolved against a scenario into
# non-negative parameters so that min / max over the scenario are exact.

def a_const(c):
    return {1: c} if c else {}


def a_var(v):
    return {v: 1}


def a_add(a, b, sign=1):
    out = dict(a)
    for k, c in b.items():
        out[k] = out.get(k, 0) + sign * c
        if out[k] == 0:
            del out[k]
    return out


def a_neg(a):
    return {k: -c for k, c in a.items()}


def a_show(a):
    if not a:
        return "0"
    parts = []
    for k in sorted(a, key=lambda x: (x == 1, str(x))):
        c = a[k]
        if k == 1:
            parts.append("%+d" % c)
        else:
            parts.append(("%+d*" % c if c not in (1, -1) else ("+" if c == 1 else "-")) + str(k))
    s = "".join(parts)
    return s[1:] if s.startswith("+") else s


def _params(a, pos):
    """rewrite I and LEN over non-negative parameters s, t for the position
    atom: hit (not the last key): I = s, LEN = 2 + s + t; hitlast: I = t,
    LEN = 1 + t; inner: I = 1 + s, LEN = 2 + s + t; before: I = 0,
    LEN = 1 + t; past: I = LEN = 1 + t."""
    out = {}

    def add(k, c):
        out[k] = out.get(k, 0) + c

    for k, c in a.items():
        if k == "I":
            if pos == "hit":
                add("s", c)
            elif pos == "hitlast":
                add("t", c)
            elif pos == "inner":
                add(1, c)
                add("s", c)
            elif pos == "before":
                pass
            elif pos == "past":
                add(1, c)
                add("t", c)
            else:
                raise AnalysisError("MINMAX-TABLE: search index used without a bound")
        elif k == "LEN":
            if pos == "hit":
                add(1, 2 * c), add("s", c), add("t", c)
            elif pos == "inner":
                add(1, 2 * c), add("s", c), add("t", c)
            else:
                add(1, c), add("t", c)
        elif k == "J":
            add(1, c)
            add("u", c)          # J >= 1 (J == 0 is substituted at creation)
        elif k == "NLEN":
            add(1, c)
            add("w", c)
        else:
            add(k, c)
    return {k: c for k, c in out.items() if c}


def a_range(a, pos):
    p = _params(a, pos)
    c = p.pop(1, 0)
    lo = c if all(v >= 0 for v in p.values()) else None
    hi = c if all(v <= 0 for v in p.values()) else None
    return lo, hi


def a_cmp(op, a, b, pos):
    lo, hi = a_range(a_add(a, b, -1), pos)

    def und():
        raise AnalysisError("MINMAX-TABLE: %s %s %s is not decided by the atoms (position %s)"
                            % (a_show(a), op, a_show(b), pos))
    if op == "<":
        if hi is not None and hi < 0:
            return True
        if lo is not None and lo >= 0:
            return False
        und()
    if op == "<=":
        if hi is not None and hi <= 0:
            return True
        if lo is not None and lo > 0:
            return False
        und()
    if op == ">":
        return not a_cmp("<=", a, b, pos)
    if op == ">=":
        return not a_cmp("<", a, b, pos)
    if op == "==":
        if lo is not None and hi is not None and lo == hi == 0:
            return True
        if (lo is not None and lo > 0) or (hi is not None and hi < 0):
            return False
        und()
    if op == "!=":
        return not a_cmp("==", a, b, pos)
    raise AnalysisError("MINMAX-TABLE: operator %s" % op)


# ---- values ---------------------------------------------------------------------

MARK = ("marker",)
BOUND = ("bound",)
TREE = ("tree",)


class _Ret(Exception):
    def __init__(self, v):
        self.v = v


class _Raise(Exception):
    def __init__(self, name):
        self.name = name


def _is_int(v):
    return isinstance(v, dict)


def show_val(v):
    if v is None:
        return "None"
    if _is_int(v):
        return a_show(v)
    if v == BOUND:
        return "bound"
    if v[0] == "key":
        return "%s.keys[%s]" % (v[1], a_show(v[2]))
    if v[0] == "call":
        return "%s.%s(%s)" % (v[1], v[2], ", ".join(show_val(x) for x in v[3]))
    return repr(v)


class Walk(object):
    """abstract run of one method for one valuation of the atoms"""

    def __init__(self, tree, scen, leaf_kind="Bucket", depth=0):
        self.tree = tree
        self.s = scen
        self.leaf_kind = leaf_kind
        self.depth = depth
        self.consts = {}
        for st in tree.body:
            if isinstance(st, ast.Assign) and len(st.targets) == 1 and isinstance(st.targets[0], ast.Name):
                if st.targets[0].id == "_marker":
                    self.consts["_marker"] = MARK

    # -- key order -------------------------------------------------------------
    def key_order(self, x, y):
        """sign of compare(x, y)"""
        if y != BOUND and x == BOUND:
            return set(-v for v in self.key_order(y, x))
        pos = self.s.get("pos")
        if y == BOUND and x[0] == "key":
            if x[1] == "N":
                return {1}               # _findbucket contract: bound < separator(N) <= keys of N
            if x[1] != "F":
                raise AnalysisError("MINMAX-TABLE: key of %s compared with the bound" % x[1])
            lo, hi = a_range(a_add(x[2], a_var("I"), -1), pos)
            # d = (slot index) - I.  hit: the bound equals keys[I]; otherwise it
            # lies just below keys[I]
            signs = set()
            if pos in ("hit", "hitlast"):
                if lo is None or lo < 0:
                    signs.add(-1)
                if (lo is None or lo <= 0) and (hi is None or hi >= 0):
                    signs.add(0)
                if hi is None or hi > 0:
                    signs.add(1)
            else:
                if lo is None or lo < 0:
                    signs.add(-1)
                if hi is None or hi >= 0:
                    signs.add(1)
            return signs
        if y == BOUND and x[0] == "call" and x[2] == "minKey" and not x[3] and x[1].startswith("CHILD"):
            if x[1] != "CHILD[J]":
                raise AnalysisError("MINMAX-TABLE: smallest key of %s compared with the bound" % x[1])
            return {1} if self.s["min_gt"] else {-1, 0}
        raise AnalysisError("MINMAX-TABLE: compare(%s, %s)" % (show_val(x), show_val(y)))

    # -- expressions -----------------------------------------------------------
    def ev(self, e, env):
        if isinstance(e, ast.Constant):
            if isinstance(e.value, bool) or e.value is None:
                return e.value
            if isinstance(e.value, int):
                return a_const(e.value)
            return ("str", e.value)
        if isinstance(e, ast.Name):
            if e.id in env:
                return env[e.id]
            if e.id in self.consts:
                return self.consts[e.id]
            raise AnalysisError("MINMAX-TABLE: name %s at line %s" % (e.id, e.lineno))
        if isinstance(e, ast.UnaryOp):
            if isinstance(e.op, ast.Not):
                return not self.truth(self.ev(e.operand, env))
            if isinstance(e.op, ast.USub):
                v = self.ev(e.operand, env)
                if _is_int(v):
                    return a_neg(v)
        if isinstance(e, ast.BinOp) and isinstance(e.op, (ast.Add, ast.Sub)):
            a, b = self.ev(e.left, env), self.ev(e.right, env)
            if _is_int(a) and _is_int(b):
                return a_add(a, b, 1 if isinstance(e.op, ast.Add) else -1)
        if isinstance(e, ast.BoolOp):
            last = None
            for v in e.values:
                last = self.ev(v, env)
                t = self.truth(last)
                if isinstance(e.op, ast.And) and not t:
                    return last
                if isinstance(e.op, ast.Or) and t:
                    return last
            return last
        if isinstance(e, ast.Compare) and len(e.ops) == 1:
            a, b = self.ev(e.left, env), self.ev(e.comparators[0], env)
            op = e.ops[0]
            if isinstance(op, (ast.Is, ast.IsNot)):
                same = self.identical(a, b)
                return same if isinstance(op, ast.Is) else not same
            sym = {ast.Lt: "<", ast.LtE: "<=", ast.Gt: ">", ast.GtE: ">=", ast.Eq: "==", ast.NotEq: "!="}.get(type(op))
            if sym and _is_int(a) and _is_int(b):
                return a_cmp(sym, a, b, self.s.get("pos"))
            if sym and isinstance(a, tuple) and a[0] == "signs" and _is_int(b) and set(b) <= {1}:
                c = b.get(1, 0)
                r = set({"<": v < c, "<=": v <= c, ">": v > c, ">=": v >= c, "==": v == c, "!=": v != c}[sym]
                        for v in a[1])
                if len(r) == 1:
                    return r.pop()
                raise AnalysisError("MINMAX-TABLE: %s is not decided by the atoms (line %s)"
                                    % (pyfront.unparse(e)[:60], e.lineno))
        if isinstance(e, ast.Attribute):
            base = self.ev(e.value, env)
            return self.attr(base, e.attr, e)
        if isinstance(e, ast.Subscript):
            base = self.ev(e.value, env)
            idx = self.ev(e.slice, env)
            return self.subscript(base, idx, e)
        if isinstance(e, ast.Call):
            return self.call(e, env)
        if isinstance(e, ast.IfExp):
            return self.ev(e.body if self.truth(self.ev(e.test, env)) else e.orelse, env)
        if isinstance(e, ast.Tuple):
            return ("tuple", tuple(self.ev(x, env) for x in e.elts))
        raise AnalysisError("MINMAX-TABLE: expression %s at line %s" % (pyfront.unparse(e)[:60], e.lineno))

    def identical(self, a, b):
        for x, y in ((a, b), (b, a)):
            if x is None:
                return y is None
            if x == MARK:
                return y == MARK
        if isinstance(a, tuple) and isinstance(b, tuple) and a[0] == b[0] == "leaf":
            return a == b
        raise AnalysisError("MINMAX-TABLE: identity of %s and %s" % (show_val(a), show_val(b)))

    def truth(self, v):
        if isinstance(v, bool):
            return v
        if v is None:
            return False
        if _is_int(v):
            return a_cmp("!=", v, {}, self.s.get("pos"))
        if isinstance(v, tuple):
            if v[0] in ("leaf", "tree", "child"):
                return True
            if v[0] == "data":
                return not self.s["empty"]
            if v[0] == "keys":
                return True
            if v in (MARK, BOUND):
                raise AnalysisError("MINMAX-TABLE: truth value of the bound argument")
        raise AnalysisError("MINMAX-TABLE: truth value of %s" % show_val(v))

    def attr(self, base, name, node):
        if base == TREE:
            if name == "_firstbucket":
                return None if self.s["empty"] else ("leaf", "F")
            if name == "_data":
                return ("data",)
        if isinstance(base, tuple) and base[0] == "leaf":
            if name == "_keys":
                return ("keys", base[1])
            if name == "_next":
                if base[1] == "F":
                    return ("leaf", "N") if self.s["has_next"] else None
                raise AnalysisError("MINMAX-TABLE: successor of %s" % base[1])
        if isinstance(base, tuple) and base[0] == "item" and name == "child":
            return ("child", base[1])
        if isinstance(base, tuple) and base[0] == "item" and name == "key":
            return ("sep", base[1])
        raise AnalysisError("MINMAX-TABLE: attribute %s of %s at line %s" % (name, show_val(base), node.lineno))

    def subscript(self, base, idx, node):
        if isinstance(base, tuple) and base[0] == "keys" and _is_int(idx):
            lo, hi = a_range(idx, self.s.get("pos") if base[1] == "F" else "before")
            if hi is not None and hi < 0:
                idx = a_add(idx, a_var("LEN" if base[1] == "F" else "NLEN"))    # negative index
            elif not (lo is not None and lo >= 0):
                raise AnalysisError("MINMAX-TABLE: sign of the index %s" % a_show(idx))
            return ("key", base[1], idx)
        if isinstance(base, tuple) and base[0] == "data" and _is_int(idx):
            return ("item", a_show(idx))
        raise AnalysisError("MINMAX-TABLE: subscript %s at line %s" % (pyfront.unparse(node)[:60], node.lineno))

    # -- calls -------------------------------------------------------------------
    def call(self, e, env):
        f = e.func
        args = [self.ev(a, env) for a in e.args]
        if e.keywords:
            raise AnalysisError("MINMAX-TABLE: keyword arguments at line %s" % e.lineno)
        if isinstance(f, ast.Name):
            if f.id == "compare" and len(args) == 2:
                return ("signs", frozenset(self.key_order(args[0], args[1])))
            if f.id == "len" and len(args) == 1 and isinstance(args[0], tuple):
                if args[0][0] == "keys":
                    return a_var("LEN" if args[0][1] == "F" else "NLEN")
            if f.id == "ValueError":
                return ("exc", "ValueError")
            raise AnalysisError("MINMAX-TABLE: call of %s at line %s" % (f.id, e.lineno))
        if not isinstance(f, ast.Attribute):
            raise AnalysisError("MINMAX-TABLE: call at line %s" % e.lineno)
        recv = self.ev(f.value, env)
        m = f.attr
        if recv == TREE:
            if m == "_to_key" and len(args) == 1:
                if args[0] in (MARK, None):
                    raise AnalysisError("MINMAX-TABLE: the omitted bound is converted (line %s)" % e.lineno)
                return BOUND
            if m == "_findbucket" and args == [BOUND]:
                return None if self.s["empty"] else ("leaf", "F")
            if m == "_search" and args == [BOUND]:
                if self.s["empty"]:
                    return a_const(-1)
                return a_const(0) if self.s["idx0"] else a_var("J")
            if m not in ("_to_key", "_findbucket", "_search", "minKey", "maxKey") and getattr(self, "tree_kind", None):
                return self.inline(self.tree_kind, m, recv, args, e)       # a helper method of the tree class
        if isinstance(recv, tuple) and recv[0] == "leaf":
            if m == "_search" and args == [BOUND]:
                if recv[1] == "N":
                    return a_const(-1)
                pos = self.s["pos"]
                i = {"before": a_const(0), "past": a_var("LEN"),
                     "hitlast": a_add(a_var("LEN"), a_const(-1))}.get(pos, a_var("I"))
                return i if pos in ("hit", "hitlast") else a_add(a_neg(i), a_const(-1))
            if m == "_to_key" and len(args) == 1:
                return args[0]            # already converted by the tree-level method
            if m in ("minKey", "maxKey"):
                return self.inline(self.leaf_kind, m, recv, args, e)
            if m not in ("_to_key", "_search"):
                return self.inline(self.leaf_kind, m, recv, args, e)       # a helper method of the leaf class
        if isinstance(recv, tuple) and recv[0] == "child" and m in ("minKey", "maxKey"):
            return ("call", "CHILD[%s]" % recv[1], m, tuple(args))
        raise AnalysisError("MINMAX-TABLE: call %s at line %s" % (pyfront.unparse(e)[:60], e.lineno))

    def inline(self, kind, name, recv, args, node):
        if self.depth > 3:
            raise AnalysisError("MINMAX-TABLE: inlining depth")
        r = pyfront.resolve(self.tree, kind, name)
        if r is None or r[1] is None:
            raise AnalysisError("anchor vanished: %s.%s" % (kind, name))
        fn = r[1]
        w = Walk(self.tree, self.s, self.leaf_kind, self.depth + 1)
        w.tree_kind = getattr(self, "tree_kind", None)
        return w.run(fn, recv, args)

    # -- statements ----------------------------------------------------------------
    def run(self, fn, selfval, args):
        """value returned; _Raise propagates"""
        params = [a.arg for a in fn.args.args]
        defaults = [None] * (len(params) - len(fn.args.defaults)) + list(fn.args.defaults)
        env = {params[0]: selfval}
        for i, p in enumerate(params[1:]):
            if i < len(args):
                env[p] = args[i]
            elif defaults[i + 1] is not None:
                env[p] = self.ev(defaults[i + 1], env)
            else:
                raise AnalysisError("MINMAX-TABLE: missing argument %s of %s" % (p, fn.name))
        try:
            self.block(fn.body, env)
        except _Ret as r:
            return r.v
        return None

    def block(self, stmts, env):
        for st in stmts:
            self.stmt(st, env)

    def stmt(self, st, env):
        if isinstance(st, ast.Expr):
            if isinstance(st.value, ast.Constant):
                return
            self.ev(st.value, env)
            return
        if isinstance(st, ast.Assign) and len(st.targets) == 1 and isinstance(st.targets[0], ast.Name):
            env[st.targets[0].id] = self.ev(st.value, env)
            return
        if isinstance(st, ast.Assign) and len(st.targets) == 1 and isinstance(st.targets[0], ast.Tuple) \
                and all(isinstance(t, ast.Name) for t in st.targets[0].elts):
            v = self.ev(st.value, env)
            if isinstance(v, tuple) and v and v[0] == "tuple" and len(v[1]) == len(st.targets[0].elts):
                for t, x in zip(st.targets[0].elts, v[1]):
                    env[t.id] = x
                return
        if isinstance(st, ast.AugAssign) and isinstance(st.target, ast.Name) and isinstance(st.op, (ast.Add, ast.Sub)):
            a, b = env[st.target.id], self.ev(st.value, env)
            if _is_int(a) and _is_int(b):
                env[st.target.id] = a_add(a, b, 1 if isinstance(st.op, ast.Add) else -1)
                return
        if isinstance(st, ast.If):
            self.block(st.body if self.truth(self.ev(st.test, env)) else st.orelse, env)
            return
        if isinstance(st, ast.Return):
            raise _Ret(self.ev(st.value, env) if st.value is not None else None)
        if isinstance(st, ast.Raise) and st.exc is not None:
            v = self.ev(st.exc, env)
            if isinstance(v, tuple) and v[0] == "exc":
                raise _Raise(v[1])
        if isinstance(st, ast.Try) and not st.finalbody:
            try:
                self.block(st.body, env)
                self.block(st.orelse, env)
            except _Raise as r:
                for h in st.handlers:
                    names = []
                    if h.type is None:
                        names = [r.name]
                    elif isinstance(h.type, ast.Name):
                        names = [h.type.id]
                    elif isinstance(h.type, ast.Tuple):
                        names = [x.id for x in h.type.elts if isinstance(x, ast.Name)]
                    if r.name in names or "Exception" in names:
                        self.block(h.body, env)
                        return
                raise
            return
        if isinstance(st, ast.Pass):
            return
        raise AnalysisError("MINMAX-TABLE: statement %s at line %s" % (type(st).__name__, st.lineno))


def _outcome(tree, kind, name, selfval, args, scen):
    r = pyfront.resolve(tree, kind, name)
    if r is None or r[1] is None:
        raise AnalysisError("anchor vanished: %s.%s" % (kind, name))
    w = Walk(tree, scen, leaf_kind=kind)
    try:
        v = w.run(r[1], selfval, args)
    except _Raise as x:
        return "raise " + x.name, r[1].lineno
    v = _found(v, scen)
    return show_val(v), r[1].lineno


def _found(v, scen):
    """a found key may be returned as the (converted) bound or as the slot that
    equals it"""
    if v == BOUND and scen.get("pos") == "hit":
        return ("key", "F", {"I": 1})
    if v == BOUND and scen.get("pos") == "hitlast":
        return ("key", "F", {"LEN": 1, 1: -1})
    return v


POS = ("before", "hit", "hitlast", "inner", "past")


def leaf_table():
    """{(method, given, pos): outcome} for the leaf classes"""
    tree = pyfront.base_py()
    out = {}
    line = {}
    for kind in ("Bucket", "Set"):
        for m in ("minKey", "maxKey"):
            key = (kind, m, False, "-")
            out[key], line[key] = _outcome(tree, kind, m, ("leaf", "F"), [],
                                           dict(empty=False, has_next=False))
            for pos in POS:
                key = (kind, m, True, pos)
                out[key], line[key] = _outcome(tree, kind, m, ("leaf", "F"), [BOUND],
                                               dict(empty=False, pos=pos, has_next=False))
    return out, line


def leaf_spec(kind, m, given, pos):
    if not given:
        return "F.keys[0]" if m == "minKey" else "F.keys[LEN-1]"
    if pos == "hit":
        return "F.keys[I]"
    if pos == "hitlast":
        return "F.keys[LEN-1]"
    if m == "minKey":
        return {"before": "F.keys[0]", "inner": "F.keys[I]", "past": "raise ValueError"}[pos]
    return {"before": "raise ValueError", "inner": "F.keys[I-1]", "past": "F.keys[LEN-1]"}[pos]


def tree_min_table():
    """{(kind, given, empty, pos, has_next): outcome} of the tree-level minKey"""
    tree = pyfront.base_py()
    out = {}
    line = {}
    for kind, leaf in (("Tree", "Bucket"), ("TreeSet", "Set")):
        for empty in (True, False):
            key = (kind, False, empty, "-", False)
            out[key], line[key] = _run_tree(tree, kind, leaf, "minKey", [], dict(empty=empty, has_next=True))
        key = (kind, True, True, "-", False)
        out[key], line[key] = _run_tree(tree, kind, leaf, "minKey", [("raw",)], dict(empty=True, has_next=False, pos="before"))
        for pos, nx in itertools.product(POS, (True, False)):
            key = (kind, True, False, pos, nx)
            out[key], line[key] = _run_tree(tree, kind, leaf, "minKey", [("raw",)],
                                            dict(empty=False, pos=pos, has_next=nx))
    return out, line


def _run_tree(tree, kind, leaf, m, args, scen):
    r = pyfront.resolve(tree, kind, m)
    if r is None or r[1] is None:
        raise AnalysisError("anchor vanished: %s.%s" % (kind, m))
    w = Walk(tree, scen, leaf_kind=leaf)
    w.tree_kind = kind
    try:
        v = w.run(r[1], TREE, args)
    except _Raise as x:
        return "raise " + x.name, r[1].lineno
    v = _found(v, scen)
    return show_val(v), r[1].lineno


def tree_min_spec(kind, given, empty, pos, has_next):
    if empty:
        return "raise ValueError"
    if not given:
        return "F.keys[0]"
    if pos == "past":
        return "N.keys[0]" if has_next else "raise ValueError"
    return {"before": "F.keys[0]", "hit": "F.keys[I]", "hitlast": "F.keys[LEN-1]", "inner": "F.keys[I]"}[pos]


def tree_max_table():
    """{(kind, given, empty, idx0, min_gt): which child is asked} of the
    tree-level maxKey"""
    tree = pyfront.base_py()
    out = {}
    line = {}
    for kind, leaf in (("Tree", "Bucket"), ("TreeSet", "Set")):
        for given in (True, False):
            key = (kind, given, True, True, False)
            out[key], line[key] = _run_tree(tree, kind, leaf, "maxKey", [("raw",)] if given else [],
                                            dict(empty=True, idx0=True, min_gt=False))
        key = (kind, False, False, True, False)
        out[key], line[key] = _run_tree(tree, kind, leaf, "maxKey", [], dict(empty=False, idx0=True, min_gt=False))
        for idx0, gt in itertools.product((True, False), repeat=2):
            key = (kind, True, False, idx0, gt)
            out[key], line[key] = _run_tree(tree, kind, leaf, "maxKey", [("raw",)],
                                            dict(empty=False, idx0=idx0, min_gt=gt))
    return out, line


def tree_max_spec(kind, given, empty, idx0, min_gt):
    if empty:
        return "raise ValueError"
    if not given:
        return "CHILD[-1].maxKey()"
    if idx0:
        return "CHILD[0].maxKey(bound)"      # raises ValueError itself when its smallest key is greater
    return "CHILD[J-1].maxKey(bound)" if min_gt else "CHILD[J].maxKey(bound)"


def py_check(res):
    n = 0
    lt, ll = leaf_table()
    for key, got in sorted(lt.items()):
        n += 1
        want = leaf_spec(*key)
        if got != want:
            kind, m, given, pos = key
            res.findings.add(dict(
                rule="MINMAX-TABLE", function="%s.%s" % ("_BucketBase" if True else kind, m), file=REL, line=ll[key],
                construct="leaf %s, bound %s: %s (specified %s)" % (
                    m, ("%s the keys" % {"before": "before", "hit": "among", "hitlast": "the last of", "inner": "between two of", "past": "behind"}[pos])
                    if given else "omitted", got, want),
                detail="%s(b) of a leaf is the %s; with the bound %s it must be %s"
                       % (m, "least key >= b" if m == "minKey" else "greatest key <= b",
                          pos if given else "omitted", want), path=[]))
    tm, tl = tree_min_table()
    for key, got in sorted(tm.items()):
        n += 1
        want = tree_min_spec(*key)
        if got != want:
            kind, given, empty, pos, nx = key
            res.findings.add(dict(
                rule="MINMAX-TABLE", function="_Tree.minKey", file=REL, line=tl[key],
                construct="tree minKey, %s, bound %s, found leaf %s a successor: %s (specified %s)" % (
                    "empty tree" if empty else "non-empty tree",
                    ("%s the keys of the leaf it sorts into" % {"before": "before", "hit": "among", "hitlast": "the last of",
                                                               "inner": "between two of",
                                                               "past": "behind", "-": "-"}[pos]) if given else "omitted",
                    "has" if nx else "without", got, want),
                detail="a bound that falls behind the last key of the leaf it sorts into (the next "
                       "separator is larger still) is answered by the first key of the next leaf; "
                       "ValueError is right only when there is no next leaf (the C implementation "
                       "moves right in BTree_findRangeEnd)", path=[]))
    tx, txl = tree_max_table()
    for key, got in sorted(tx.items()):
        n += 1
        want = tree_max_spec(*key)
        if got != want:
            kind, given, empty, idx0, gt = key
            res.findings.add(dict(
                rule="MINMAX-TABLE", function="_Tree.maxKey", file=REL, line=txl[key],
                construct="tree maxKey, %s, bound %s, child index %s, child's smallest key %s the bound: %s (specified %s)" % (
                    "empty tree" if empty else "non-empty tree", "given" if given else "omitted",
                    "0" if idx0 else "> 0", ">" if gt else "<=", got, want),
                detail="when every key of the child the bound sorts into is greater than the bound "
                       "(its separator is smaller than its smallest key after deletions) the answer "
                       "is the greatest key of the child to the left", path=[]))
    res.count("PY-MINMAX-TABLE", n)
    return dict(leaf={repr(k): v for k, v in lt.items()}, tree_min={repr(k): v for k, v in tm.items()},
                tree_max={repr(k): v for k, v in tx.items()})
