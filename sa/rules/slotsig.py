"""SLOT-SIG (C09): a function installed in a type-object slot through a cast
must have the calling convention the slot's function-pointer type promises.

CPython calls a slot through the slot's type.  When the installed function
returns a narrower integer than the slot (an `int` function in a `lenfunc` slot
that returns Py_ssize_t), the upper half of the result register is undefined:
an error return of -1 arrives as 4294967295 and the interpreter raises
SystemError ("returned a result with an exception set") in place of the
function's exception - e.g. the load error of a ghost.  The rule compares, for
every cast of a function to a function-pointer type inside a global initialiser
(type objects and their number/sequence/mapping suites), the class of the
return type (void / pointer / integer of n bytes): the function may not return
a narrower integer than the slot, nor a different class.  (A wider integer, an
extra trailing parameter or a different pointee type are read back correctly
for the values involved and are not reported.)
PyMethodDef tables are out of scope: their entries are cast to PyCFunction by
design and dispatched on the flags.
"""
import re

SIZES = {"int": 4, "unsigned int": 4, "long": 8, "unsigned long": 8, "long long": 8,
         "unsigned long long": 8, "Py_ssize_t": 8, "ssize_t": 8, "size_t": 8, "Py_hash_t": 8,
         "short": 2, "char": 1, "_Bool": 1}


def _split_proto(t):
    """'int (*)(A, B)' / 'int (A, B)' -> (ret, [params])"""
    t = t.strip()
    m = re.match(r"^(.*?)\(\*\)\s*\((.*)\)$", t) or re.match(r"^(.*?)\((.*)\)$", t)
    if not m:
        return None
    ret, ps = m.group(1).strip(), m.group(2).strip()
    depth, cur, params = 0, "", []
    for ch in ps:
        if ch == "," and depth == 0:
            params.append(cur.strip())
            cur = ""
            continue
        depth += ch == "("
        depth -= ch == ")"
        cur += ch
    if cur.strip() and cur.strip() != "void":
        params.append(cur.strip())
    return ret, params


def _cls(t, typedefs):
    t = t.replace("const ", "").strip()
    seen = 0
    while t in typedefs and t not in SIZES and seen < 6:
        t = typedefs[t].replace("const ", "").strip()
        seen += 1
    if t == "void":
        return "void"
    if t.endswith("*") or "(*)" in t:
        return "pointer"
    if t in SIZES:
        return "integer of %d bytes" % SIZES[t]
    return "other:" + t


def analyse_tu(tu):
    findings = []
    n = 0
    for gname, g in sorted(tu.globals.items()):
        if "PyMethodDef" in (g.t or "") or "PyMemberDef" in (g.t or "") or "PyGetSetDef" in (g.t or ""):
            continue
        for c in g.walk():
            if c.k != "CStyleCastExpr":
                continue
            i0 = c.kids[-1]
            while i0.k in ("ImplicitCastExpr", "ParenExpr"):
                i0 = i0.kids[0]
            if i0.k != "DeclRefExpr" or i0.rk != "FunctionDecl":
                continue
            slot, fn = _split_proto(c.t or ""), _split_proto(i0.t or "")
            if slot is None or fn is None:
                continue
            n += 1
            bad = None
            sr, fr = _cls(slot[0], tu.typedefs), _cls(fn[0], tu.typedefs)
            if sr != fr:
                narrower = sr.startswith("integer") and fr.startswith("integer") and \
                    int(fr.split()[2]) < int(sr.split()[2])
                mixed = not (sr.startswith("integer") and fr.startswith("integer"))
                # a wider integer result in a narrower slot is read back
                # correctly for the small values these functions return
                if narrower or mixed:
                    bad = "returns %s (%s) where the slot type %s returns %s (%s)" % (
                        fn[0], fr, c.t, slot[0], sr)
            if bad:
                findings.append(dict(
                    rule="SLOT-SIG", function=i0.n, file=c.f, line=c.l,
                    construct="%s installed in %s %s" % (i0.n, gname, bad),
                    detail="the interpreter calls the function through the "
                           "slot's type: with a narrower integer result the "
                           "upper half of the result register is undefined, so "
                           "the error return -1 is not recognised and the "
                           "function's exception is replaced by SystemError "
                           "(e.g. len() of a ghost whose load fails), unlike "
                           "the Python implementation", path=[]))
    return dict(findings=findings, n=n)
