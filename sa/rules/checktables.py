"""CHECK-TABLES and CHECK-TRANSPARENT (C18): the module BTrees/check.py.

CHECK-TABLES   The two dispatch tables the walker works from are built by
               module-level loops.  A small partial evaluator runs those loops
               (strings, tuples, `range` unpacking, dict stores and lookups,
               `globals()[name]` as the symbol of a class) and the resulting
               tables are compared with the specification, for every family
               and both implementations:
                 _type2kind[<F>BTree]   = (TYPE_BTREE,  True)
                 _type2kind[<F>Bucket]  = (TYPE_BUCKET, True)
                 _type2kind[<F>TreeSet] = (TYPE_BTREE,  False)
                 _type2kind[<F>Set]     = (TYPE_BUCKET, False)
                 _btree2bucket[<F>BTree] = <F>Bucket, [<F>TreeSet] = <F>Set
               (and the same with the Py suffix).  A TreeSet mapped to a
               mapping leaf makes the walker read every second key only.
CHECK-TRANSPARENT
               Between `__getstate__` and `check_sorted` the keys must keep
               their order and multiplicity, or misordered / duplicated keys
               cannot be reported: the functions of check.py apply no
               de-duplicating or re-ordering operation (dict / set / frozenset
               / sorted / reversed / .sort / .reverse / dict.fromkeys /
               OrderedDict / Counter) to data taken from a state whose result,
               as a sequence, reaches the order check (an argument of
               visit_btree / visit_bucket / check_sorted, or anything inside
               them; _reordered_reaching_check).  Re-ordering the walker's
               work list of nodes is not re-ordering keys.
"""
import ast

from ..common import AnalysisError, SRC
from .. import pyfront

REL = SRC + "/check.py"
KINDS = {"BTree": ("TYPE_BTREE", True), "Bucket": ("TYPE_BUCKET", True),
         "TreeSet": ("TYPE_BTREE", False), "Set": ("TYPE_BUCKET", False)}
LEAF_OF = {"BTree": "Bucket", "TreeSet": "Set"}
REORDERING = ("dict", "set", "frozenset", "sorted", "reversed", "OrderedDict", "Counter", "defaultdict")
REORDERING_METHODS = ("sort", "reverse", "fromkeys")


class _Stop(Exception):
    pass


class Cls(object):
    """symbol of a class looked up through globals()"""
    def __init__(self, name):
        self.name = name

    def __eq__(self, o):
        return isinstance(o, Cls) and o.name == self.name

    def __hash__(self):
        return hash(("cls", self.name))

    def __repr__(self):
        return self.name


class Sym(object):
    def __init__(self, name):
        self.name = name

    def __eq__(self, o):
        return isinstance(o, Sym) and o.name == self.name

    def __hash__(self):
        return hash(("sym", self.name))

    def __repr__(self):
        return self.name


class Evaluator(object):
    def __init__(self):
        self.env = {}
        self.skipped = 0

    def ev(self, e):
        if isinstance(e, ast.Constant):
            return e.value
        if isinstance(e, ast.Name):
            if e.id in self.env:
                return self.env[e.id]
            if e.id in ("True", "False", "None"):
                return {"True": True, "False": False, "None": None}[e.id]
            raise _Stop("name %s" % e.id)
        if isinstance(e, ast.Tuple):
            return tuple(self.ev(x) for x in e.elts)
        if isinstance(e, ast.List):
            return [self.ev(x) for x in e.elts]
        if isinstance(e, ast.Dict):
            return {self.ev(k): self.ev(v) for k, v in zip(e.keys, e.values)}
        if isinstance(e, ast.BinOp) and isinstance(e.op, ast.Add):
            a, b = self.ev(e.left), self.ev(e.right)
            if isinstance(a, str) and isinstance(b, str):
                return a + b
            if isinstance(a, tuple) and isinstance(b, tuple):
                return a + b
            raise _Stop("+")
        if isinstance(e, ast.BinOp) and isinstance(e.op, ast.Mod):
            a, b = self.ev(e.left), self.ev(e.right)
            if isinstance(a, str):
                return a % b
            raise _Stop("%")
        if isinstance(e, ast.JoinedStr):
            out = ""
            for v in e.values:
                if isinstance(v, ast.Constant):
                    out += str(v.value)
                elif isinstance(v, ast.FormattedValue) and v.format_spec is None and v.conversion == -1:
                    out += str(self.ev(v.value))
                else:
                    raise _Stop("f-string")
            return out
        if isinstance(e, ast.IfExp):
            return self.ev(e.body) if self.truth(self.ev(e.test)) else self.ev(e.orelse)
        if isinstance(e, ast.UnaryOp) and isinstance(e.op, ast.Not):
            return not self.truth(self.ev(e.operand))
        if isinstance(e, ast.Compare) and len(e.ops) == 1:
            a, b = self.ev(e.left), self.ev(e.comparators[0])
            op = e.ops[0]
            if isinstance(op, (ast.Eq, ast.Is)):
                return a == b
            if isinstance(op, (ast.NotEq, ast.IsNot)):
                return a != b
            if isinstance(op, ast.In):
                return a in b
            if isinstance(op, ast.NotIn):
                return a not in b
            raise _Stop("compare")
        if isinstance(e, ast.BoolOp):
            vals = [self.ev(v) for v in e.values]
            if isinstance(e.op, ast.And):
                r = True
                for v in vals:
                    r = v
                    if not self.truth(v):
                        break
                return r
            r = False
            for v in vals:
                r = v
                if self.truth(v):
                    break
            return r
        if isinstance(e, ast.Subscript):
            base = e.value
            if isinstance(base, ast.Call) and isinstance(base.func, ast.Name) and base.func.id == "globals" \
                    and not base.args:
                k = self.ev(e.slice)
                if not isinstance(k, str):
                    raise _Stop("globals()[non-string]")
                if k in self.env and not isinstance(self.env[k], Cls):
                    return self.env[k]
                return Cls(k)
            b = self.ev(base)
            k = self.ev(e.slice)
            try:
                return b[k]
            except Exception:
                raise _Stop("subscript %r[%r]" % (b, k))
        if isinstance(e, ast.Call):
            f = e.func
            if isinstance(f, ast.Name) and f.id == "range" and len(e.args) == 1 and not e.keywords:
                n = self.ev(e.args[0])
                return tuple(Sym("#%d" % i) for i in range(n)) if False else tuple(range(n))
            if isinstance(f, ast.Name) and f.id in ("tuple", "list") and len(e.args) == 1:
                return tuple(self.ev(e.args[0]))
            if isinstance(f, ast.Name) and f.id == "getattr" and len(e.args) >= 2:
                raise _Stop("getattr")
            if isinstance(f, ast.Attribute) and f.attr == "format" and isinstance(f.value, ast.Constant):
                return f.value.value.format(*[self.ev(a) for a in e.args])
            if isinstance(f, ast.Attribute) and f.attr in ("items", "keys", "values") and not e.args:
                b = self.ev(f.value)
                if isinstance(b, dict):
                    return tuple(getattr(b, f.attr)())
            raise _Stop("call %s" % pyfront.unparse(f))
        raise _Stop(type(e).__name__)

    @staticmethod
    def truth(v):
        return bool(v)

    def assign(self, target, v):
        if isinstance(target, ast.Name):
            self.env[target.id] = v
        elif isinstance(target, (ast.Tuple, ast.List)):
            vs = list(v)
            if len(vs) != len(target.elts):
                raise _Stop("unpack")
            for t, x in zip(target.elts, vs):
                self.assign(t, x)
        elif isinstance(target, ast.Subscript):
            b = self.ev(target.value)
            if not isinstance(b, dict):
                raise _Stop("store into non-dict")
            b[self.ev(target.slice)] = v
        else:
            raise _Stop("assign target")

    def stmt(self, st):
        if isinstance(st, ast.Assign):
            v = self.ev(st.value)
            for t in st.targets:
                self.assign(t, v)
        elif isinstance(st, ast.For):
            for x in self.ev(st.iter):
                self.assign(st.target, x)
                for b in st.body:
                    self.stmt(b)
        elif isinstance(st, ast.If):
            for b in (st.body if self.truth(self.ev(st.test)) else st.orelse):
                self.stmt(b)
        elif isinstance(st, (ast.Expr, ast.Pass)):
            if isinstance(st, ast.Expr) and not isinstance(st.value, ast.Constant):
                self.ev(st.value)
        else:
            raise _Stop(type(st).__name__)


NOT_DATA = ("len", "range", "isinstance", "type", "id", "repr", "str", "hasattr", "bool", "positive_id", "oid_repr")


def _tainted(e, names, taint):
    """does the expression carry data taken from a node's state (keys, values,
    children)?  Counts, types and reprs of it do not."""
    if isinstance(e, ast.Call):
        f = e.func
        if isinstance(f, ast.Name) and f.id in NOT_DATA:
            return False
        if isinstance(f, ast.Attribute) and f.attr == "__getstate__":
            return True
        callee_name = f.id if isinstance(f, ast.Name) else f.attr if isinstance(f, ast.Attribute) else None
        if callee_name in taint.get("returns", ()):
            return True
        return any(_tainted(a, names, taint) for a in list(e.args) + [k.value for k in e.keywords]) or \
            (isinstance(f, ast.Attribute) and _tainted(f.value, names, taint))
    if isinstance(e, ast.Name):
        return e.id in names
    return any(_tainted(c, names, taint) for c in ast.iter_child_nodes(e) if isinstance(c, ast.expr))


def _state_taint(tree):
    """{FunctionDef: tainted local names}, plus "returns": names of functions
    that return state data; parameters are tainted through call sites"""
    fns = [n for n in ast.walk(tree) if isinstance(n, ast.FunctionDef)]
    taint = {fn: set() for fn in fns}
    taint["returns"] = set()
    byname = {}
    for fn in fns:
        byname.setdefault(fn.name, []).append(fn)
    changed = True
    rounds = 0
    while changed and rounds < 20:
        changed = False
        rounds += 1
        for fn in fns:
            tn = taint[fn]
            for st in ast.walk(fn):
                tgts = None
                if isinstance(st, ast.Assign) and _tainted(st.value, tn, taint):
                    tgts = st.targets
                elif isinstance(st, ast.For) and _tainted(st.iter, tn, taint):
                    tgts = [st.target]
                elif isinstance(st, ast.AugAssign) and _tainted(st.value, tn, taint):
                    tgts = [st.target]
                for t in tgts or ():
                    for n in ast.walk(t):
                        if isinstance(n, ast.Name) and n.id not in tn:
                            tn.add(n.id)
                            changed = True
                if isinstance(st, ast.Return) and st.value is not None and _tainted(st.value, tn, taint) \
                        and fn.name not in taint["returns"]:
                    taint["returns"].add(fn.name)
                    changed = True
                # list.append(tainted) taints the list
                if isinstance(st, ast.Call) and isinstance(st.func, ast.Attribute) and \
                        st.func.attr in ("append", "extend", "insert") and isinstance(st.func.value, ast.Name) \
                        and any(_tainted(a, tn, taint) for a in st.args) and st.func.value.id not in tn:
                    tn.add(st.func.value.id)
                    changed = True
                # call sites taint the callee's parameters
                if isinstance(st, ast.Call):
                    cn = st.func.id if isinstance(st.func, ast.Name) else \
                        st.func.attr if isinstance(st.func, ast.Attribute) else None
                    for g in byname.get(cn, ()):
                        params = [a.arg for a in g.args.args]
                        if params and params[0] == "self" and isinstance(st.func, ast.Attribute):
                            params = params[1:]
                        for pn, a in zip(params, st.args):
                            if _tainted(a, tn, taint) and pn not in taint[g]:
                                taint[g].add(pn)
                                changed = True
    return taint


SINK_METHODS = ("visit_btree", "visit_bucket", "check_sorted")


def _reorders(c, tn, taint):
    """the call re-orders / de-duplicates data taken from a state"""
    name = c.func.id if isinstance(c.func, ast.Name) else None
    meth = c.func.attr if isinstance(c.func, ast.Attribute) else None
    if name in REORDERING and any(_tainted(a, tn, taint) for a in list(c.args) + [k.value for k in c.keywords]):
        return "%s(...)" % name
    if meth in REORDERING_METHODS and (
            _tainted(c.func.value, tn, taint) or any(_tainted(a, tn, taint) for a in c.args)):
        return ".%s()" % meth
    return None


def _reordered_reaching_check(tree, sources, taint):
    """ids of the re-ordering sites whose result - as a sequence - reaches the
    order check: an argument of visit_btree / visit_bucket / check_sorted, or
    anything inside those methods.  The taint is on the *sequence*: it follows
    assignment, list() / tuple() / slicing, extend / +=, lists built in a loop
    over the sequence, arguments, returns (and unpacking of a returned tuple);
    it does not follow a single element taken out of it (pop(), x[i], the loop
    variable): re-ordering a work list of nodes does not re-order their keys.
    In-place methods (.sort(), .reverse()) taint their receiver."""
    fns = [n for n in ast.walk(tree) if isinstance(n, ast.FunctionDef)]
    byname = {}
    for fn in fns:
        byname.setdefault(fn.name, []).append(fn)
    R = {fn: {} for fn in fns}          # fn -> name -> set of source ids
    rets = {}                           # function name -> set of source ids

    def rex(e, fn):
        """source ids carried by the expression as a sequence"""
        rn = R[fn]
        if isinstance(e, ast.Name):
            return set(rn.get(e.id, ()))
        if id(e) in sources and not (isinstance(e, ast.Call) and isinstance(e.func, ast.Attribute)
                                     and e.func.attr in ("sort", "reverse")):
            return {id(e)}
        if isinstance(e, ast.Call):
            f = e.func
            nm = f.id if isinstance(f, ast.Name) else f.attr if isinstance(f, ast.Attribute) else None
            out = set()
            if isinstance(f, ast.Name) and nm in ("list", "tuple", "iter", "enumerate", "zip", "reversed", "sorted",
                                                  "set", "frozenset", "dict"):
                for a in e.args:
                    out |= rex(a, fn)
            if nm in rets:
                out |= rets[nm]
            return out
        if isinstance(e, ast.Subscript) and isinstance(e.slice, ast.Slice):
            return rex(e.value, fn)
        if isinstance(e, (ast.Tuple, ast.List)):
            out = set()
            for x in e.elts:
                out |= rex(x, fn)
            return out
        if isinstance(e, ast.IfExp):
            return rex(e.body, fn) | rex(e.orelse, fn)
        if isinstance(e, ast.BoolOp):
            out = set()
            for x in e.values:
                out |= rex(x, fn)
            return out
        if isinstance(e, ast.BinOp) and isinstance(e.op, ast.Add):
            return rex(e.left, fn) | rex(e.right, fn)
        if isinstance(e, (ast.ListComp, ast.GeneratorExp)):
            out = set()
            for g in e.generators:
                out |= rex(g.iter, fn)
            return out
        if isinstance(e, ast.Starred):
            return rex(e.value, fn)
        return set()

    def add(fn, name, ids):
        if ids - R[fn].get(name, set()):
            R[fn].setdefault(name, set()).update(ids)
            return True
        return False
    changed, rounds = True, 0
    while changed and rounds < 30:
        changed = False
        rounds += 1
        for fn in fns:
            for st in ast.walk(fn):
                if isinstance(st, ast.Assign):
                    ids = rex(st.value, fn)
                    if ids:
                        for t in st.targets:
                            for n in ast.walk(t):
                                if isinstance(n, ast.Name):
                                    changed |= add(fn, n.id, ids)
                elif isinstance(st, ast.AugAssign) and isinstance(st.target, ast.Name):
                    ids = rex(st.value, fn)
                    if ids:
                        changed |= add(fn, st.target.id, ids)
                elif isinstance(st, ast.For):
                    ids = rex(st.iter, fn)
                    if ids:
                        for c in ast.walk(st):
                            if isinstance(c, ast.Call) and isinstance(c.func, ast.Attribute) and \
                                    c.func.attr in ("append", "extend", "insert") and isinstance(c.func.value, ast.Name):
                                changed |= add(fn, c.func.value.id, ids)
                elif isinstance(st, ast.Return) and st.value is not None:
                    ids = rex(st.value, fn)
                    if ids - rets.get(fn.name, set()):
                        rets.setdefault(fn.name, set()).update(ids)
                        changed = True
                if isinstance(st, ast.Call):
                    f = st.func
                    if isinstance(f, ast.Attribute) and isinstance(f.value, ast.Name):
                        if f.attr == "extend":
                            ids = set()
                            for a in st.args:
                                ids |= rex(a, fn)
                            if ids:
                                changed |= add(fn, f.value.id, ids)
                        if f.attr in ("sort", "reverse") and id(st) in sources:
                            changed |= add(fn, f.value.id, {id(st)})
                    cn = f.id if isinstance(f, ast.Name) else f.attr if isinstance(f, ast.Attribute) else None
                    for g in byname.get(cn, ()):
                        params = [a.arg for a in g.args.args]
                        if params and params[0] == "self" and isinstance(f, ast.Attribute):
                            params = params[1:]
                        for pn, a in zip(params, st.args):
                            ids = rex(a, fn)
                            if ids:
                                changed |= add(g, pn, ids)
    reaching = set()
    for fn in fns:
        inside = fn.name in SINK_METHODS
        for c in ast.walk(fn):
            if inside and id(c) in sources:
                reaching.add(id(c))
            if inside and isinstance(c, ast.Name) and c.id in R[fn]:
                reaching |= R[fn][c.id]
            if isinstance(c, ast.Call) and isinstance(c.func, ast.Attribute) and c.func.attr in SINK_METHODS:
                for a in list(c.args) + [k.value for k in c.keywords]:
                    reaching |= rex(a, fn)
    return reaching


def tables(tree):
    """evaluate the module-level statements that only compute tables"""
    ev = Evaluator()
    for st in tree.body:
        if isinstance(st, (ast.Import, ast.ImportFrom, ast.FunctionDef, ast.ClassDef)):
            continue
        if isinstance(st, ast.Expr) and isinstance(st.value, ast.Constant):
            continue
        snapshot = dict(ev.env)
        try:
            ev.stmt(st)
        except _Stop:
            ev.skipped += 1
            # a statement that is not table construction: what it assigns is unknown
            for n in ast.walk(st):
                if isinstance(n, ast.Name) and isinstance(n.ctx, ast.Store):
                    ev.env.pop(n.id, None)
    return ev


def check(res):
    tree = pyfront.module(REL)
    ev = tables(tree)
    t2k = ev.env.get("_type2kind")
    b2b = ev.env.get("_btree2bucket")
    fams = ev.env.get("_FAMILIES")
    if not isinstance(t2k, dict) or not isinstance(b2b, dict) or not fams:
        raise AnalysisError("check.py: the tables _type2kind / _btree2bucket / _FAMILIES could not be "
                            "evaluated from the module-level code")
    consts = {"TYPE_BTREE": ev.env.get("TYPE_BTREE"), "TYPE_BUCKET": ev.env.get("TYPE_BUCKET")}
    if None in consts.values() or consts["TYPE_BTREE"] == consts["TYPE_BUCKET"]:
        raise AnalysisError("check.py: TYPE_BTREE / TYPE_BUCKET not evaluated")
    import os
    from .. import cfront
    want_fams = sorted(cfront.families())
    n = 0
    if sorted(fams) != want_fams:
        res.findings.add(dict(
            rule="CHECK-TABLES", function="_FAMILIES", file=REL, line=1,
            construct="families known to check.py: %s (built: %s)" % (sorted(fams), want_fams),
            detail="check() raises KeyError for (or silently skips) the containers of a family "
                   "missing from its tables", path=[]))
    for fam in want_fams:
        for impl in ("", "Py"):
            for kind, (tconst, is_map) in KINDS.items():
                n += 1
                got = t2k.get(Cls(fam + kind + impl))
                want = (consts[tconst], is_map)
                if got != want:
                    res.findings.add(dict(
                        rule="CHECK-TABLES", function="_type2kind", file=REL, line=1,
                        construct="_type2kind[%s%s] is %r (expected (%s, %s))" % (
                            "<F>", kind + impl, got, tconst, is_map),
                        detail="check() classifies %s%s%s wrongly: a tree walked as a leaf / a set "
                               "read as a mapping (every second key checked only)" % (fam, kind, impl),
                        path=[]))
            for tree_kind, leaf in LEAF_OF.items():
                n += 1
                got = b2b.get(Cls(fam + tree_kind + impl))
                if got != Cls(fam + leaf + impl):
                    res.findings.add(dict(
                        rule="CHECK-TABLES", function="_btree2bucket", file=REL, line=1,
                        construct="_btree2bucket[<F>%s%s] is %s (expected <F>%s%s)" % (
                            tree_kind, impl,
                            ("<F>" + got.name[len(fam):]) if isinstance(got, Cls) and got.name.startswith(fam)
                            else repr(got), leaf, impl),
                        detail="the embedded single leaf of a %s%s%s is rebuilt as the wrong type: a "
                               "set's keys are read as alternating keys and values (every second key "
                               "escapes the order check) or the implementation is mixed" % (fam, tree_kind, impl),
                        path=[]))
    res.count("CHECK-TABLES", n)
    res.floor("table entries of check.py compared", n, 200)

    # ---- CHECK-TRANSPARENT -------------------------------------------------------
    taint = _state_taint(tree)
    m = 0
    sources = {}          # id -> (fn, call / comprehension node, text)
    for fn in ast.walk(tree):
        if not isinstance(fn, ast.FunctionDef):
            continue
        tn = taint.get(fn, set())
        for c in ast.walk(fn):
            if isinstance(c, ast.Call):
                m += 1
                bad = _reorders(c, tn, taint)
                if bad:
                    sources[id(c)] = (fn, c, bad)
            elif isinstance(c, (ast.DictComp, ast.SetComp)) and any(
                    _tainted(g.iter, tn, taint) for g in c.generators):
                sources[id(c)] = (fn, c, "dict / set comprehension")
    reaching = _reordered_reaching_check(tree, sources, taint)
    for sid in sorted(reaching, key=lambda k: sources[k][1].lineno):
        fn, c, bad = sources[sid]
        if isinstance(c, ast.Call):
            res.findings.add(dict(
                rule="CHECK-TRANSPARENT", function=fn.name, file=REL, line=c.lineno,
                construct="%s applied to state data in %s" % (bad, fn.name),
                detail="data on its way from a node's state to the order check passes through "
                       "an operation that removes duplicates or changes the order (%s): a "
                       "duplicated or misplaced key can no longer be reported"
                       % pyfront.unparse(c)[:60], path=[]))
        else:
            res.findings.add(dict(
                rule="CHECK-TRANSPARENT", function=fn.name, file=REL, line=c.lineno,
                construct="dict / set comprehension over state data in %s" % fn.name,
                detail="a comprehension that removes duplicates sits between the state and the "
                       "order check", path=[]))
    res.extra["check_py_reordering_sites"] = len(sources)
    res.extra["check_py_reordering_sites_reaching_the_order_check"] = len(reaching)
    res.count("CHECK-TRANSPARENT", m)
    res.floor("calls examined in check.py", m, 40)
    res.extra["check_py_table_statements_skipped"] = ev.skipped
