"""C08, Python side: readCurrent before every write descent, nowhere else."""
import ast

from ..common import AnalysisError, SRC
from .. import pyfront

REL = SRC + "/_base.py"
ALLOWED_GUARD = ("self._p_jar is not None", "self._p_oid is not None",
                 "self._p_serial is not None")


def _calls(node, attr):
    return [n for n in ast.walk(node) if isinstance(n, ast.Call) and
            isinstance(n.func, ast.Attribute) and n.func.attr == attr]


def check(res):
    tree = pyfront.module(REL)
    cls = pyfront.classes(tree)
    descents = 0
    rc_sites = []
    for cname, c in cls.items():
        for mname, fn in pyfront.class_members(c).items():
            if not isinstance(fn, ast.FunctionDef):
                continue
            rcs = _calls(fn, "readCurrent")
            for r in rcs:
                rc_sites.append(("%s.%s" % (cname, mname), r))
            ds = [c2 for a in ("_set", "_del") for c2 in _calls(fn, a)
                  if not (isinstance(c2.func.value, ast.Name) and c2.func.value.id == "self")]
            if not ds:
                continue
            # position of the first top-level statement that registers the read
            rc_index = None
            for i, st in enumerate(fn.body):
                if isinstance(st, ast.If) and _calls(st, "readCurrent") and not st.orelse:
                    conj = st.test.values if isinstance(st.test, ast.BoolOp) and \
                        isinstance(st.test.op, ast.And) else [st.test]
                    if all(pyfront.unparse(x) in ALLOWED_GUARD for x in conj):
                        args_ok = all(len(r.args) == 1 and isinstance(r.args[0], ast.Name)
                                      and r.args[0].id == "self" for r in _calls(st, "readCurrent"))
                        direct = any(isinstance(b, ast.Expr) and b.value in _calls(st, "readCurrent")
                                     for b in st.body)
                        if args_ok and direct:
                            rc_index = i
                            break
                elif isinstance(st, ast.Expr) and st.value in rcs:
                    rc_index = i
                    break
            for d in ds:
                descents += 1
                top = d
                while getattr(top, "_parent", None) is not fn:
                    top = top._parent
                d_index = fn.body.index(top)
                if rc_index is None or rc_index >= d_index:
                    res.findings.add(dict(
                        rule="PY-READCUR-MUST", function="%s.%s" % (cname, mname),
                        file=REL, line=d.lineno,
                        construct="%s without readCurrent(self)" % pyfront.unparse(d)[:60],
                        detail="%s.%s descends a write into a child but "
                               "self._p_jar.readCurrent(self) (under the "
                               "jar/oid/serial guard only) is not executed "
                               "on every path before it" % (cname, mname), path=[]))
    res.count("PY-READCUR-MUST", descents)
    res.floor("Python write descents", descents, 2)
    # NEVER: readCurrent only in methods that descend writes
    ok_methods = set()
    for cname, c in cls.items():
        for mname, fn in pyfront.class_members(c).items():
            if isinstance(fn, ast.FunctionDef) and any(
                    _calls(fn, a) for a in ("_set", "_del")):
                ok_methods.add("%s.%s" % (cname, mname))
    n = 0
    for where, r in rc_sites:
        n += 1
        if where not in ok_methods:
            res.findings.add(dict(
                rule="PY-READCUR-NEVER", function=where, file=REL, line=r.lineno,
                construct="readCurrent in %s" % where,
                detail="%s does not write but declares a read dependency" % where,
                path=[]))
    for fn in pyfront.functions(tree).values():
        for r in _calls(fn, "readCurrent"):
            res.findings.add(dict(
                rule="PY-READCUR-NEVER", function=fn.name, file=REL, line=r.lineno,
                construct="readCurrent in %s" % fn.name,
                detail="module function declares a read dependency", path=[]))
    res.count("PY-READCUR-NEVER", max(1, n))
    res.samples.append({"rule": "PY-READCUR-MUST",
                        "obligation": "self._p_jar.readCurrent(self) precedes child._set / child._del in _Tree._set / _Tree._del",
                        "sites": [w for w, _ in rc_sites]})
