"""C08, Python side: readCurrent before every write descent, nowhere else."""
import ast
import copy

from ..common import AnalysisError, SRC
from .. import pyfront

REL = SRC + "/_base.py"
ALLOWED_GUARD = ("self._p_jar is not None", "self._p_oid is not None",
                 "self._p_serial is not None")


def _calls(node, attr):
    return [n for n in ast.walk(node) if isinstance(n, ast.Call) and
            isinstance(n.func, ast.Attribute) and n.func.attr == attr]


def _guard_only(test, node):
    """the test looks only at node._p_jar / _p_oid / _p_serial (against None)"""
    for n in ast.walk(test):
        if isinstance(n, ast.Attribute):
            if not (isinstance(n.value, ast.Name) and n.value.id == node and
                    n.attr in ("_p_jar", "_p_oid", "_p_serial")):
                return False
        elif isinstance(n, ast.Name) and n.id != node:
            return False
        elif isinstance(n, ast.Call):
            return False
    return True


def _declares(stmts, node, whole=False):
    """Do the statements declare `node` as read on every path that is not cut
    short by a guard on node's jar / oid / serial?  -> True / False
    whole: nothing but the declaration (a helper's body)"""
    for i, st in enumerate(stmts):
        if whole and i < len(stmts) - 1 and not (
                isinstance(st, ast.Expr) and isinstance(st.value, ast.Constant)) and not (
                isinstance(st, ast.If) and not st.orelse and len(st.body) == 1 and
                isinstance(st.body[0], ast.Return)):
            return False
        if isinstance(st, ast.Expr) and isinstance(st.value, ast.Constant):
            continue
        if isinstance(st, ast.Expr) and isinstance(st.value, ast.Call):
            c = st.value
            if isinstance(c.func, ast.Attribute) and c.func.attr == "readCurrent" and \
                    pyfront.unparse(c.func.value) == "%s._p_jar" % node and \
                    len(c.args) == 1 and pyfront.unparse(c.args[0]) == node:
                return True
            return False
        if isinstance(st, ast.If) and _guard_only(st.test, node):
            body_ret = len(st.body) == 1 and isinstance(st.body[0], ast.Return) and st.body[0].value is None
            if body_ret and not st.orelse:
                continue                      # guard clause: not stored -> nothing to declare
            if _declares(st.body, node) and not st.orelse:
                return True                   # if stored: declare
            return False
        return False
    return False


class _Subst(ast.NodeTransformer):
    def __init__(self, m):
        self.m = m

    def visit_Name(self, n):
        if isinstance(n.ctx, ast.Load) and n.id in self.m:
            return copy.deepcopy(self.m[n.id])
        return n


def _inline_p_aliases(body, node):
    """leading `name = node._p_xxx` statements (pure reads of persistence
    attributes, which do not activate a ghost) are substituted into the rest"""
    m = {}
    i = 0
    while i < len(body):
        st = body[i]
        if isinstance(st, ast.Expr) and isinstance(st.value, ast.Constant):
            i += 1
            continue
        if isinstance(st, ast.Assign) and len(st.targets) == 1 and isinstance(st.targets[0], ast.Name) and \
                isinstance(st.value, ast.Attribute) and isinstance(st.value.value, ast.Name) and \
                st.value.value.id == node and st.value.attr in ("_p_jar", "_p_oid", "_p_serial"):
            m[st.targets[0].id] = st.value
            i += 1
            continue
        break
    if not m:
        return body
    sub = _Subst(m)
    return [sub.visit(copy.deepcopy(st)) for st in body[i:]]


def declaring_helpers(tree):
    """module-level functions / methods f(node) whose whole effect is the
    guarded read declaration of their parameter"""
    out = set()
    for fn in ast.walk(tree):
        if isinstance(fn, ast.FunctionDef) and fn.args.args:
            node = fn.args.args[0].arg
            body = _inline_p_aliases(fn.body, node)
            if _declares(body, node, whole=True) and _calls(fn, "readCurrent"):
                out.add(fn.name)
    return out


def check(res):
    tree = pyfront.module(REL)
    cls = pyfront.classes(tree)
    helpers = declaring_helpers(tree)
    descents = 0
    rc_sites = []
    for cname, c in cls.items():
        for mname, fn in pyfront.class_members(c).items():
            if not isinstance(fn, ast.FunctionDef):
                continue
            rcs = _calls(fn, "readCurrent")
            if mname in helpers:
                continue
            for r in rcs:
                rc_sites.append(("%s.%s" % (cname, mname), r))
            ds = [c2 for a in ("_set", "_del") for c2 in _calls(fn, a)
                  if not (isinstance(c2.func.value, ast.Name) and c2.func.value.id == "self")]
            if not ds:
                continue
            # position of the first top-level statement that registers the read
            rc_index = None
            for i, st in enumerate(fn.body):
                if isinstance(st, ast.Expr) and isinstance(st.value, ast.Call):
                    c3 = st.value
                    nm = c3.func.id if isinstance(c3.func, ast.Name) else (
                        c3.func.attr if isinstance(c3.func, ast.Attribute) else None)
                    argself = (len(c3.args) == 1 and pyfront.unparse(c3.args[0]) == "self") or (
                        isinstance(c3.func, ast.Attribute) and pyfront.unparse(c3.func.value) == "self"
                        and not c3.args)
                    if nm in helpers and argself:
                        rc_index = i
                        break
                if isinstance(st, ast.If) and _declares([st], "self"):
                    rc_index = i
                    break
                if isinstance(st, ast.If) and _calls(st, "readCurrent") and not st.orelse:
                    conj = st.test.values if isinstance(st.test, ast.BoolOp) and \
                        isinstance(st.test.op, ast.And) else [st.test]
                    if all(pyfront.unparse(x) in ALLOWED_GUARD for x in conj):
                        args_ok = all(len(r.args) == 1 and isinstance(r.args[0], ast.Name)
                                      and r.args[0].id == "self" for r in _calls(st, "readCurrent"))
                        direct = any(isinstance(b, ast.Expr) and b.value in _calls(st, "readCurrent")
                                     for b in st.body)
                        if args_ok and direct:
                            rc_index = i
                            break
                elif isinstance(st, ast.Expr) and st.value in rcs:
                    rc_index = i
                    break
            for d in ds:
                descents += 1
                top = d
                while getattr(top, "_parent", None) is not fn:
                    top = top._parent
                d_index = fn.body.index(top)
                if rc_index is None or rc_index >= d_index:
                    res.findings.add(dict(
                        rule="PY-READCUR-MUST", function="%s.%s" % (cname, mname),
                        file=REL, line=d.lineno,
                        construct="%s without readCurrent(self)" % pyfront.unparse(d)[:60],
                        detail="%s.%s descends a write into a child but "
                               "self._p_jar.readCurrent(self) (under the "
                               "jar/oid/serial guard only) is not executed "
                               "on every path before it" % (cname, mname), path=[]))
    res.count("PY-READCUR-MUST", descents)
    res.floor("Python write descents", descents, 2)
    # NEVER: readCurrent only in methods that descend writes
    ok_methods = set()
    for cname, c in cls.items():
        for mname, fn in pyfront.class_members(c).items():
            if isinstance(fn, ast.FunctionDef) and any(
                    _calls(fn, a) for a in ("_set", "_del")):
                ok_methods.add("%s.%s" % (cname, mname))
    n = 0
    for where, r in rc_sites:
        n += 1
        if where not in ok_methods:
            res.findings.add(dict(
                rule="PY-READCUR-NEVER", function=where, file=REL, line=r.lineno,
                construct="readCurrent in %s" % where,
                detail="%s does not write but declares a read dependency" % where,
                path=[]))
    # a declaring helper may only be called from methods that descend writes
    for cname, c in cls.items():
        for mname, fn in pyfront.class_members(c).items():
            if not isinstance(fn, ast.FunctionDef) or mname in helpers:
                continue
            for c3 in ast.walk(fn):
                if isinstance(c3, ast.Call):
                    nm = c3.func.id if isinstance(c3.func, ast.Name) else (
                        c3.func.attr if isinstance(c3.func, ast.Attribute) else None)
                    if nm in helpers:
                        n += 1
                        if "%s.%s" % (cname, mname) not in ok_methods:
                            res.findings.add(dict(
                                rule="PY-READCUR-NEVER", function="%s.%s" % (cname, mname), file=REL,
                                line=c3.lineno, construct="readCurrent (through %s) in %s.%s" % (nm, cname, mname),
                                detail="%s.%s does not write but declares a read dependency" % (cname, mname),
                                path=[]))
    for fn in pyfront.functions(tree).values():
        if fn.name in helpers:
            continue
        for r in _calls(fn, "readCurrent"):
            res.findings.add(dict(
                rule="PY-READCUR-NEVER", function=fn.name, file=REL, line=r.lineno,
                construct="readCurrent in %s" % fn.name,
                detail="module function declares a read dependency", path=[]))
    res.count("PY-READCUR-NEVER", max(1, n))
    res.samples.append({"rule": "PY-READCUR-MUST",
                        "obligation": "self._p_jar.readCurrent(self) precedes child._set / child._del in _Tree._set / _Tree._del",
                        "sites": [w for w, _ in rc_sites]})
