"""FIRSTBUCKET-INV (C01, C03): a node's `firstbucket` is computed from that
node's own contents.

Invariant asserted by the C checker: node.firstbucket is the first leaf under
node.data[0].child.  Every store `X->firstbucket = E` with E not NULL is
therefore required to take E from X itself: the *roots* of E - the variables E
depends on once locals with plain definitions are replaced by what they were
computed from (`child = next->data[0].child`, `d = self->data + i`,
`nextbucket = BUCKET(d->child)->next` ...) - must contain X.  Accepted besides:
the take-over (`child->firstbucket = self->firstbucket` in a function that also
hands `self->data` to `child`) and values that come out of the pickled state
(a local filled through an out-parameter).  A firstbucket taken from another
node makes later separator repairs and range starts use a foreign leaf.
"""
from ..cir import strip, path, callee, const_int, text
from ..common import AnalysisError


def _defs(fn):
    """local -> list of defining expressions (flow-insensitive); locals whose
    address is taken count as filled from outside ("&")"""
    defs = {}
    params = set(k.n for k in fn.kids if k.k == "ParmVarDecl")
    for n in fn.walk():
        if n.k == "VarDecl" and n.kids and n.kids[-1].k != "Absent":
            defs.setdefault(n.n, []).append(n.kids[-1])
        elif n.k == "BinaryOperator" and n.v == "=":
            l = strip(n.kids[0])
            if l is not None and l.k == "DeclRefExpr" and l.n not in params:
                defs.setdefault(l.n, []).append(n.kids[1])
        elif n.k == "UnaryOperator" and n.v == "&":
            x = strip(n.kids[0])
            if x is not None and x.k == "DeclRefExpr":
                defs.setdefault(x.n, []).append("&")
    return defs, params


def roots(e, defs, params, depth=0, seen=None):
    seen = seen if seen is not None else set()
    out = set()
    if e == "&":
        return {"<out-parameter>"}
    if e is None:
        return out
    for n in e.walk():
        if n.k != "DeclRefExpr" or n.rk not in ("VarDecl", "ParmVarDecl"):
            continue
        if n.n in params:
            out.add(n.n)
            continue
        ds = defs.get(n.n, [])
        if not ds or depth > 5 or n.n in seen:
            out.add(n.n)                    # a root of its own (no definition)
            continue
        for d in ds:
            if d != "&" and _is_call_result(d):
                # the result of a call: a new object (a root of its own) unless it is
                # computed from something (BTree_Realloc(self->data, ..))
                sub = set()
                for a in strip(d).kids[1:] if strip(d).k == "CallExpr" else d.kids:
                    sub |= roots(a, defs, params, depth + 1, seen | {n.n})
                out |= sub or {n.n}
                if not sub:
                    out.add(n.n)
            else:
                out |= roots(d, defs, params, depth + 1, seen | {n.n})
    return out


def _is_call_result(d):
    x = strip(d)
    while x is not None and x.k in ("ParenExpr", "CStyleCastExpr", "ImplicitCastExpr") and x.kids:
        x = x.kids[-1]
    return x is not None and x.k == "CallExpr" and callee(x)[0] == "fn" and not (x.mo or "").startswith("Py")


def analyse_tu(tu):
    findings = []
    stores = 0
    for name in tu.order:
        fn = tu.funcs[name]
        body = tu.body(name)
        if body is None:
            continue
        sts = [n for n in body.walk() if n.k == "BinaryOperator" and n.v == "=" and
               strip(n.kids[0]) is not None and strip(n.kids[0]).k == "MemberExpr" and
               strip(n.kids[0]).n == "firstbucket" and
               "BTree *" in (strip(n.kids[0]).kids[0].t or "") and "Items" not in (strip(n.kids[0]).kids[0].t or "")]
        if not sts:
            continue
        defs, params = _defs(fn)
        # take-over: X->data = Y->data in this function
        takeover = set()
        for n in body.walk():
            if n.k == "BinaryOperator" and n.v == "=":
                l, r = strip(n.kids[0]), strip(n.kids[1])
                if l is not None and r is not None and l.k == "MemberExpr" and l.n == "data" and \
                        r.k == "MemberExpr" and r.n == "data":
                    takeover.add((path(l.kids[0]), path(r.kids[0])))
        for n in sts:
            lhs = strip(n.kids[0])
            if const_int(n.kids[1]) == 0:
                continue
            stores += 1
            owner = roots(lhs.kids[0], defs, params)
            rs = roots(n.kids[1], defs, params)
            if owner & rs or "<out-parameter>" in rs:
                continue
            if any((o, r) in takeover for o in owner for r in rs):
                continue
            if owner and rs and owner <= set(params) and rs <= set(params):
                # a helper that stores what it is handed: decided at its call sites
                plist = [p.n for p in fn.kids if p.k == "ParmVarDecl"]
                sites = ok_sites = 0
                for cname in tu.order:
                    cfn = tu.funcs[cname]
                    cdefs = cparams = None
                    for c in cfn.walk():
                        if c.k == "CallExpr" and callee(c) == ("fn", name) and len(c.kids) - 1 == len(plist):
                            if cdefs is None:
                                cdefs, cparams = _defs(cfn)
                            sites += 1
                            amap = dict(zip(plist, c.kids[1:]))
                            o2 = set()
                            for o in owner:
                                o2 |= roots(amap[o], cdefs, cparams)
                            r2 = set()
                            for r in rs:
                                r2 |= roots(amap[r], cdefs, cparams)
                            if o2 & r2 or "<out-parameter>" in r2:
                                ok_sites += 1
                if sites and sites == ok_sites:
                    continue
            findings.append(dict(
                rule="FIRSTBUCKET-INV", function=name, file=n.f, line=n.l,
                construct="%s->firstbucket computed from %s" % ("/".join(sorted(owner)), "/".join(sorted(rs)) or "?"),
                detail="the first leaf of a node is the first leaf under its own data[0].child "
                       "(asserted by _check); here it is taken from another node (%s): separator "
                       "repairs after a delete and range starts then use a foreign leaf - keys of "
                       "the sibling become unreachable" % text(n.kids[1])[:60], path=[]))
    return dict(findings=findings, stats={"firstbucket_stores": stores})
