"""Conversion into native slots (C13, part of C09).

NARROW-GUARD   every value obtained from a CPython converter API and stored
               into a key/value slot is (a) error-checked and (b) for each
               narrowing conversion on the way, range- or round-trip-guarded,
               on every path that reaches the store.
CONVERTERS     only non-wrapping converter APIs are used.
BYTES-GUARD    (fs family) memcpy of an argument into a native slot is
               dominated by PyBytes_Check && size == sizeof(slot).
DTYPE-TABLE    resolved C key/value types per family == Python struct formats.
PY-NATIVE-CALL the Python native datatype validates by struct packing on every
               path and returns the normalised plain value.
"""
import ast
import re

from ..cir import strip, strip_parens, path, callee, text, const_int
from ..cfg import CFG
from ..flow import Analysis, sget, sset, sdel, witness_lines
from ..common import AnalysisError, SRC
from .. import pyfront

CONVERTERS = {"PyLong_AsLong": "long", "PyLong_AsLongLongAndOverflow": "long long",
              "PyLong_AsLongAndOverflow": "long",
              "PyLong_AsUnsignedLongLong": "unsigned long long", "PyFloat_AsDouble": "double",
              "PyLong_AsDouble": "double"}
# *AndOverflow converters report out-of-range through an int out-parameter
# (+1 / -1) and return -1: the result is usable only where both signs of the
# indicator have been excluded (a `result < 0` rejection also covers -1)
OVERFLOW_OUT = ("PyLong_AsLongAndOverflow",)
WRAPPING = ("PyLong_AsUnsignedLongLongMask", "PyLong_AsUnsignedLongMask",
            "PyLong_AsSize_t", "PyLong_AsSsize_t", "PyNumber_AsSsize_t", "PyLong_AsUnsignedLong",
            "PyNumber_Long", "PyNumber_Float", "_PyLong_AsInt", "PyLong_AsInt")
WIDTH = {"int": (32, True, False), "unsigned int": (32, False, False), "long": (64, True, False),
         "unsigned long": (64, False, False), "long long": (64, True, False),
         "unsigned long long": (64, False, False), "float": (32, True, True),
         "double": (64, True, True), "short": (16, True, False), "char": (8, True, False)}
ERRCHECK_HELPERS = ("longlong_handle_overflow",)


def narrowing(src, dst):
    s, d = WIDTH.get((src or "").strip()), WIDTH.get((dst or "").strip())
    if s is None or d is None:
        return False
    if s[2] and d[2]:
        return d[0] < s[0]            # double -> float
    if s[2] and not d[2]:
        return True                   # float -> int
    if not s[2] and d[2]:
        return False                  # int -> float: rounding, by design
    if d[0] < s[0]:
        return True
    if d[0] == s[0] and s[1] != d[1]:
        return True                   # same width, sign change
    return False


class NarrowAnalysis(Analysis):
    def __init__(self, cfg, tu):
        Analysis.__init__(self, cfg, tu)
        self.reports = []
        self._seen = set()
        self.stores = 0
        self._store_ids = set()

    def report(self, node, st, what, detail):
        if (node.id, what) not in self._seen:
            self._seen.add((node.id, what))
            self.reports.append((node, st, what, detail))

    def _conv_call(self, e):
        """(api, call) if e is (casts of) a converter call."""
        e0 = strip(e)
        if e0 is not None and e0.k == "CallExpr":
            c = callee(e0)
            if c[0] == "fn" and c[1] in CONVERTERS:
                return c[1], e0
            d = getattr(self.tu, "derived_conv", {}).get(c[1]) if c[0] == "fn" else None
            if d is not None:
                return d[0], e0
        return None, None

    def _link_flag(self, st, var, call):
        """v = helper(ob, &ok): `ok` true means the conversion succeeded"""
        c = callee(call)
        d = getattr(self.tu, "derived_conv", {}).get(c[1]) if c[0] == "fn" else None
        if d is not None and len(call.kids) > 1 + d[1]:
            a = strip(call.kids[1 + d[1]])
            if a is not None and a.k == "UnaryOperator" and a.v == "&" and path(a.kids[0]):
                st = sset(st, "fl:" + path(a.kids[0]), var)
        return st

    def _casts(self, e):
        """list of (from type, to type, kind) of the cast chain around e."""
        out = []
        while e is not None and e.k in ("ParenExpr", "ImplicitCastExpr", "CStyleCastExpr"):
            if e.k != "ParenExpr" and e.kids:
                out.append((e.kids[0].t, e.t, e.v))
            e = e.kids[0] if e.kids else None
        return out

    def _store(self, node, st, lhs, rhs):
        api, call = self._conv_call(rhs)
        l0 = strip(lhs)
        lt = (lhs.t or "").strip()
        if api is not None:
            casts = self._casts(rhs)
            nar = [c for c in casts if narrowing(c[0], c[1])]
            macro = node.e.mo if node.e is not None and node.e.mo else lhs.mo
            safe = api == "PyFloat_AsDouble" and sget(st, "isfloat")
            if nar:
                self._count(node)
                self.report(node, st, "%s: (%s)%s narrows %s to %s without a range guard" % (
                    macro or "store", nar[0][1].strip(), api, nar[0][0].strip(), nar[0][1].strip()),
                    "the %s returned by %s is converted to %s before any "
                    "range test: a value outside the slot type's range is "
                    "stored as a different value (inf / wrapped) instead of "
                    "being rejected" % (nar[0][0].strip(), api, nar[0][1].strip()))
            if l0.k == "DeclRefExpr" and l0.rk in ("VarDecl", "ParmVarDecl"):
                # v = CONVERTER(arg): v becomes a tracked conversion result
                st = self._link_overflow(st, l0.n, api, call)
                st = self._link_flag(st, l0.n, call)
                st = sdel(sdel(st, "lo:" + l0.n), "hi:" + l0.n)
                return sset(st, "c:" + l0.n, (api, bool(safe), bool(nar), bool(nar)))
            self._count(node)
            if not safe:
                self.report(node, st, "%s: result of %s stored without error test" % (
                    macro or "store", api),
                    "the result of %s is stored into the slot directly: a "
                    "failed conversion (-1 with an exception set) is stored "
                    "as data" % api)
            return st
        r0 = strip(rhs)
        if r0 is not None and r0.k == "DeclRefExpr":
            fact = sget(st, "c:" + r0.n)
            if fact is not None and not (l0.k == "DeclRefExpr" and sget(st, "c:" + l0.n) is not None):
                self._count(node)
                api, errchk, rt, nonneg = fact
                casts = self._casts(rhs) + ([(r0.t, lt, "assign")] if (r0.t or "").strip() != lt else [])
                if not errchk:
                    self.report(node, st, "%s: result of %s stored without error test" % (
                        (node.e.mo if node.e is not None else None) or "store", api),
                        "the value converted by %s reaches the slot on a path "
                        "where its error indicator has not been tested" % api)
                nar = [c for c in casts if narrowing(c[0], c[1])]
                for src, dst, kind in nar[:1]:
                    s, d = WIDTH[src.strip()], WIDTH[dst.strip()]
                    need_rt = d[0] < s[0] or (s[2] != d[2])
                    need_nn = (not d[1]) and s[1]
                    # an explicit range test against the limits of the target type
                    lo, hi = sget(st, "lo:" + r0.n), sget(st, "hi:" + r0.n)
                    if not d[2]:
                        tmin = -(2 ** (d[0] - 1)) if d[1] else 0
                        tmax = (2 ** (d[0] - 1) - 1) if d[1] else (2 ** d[0] - 1)
                        if lo is not None and lo >= 0:
                            nonneg = True
                        if hi is not None and hi <= tmax and ((lo is not None and lo >= tmin) or (tmin == 0 and nonneg)):
                            rt = True
                            if hi < tmax or (lo is not None and lo > tmin and tmin != 0):
                                self.report(node, st, "%s: range test admits [%s, %s] only, %s holds [%s, %s]" % (
                                    (node.e.mo if node.e is not None else None) or "store",
                                    lo if lo is not None else tmin, hi, dst.strip(), tmin, tmax),
                                    "the explicit range test in front of the narrowing rejects values the "
                                    "slot type can represent (an extreme of the domain raises TypeError in "
                                    "this family only)")
                    if (need_rt and not rt) or (need_nn and not nonneg):
                        self.report(node, st, "%s: %s narrowed to %s without %s" % (
                            (node.e.mo if node.e is not None else None) or "store",
                            src.strip(), dst.strip(),
                            "round-trip test" if (need_rt and not rt) else "sign test"),
                            "a %s is narrowed to %s on a path without a "
                            "round-trip / range test: out-of-range values are "
                            "truncated or wrap around instead of being "
                            "rejected" % (src.strip(), dst.strip()))
        return st

    def _is_slot(self, l0):
        return False

    def _link_overflow(self, st, var, api, call):
        if api in OVERFLOW_OUT and call is not None and len(call.kids) > 2:
            a = strip(call.kids[2])
            if a is not None and a.k == "UnaryOperator" and a.v == "&":
                ov = path(a.kids[0])
                if ov:
                    st = sset(st, "ov:" + ov, var)
                    st = sset(st, "oh:" + var, None)
                    st = sset(st, "ol:" + var, None)
        return st

    def _overflow_excluded(self, st, var, high=False, low=False):
        if high:
            st = sset(st, "oh:" + var, True)
        if low:
            st = sset(st, "ol:" + var, True)
        if sget(st, "oh:" + var) and sget(st, "ol:" + var):
            st = self._upd(st, var, errchk=True)
        return st

    def _count(self, node):
        if node.id not in self._store_ids:
            self._store_ids.add(node.id)
            self.stores += 1

    def _walk(self, node, st, e):
        if e.k == "DeclStmt":
            for v in e.kids:
                if v.k == "VarDecl":
                    init = [c for c in v.kids if c.k != "Absent"]
                    if init:
                        api, call = self._conv_call(init[-1])
                        if api:
                            st = self._link_overflow(st, v.n, api, call)
                            st = sset(st, "c:" + v.n, (api, False, False, False))
                            st = self._link_flag(st, v.n, call)
            return st
        for n in e.walk():
            if n.k == "BinaryOperator" and n.v == "=":
                l0 = strip(n.kids[0])
                if l0 is not None and l0.k == "UnaryOperator" and l0.v == "*" and \
                        const_int(n.kids[1]) is not None:
                    p0 = strip(l0.kids[0])
                    if p0 is not None and p0.k == "DeclRefExpr" and p0.rk == "ParmVarDecl":
                        st = sset(st, "of:" + p0.n, const_int(n.kids[1]))
                        continue
                st = self._store(node, st, n.kids[0], n.kids[1])
        return st

    def summary(self):
        """(api, index of the success flag out-parameter) if the function
        returns a converter's result and reports success through `*flag = 1`,
        set only where the error indicator has been tested"""
        params = [k.n for k in self.cfg.fn.kids if k.k == "ParmVarDecl"]
        rets = [n for n in self.cfg.nodes if n.kind == "return" and n.e is not None]
        cand = None
        for p in params:
            good = 0
            ok = True
            api = None
            for r in rets:
                e = strip(r.e)
                for st in self.IN.get(r.id, ()):
                    flag = sget(st, "of:" + p)
                    fact = sget(st, "c:" + e.n) if e is not None and e.k == "DeclRefExpr" else None
                    if flag == 1 and fact is not None and fact[1]:
                        good += 1
                        api = fact[0]
                    elif flag == 0:
                        pass
                    else:
                        ok = False
            if ok and good:
                cand = (api, params.index(p))
        return cand


    def on_node(self, node, st):
        if node.e is None:
            return [st]
        return [self._walk(node, st, node.e)]

    def _upd(self, st, var, **kw):
        f = sget(st, "c:" + var)
        if f is None:
            return st
        api, errchk, rt, nonneg = f
        return sset(st, "c:" + var, (api, kw.get("errchk", errchk), kw.get("rt", rt),
                                     kw.get("nonneg", nonneg)))

    def on_edge(self, node, label, st):
        if label not in ("T", "F") or node.e is None:
            return st
        e = strip_parens(node.e)
        want = label == "T"
        while e is not None and e.k == "UnaryOperator" and e.v == "!":
            want = not want
            e = strip_parens(e.kids[0])
        e0 = strip(e)
        if e0 is None:
            return st
        # the overflow indicator of an *AndOverflow converter
        ovn = None
        if e0.k == "DeclRefExpr" and sget(st, "fl:" + e0.n) is not None:
            if want:
                st = self._upd(st, sget(st, "fl:" + e0.n), errchk=True)
            return st
        if e0.k == "DeclRefExpr" and sget(st, "ov:" + e0.n) is not None:
            # `if (overflow)`: the false side excludes both signs
            if not want:
                st = self._overflow_excluded(st, sget(st, "ov:" + e0.n), high=True, low=True)
            return st
        if e0.k == "BinaryOperator" and e0.v in ("==", "!=", "<", ">", "<=", ">="):
            a0x = strip(e0.kids[0])
            if a0x is not None and a0x.k == "DeclRefExpr" and sget(st, "ov:" + a0x.n) is not None \
                    and const_int(e0.kids[1]) == 0:
                var = sget(st, "ov:" + a0x.n)
                op = e0.v
                if not want:
                    op = {"==": "!=", "!=": "==", "<": ">=", ">": "<=", "<=": ">", ">=": "<"}[op]
                # op holds between overflow and 0 on this edge
                if op == "==":
                    st = self._overflow_excluded(st, var, high=True, low=True)
                elif op == "<=":
                    st = self._overflow_excluded(st, var, high=True)
                elif op == ">=":
                    st = self._overflow_excluded(st, var, low=True)
                return st
        if "PyFloat_Type" in text(e0) and e0.k == "CallExpr":
            st = sset(st, "isfloat", True if want else None)
            return st
        if e0.k == "CallExpr":
            c = callee(e0)
            if c == ("fn", "PyErr_Occurred") and not want:
                for k, v in list(st):
                    if k.startswith("c:"):
                        st = self._upd(st, k[2:], errchk=True)
            elif c[0] == "fn" and c[1] in ERRCHECK_HELPERS and want:
                for a in e0.kids[1:]:
                    p = path(a)
                    if p:
                        st = self._upd(st, p, errchk=True)
            return st
        if e0.k == "BinaryOperator" and e0.v in ("==", "!=", "<", ">", "<=", ">="):
            a, b = e0.kids[0], e0.kids[1]
            a0, b0 = strip(a), strip(b)
            # (T)v != v   round trip
            for x, y in ((a, b), (b, a)):
                xs = strip_parens(x)
                while xs is not None and xs.k == "ImplicitCastExpr":
                    xs = strip_parens(xs.kids[0])
                y0 = strip(y)
                if xs is not None and xs.k == "CStyleCastExpr" and y0 is not None and \
                        y0.k == "DeclRefExpr" and path(xs.kids[0]) == y0.n:
                    ok = (e0.v == "!=" and not want) or (e0.v == "==" and want)
                    if ok:
                        st = self._upd(st, y0.n, rt=True)
                    return st
            # v OP constant: bounds that hold on this edge (a cast of v to an unsigned
            # type in the comparison is transparent once v is known to be non-negative)
            av = a0
            if av is not None and av.k != "DeclRefExpr":
                inner = strip(a)
                while inner is not None and inner.k in ("CStyleCastExpr", "ImplicitCastExpr", "ParenExpr") and inner.kids:
                    inner = inner.kids[-1]
                if inner is not None and inner.k == "DeclRefExpr":
                    f1 = sget(st, "c:" + inner.n)
                    lo1 = sget(st, "lo:" + inner.n)
                    if f1 is not None and (f1[3] or (lo1 is not None and lo1 >= 0)):
                        av = inner
            if av is not None and av.k == "DeclRefExpr" and const_int(b) is not None and \
                    sget(st, "c:" + av.n) is not None and e0.v in ("<", ">", "<=", ">="):
                cb2 = const_int(b)
                op2 = e0.v if want else {"<": ">=", ">": "<=", "<=": ">", ">=": "<"}[e0.v]
                if op2 in ("<", "<="):
                    nh = cb2 - 1 if op2 == "<" else cb2
                    cur = sget(st, "hi:" + av.n)
                    st = sset(st, "hi:" + av.n, nh if cur is None else min(cur, nh))
                else:
                    nl = cb2 + 1 if op2 == ">" else cb2
                    cur = sget(st, "lo:" + av.n)
                    st = sset(st, "lo:" + av.n, nl if cur is None else max(cur, nl))
            # v < 0  false  => non-negative ;  v == -1 false => no error
            if a0 is not None and a0.k == "DeclRefExpr" and const_int(b) is not None:
                cb = const_int(b)
                if e0.v == "<" and cb == 0 and not want:
                    st = self._upd(st, a0.n, nonneg=True)
                    f0 = sget(st, "c:" + a0.n)
                    if f0 is not None and f0[0] in OVERFLOW_OUT:
                        # negative overflow returns -1, which is < 0
                        st = self._overflow_excluded(st, a0.n, low=True)
                minus1 = cb in (-1, 2 ** 64 - 1, 2 ** 32 - 1)
                if e0.v == "==" and minus1 and not want:
                    st = self._upd(st, a0.n, errchk=True)
                if e0.v == "!=" and minus1 and want:
                    st = self._upd(st, a0.n, errchk=True)
        return st


def analyse_narrowing(tu):
    findings = []
    stores = funcs = 0
    used = set()
    storing_fns = set()
    all_calls = []
    for name in tu.order:
        fn = tu.funcs[name]
        calls = [callee(n)[1] for n in fn.walk() if n.k == "CallExpr" and callee(n)[0] == "fn"]
        all_calls.extend(calls)
        for c in calls:
            if c in WRAPPING:
                node = next(n for n in fn.walk() if n.k == "CallExpr" and callee(n) == ("fn", c))
                # only conversions that feed data slots matter: helper/convert
                # functions and macro expansions
                if node.mo in ("COPY_KEY_FROM_ARG", "COPY_VALUE_FROM_ARG") or \
                        name.endswith(("_convert", "_check")):
                    findings.append(dict(
                        rule="NARROW-GUARD", function=name, file=node.f, line=node.l,
                        construct="%s used to convert stored data" % c,
                        detail="%s does not reject out-of-range values "
                               "(wraps / truncates / accepts non-integers): "
                               "unrepresentable keys or values would be "
                               "stored as different data" % c, path=[]))
        derived = getattr(tu, "derived_conv", None)
        if derived is None:
            derived = tu.derived_conv = {}
        if not any(c in CONVERTERS or c in derived for c in calls):
            continue
        used |= set(c for c in calls if c in CONVERTERS)
        an = NarrowAnalysis(CFG(fn), tu)
        an.solve()
        sm = an.summary()
        if sm is not None:
            derived[name] = sm
        funcs += 1
        stores += an.stores
        if an.stores and any(
                n.k == "BinaryOperator" and n.v == "=" and strip(n.kids[0]) is not None and
                strip(n.kids[0]).k == "UnaryOperator" and strip(n.kids[0]).v == "*" and
                strip(strip(n.kids[0]).kids[0]) is not None and
                strip(strip(n.kids[0]).kids[0]).rk == "ParmVarDecl" for n in fn.walk()):
            storing_fns.add(name)       # stores through an out-parameter
        for node, st, what, detail in an.reports:
            findings.append(dict(
                rule="NARROW-GUARD", function=name, file=node.where.split(":")[0],
                line=node.line, construct=what, detail=detail,
                path=witness_lines(an.witness(node, st))))
    # a conversion factored into a function is one checked store, used at each
    # of its call sites (the instance floor counts uses)
    stores += sum(1 for c in all_calls if c in storing_fns)
    # dedupe identical constructs within a TU (the macro expands at many sites)
    seen = {}
    for f in findings:
        k = (f["construct"],)
        if k not in seen:
            m = f["construct"].split(":")[0]
            if m in ("COPY_KEY_FROM_ARG", "COPY_VALUE_FROM_ARG"):
                f = dict(f, function="(macro) " + m)
            seen[k] = f
    return dict(findings=list(seen.values()),
                stats={"converter_functions": funcs, "slot_stores": stores,
                       "converters_used": sorted(used)})


def _macro_of(f):
    c = f["construct"]
    return None


# ---------------------------------------------------------------------------
# fs byte arrays

def analyse_bytes(tu):
    """memcpy(TARGET, PyBytes_AS_STRING(ARG), n) must sit under
    PyBytes_Check(ARG) && PyBytes_GET_SIZE(ARG) == n, n == sizeof(slot)."""
    findings = []
    sites = 0
    for name in tu.order:
        fn = tu.funcs[name]
        for ifs in fn.walk():
            if ifs.k != "IfStmt" or ifs.mo not in ("COPY_KEY_FROM_ARG", "COPY_VALUE_FROM_ARG"):
                continue
            then = ifs.kids[1]
            for m in then.walk():
                if m.k == "CallExpr" and callee(m) == ("fn", "memcpy") and \
                        "PyBytes_AS_STRING" in text(m):
                    sites += 1
                    n = const_int(m.kids[3])
                    cond = text(ifs.kids[0])
                    dst_t = (strip(m.kids[1]).t or "")
                    mm = re.search(r"\[(\d+)\]", dst_t)
                    slot = int(mm.group(1)) if mm else None
                    ok = "PyBytes_Check" in cond or "PyType_HasFeature" in cond
                    szs = [const_int(x.kids[1]) for x in ifs.kids[0].walk()
                           if x.k == "BinaryOperator" and x.v == "==" and const_int(x.kids[1]) is not None]
                    if not ok or n not in szs or (slot is not None and slot != n) or "||" in cond:
                        findings.append(dict(
                            rule="BYTES-GUARD", function=name, file=m.f, line=m.l,
                            construct="memcpy of %s bytes under %s" % (n, cond[:80]),
                            detail="a byte-string argument is copied into a "
                                   "%s-byte slot without an exact type and "
                                   "length test" % slot, path=[]))
    return dict(findings=findings, stats={"bytes_sites": sites})


# ---------------------------------------------------------------------------
# DTYPE-TABLE

C_FORMAT = {"int": "i", "unsigned int": "I", "long long": "q", "unsigned long long": "Q",
            "long": "q", "unsigned long": "Q", "float": "f"}


def c_slot_types(tu):
    """(key type, value type) of the TU resolved from struct Bucket_s."""
    kt = vt = None
    for f, t in tu.records.get("Bucket_s", []):
        if f == "keys":
            kt = t.strip()
        if f == "values":
            vt = t.strip()
    if kt is None or vt is None:
        raise AnalysisError("anchor vanished: struct Bucket_s keys/values in %s" % tu.stub)
    k, v = kt[:-1].strip(), vt[:-1].strip()
    return tu.typedefs.get(k, k), tu.typedefs.get(v, v)


def py_formats():
    dt = pyfront.module(SRC + "/_datatypes.py")
    out = {}
    for code in ("I", "U", "L", "Q", "F"):
        r = pyfront.resolve(dt, code, "_struct_format")
        cls = pyfront.classes(dt).get(code)
        if cls is None:
            raise AnalysisError("anchor vanished: _datatypes.%s" % code)
        fmt = None
        for c in pyfront.mro(dt, code):
            if c in pyfront.classes(dt):
                m = pyfront.class_members(pyfront.classes(dt)[c]).get("_struct_format")
                if m and m[0] == "expr" and isinstance(m[1], ast.Constant) and m[1].value:
                    fmt = m[1].value
                    break
        out[code] = fmt
    for code, attr in (("f", "_length"), ("s", "_length")):
        cls = pyfront.classes(dt).get(code)
        if cls is None:
            raise AnalysisError("anchor vanished: _datatypes.%s" % code)
        m = pyfront.class_members(cls).get(attr)
        out[code] = m[1].value if m and m[0] == "expr" and isinstance(m[1], ast.Constant) else None
    return out


def dtype_row(tu):
    k, v = c_slot_types(tu)
    return {"family": tu.family, "key": k, "value": v}


def check_dtype_table(res, rows):
    pf = py_formats()
    n = 0
    for fam, row in sorted(rows.items()):
        for pos, role in ((0, "key"), (1, "value")):
            code = fam[pos]
            ct = row[role]
            n += 1
            if code == "O":
                ok = ct == "PyObject *"
                want = "PyObject *"
            elif code in ("f", "s"):
                want = "unsigned char[%s]" % pf[code]
                mm = re.search(r"\[(\d+)\]", ct)
                ok = bool(mm) and int(mm.group(1)) == pf[code]
            else:
                want = pf.get(code)
                ok = C_FORMAT.get(ct) == want
            if not ok:
                res.findings.add(dict(
                    rule="DTYPE-TABLE", function="_%sBTree" % fam, file="src/BTrees/_%sBTree.c" % fam,
                    line=1, construct="%s %s type: C %s vs Python %r" % (fam, role, ct, want),
                    detail="the %s type of family %s resolves to `%s` in C but "
                           "the Python datatype %s packs as %r: the two "
                           "implementations accept different domains"
                           % (role, fam, ct, code, want), path=[]))
    res.count("DTYPE-TABLE", n)
    return n


# ---------------------------------------------------------------------------
# PY-NATIVE-CALL

def check_py_native(res):
    dt = pyfront.module(SRC + "/_datatypes.py")
    rel = SRC + "/_datatypes.py"
    cls = pyfront.classes(dt).get("_AbstractNativeDataType")
    if cls is None:
        raise AnalysisError("anchor vanished: _AbstractNativeDataType")
    mem = pyfront.class_members(cls)
    call = mem.get("__call__")
    if not isinstance(call, ast.FunctionDef):
        raise AnalysisError("anchor vanished: _AbstractNativeDataType.__call__")
    item = call.args.args[1].arg
    n = 0
    # local aliases:  name = self._as_packable(item) / self._as_python_type(item)
    def derived(fn_attr):
        """names bound to self.<fn_attr>(item)"""
        out = set()
        for a in ast.walk(call):
            if isinstance(a, ast.Assign) and isinstance(a.value, ast.Call) and \
                    pyfront.unparse(a.value) == "self.%s(%s)" % (fn_attr, item):
                for t in a.targets:
                    if isinstance(t, ast.Name):
                        out.add(t.id)
        return out
    packed = derived("_as_packable")
    normal = derived("_as_python_type")
    # every return is the normalised value
    rets = [r for r in ast.walk(call) if isinstance(r, ast.Return)]
    n += len(rets)
    for r in rets:
        v = pyfront.unparse(r.value) if r.value is not None else ""
        if not (v == "self._as_python_type(%s)" % item or v in normal):
            res.findings.add(dict(
                rule="PY-NATIVE-CALL", function="_AbstractNativeDataType.__call__", file=rel,
                line=r.lineno, construct="return %s" % v,
                detail="the native datatype must return the normalised plain "
                       "value self._as_python_type(item) on every path; "
                       "returning the argument itself stores bool / int "
                       "subclasses / Fractions unnormalised (results and "
                       "pickles differ from the C type)", path=[]))
    # the pack check sits in a try that precedes every return, and every
    # handler of that try raises TypeError
    def raises_typeerror(h):
        last = [x for x in ast.walk(h) if isinstance(x, ast.Raise)]
        if not last:
            return False
        for x in last:
            t = pyfront.unparse(x.exc) if x.exc is not None else ""
            if t.startswith("TypeError"):
                continue
            # raise self.<helper>(...): the helper returns TypeError instances
            if isinstance(x.exc, ast.Call) and isinstance(x.exc.func, ast.Attribute) and \
                    pyfront.unparse(x.exc.func.value) == "self":
                hfn = mem.get(x.exc.func.attr)
                hr = [r for r in ast.walk(hfn) if isinstance(r, ast.Return)] if isinstance(hfn, ast.FunctionDef) else []
                if hr and all(r.value is not None and pyfront.unparse(r.value).startswith("TypeError(") for r in hr):
                    continue
            return False
        return True
    n += 1
    ok = False
    for k, st in enumerate(call.body):
        if isinstance(st, ast.Try):
            check_names = set(["self._check_native"])
            for a in ast.walk(call):          # a local bound to the checking method
                if isinstance(a, ast.Assign) and pyfront.unparse(a.value) == "self._check_native":
                    check_names |= set(t.id for t in a.targets if isinstance(t, ast.Name))
            checks = [c for b in st.body for c in ast.walk(b) if isinstance(c, ast.Call)
                      and pyfront.unparse(c.func) in check_names and c.args and (
                          pyfront.unparse(c.args[0]) == "self._as_packable(%s)" % item or
                          (isinstance(c.args[0], ast.Name) and c.args[0].id in packed))]
            before = [r for b in call.body[:k] for r in ast.walk(b) if isinstance(r, ast.Return)]
            inside = [r for b in st.body for r in ast.walk(b) if isinstance(r, ast.Return)
                      and checks and r.lineno < checks[0].lineno]
            if checks and not before and not inside and st.handlers and all(raises_typeerror(h) for h in st.handlers):
                ok = True
    if not ok:
        res.findings.add(dict(
            rule="PY-NATIVE-CALL", function="_AbstractNativeDataType.__call__", file=rel,
            line=call.lineno, construct="struct pack check does not precede every return",
            detail="every value must be validated by packing it into the "
                   "native struct format before anything is returned, and a "
                   "failure must surface as TypeError", path=[]))
    # _as_packable: operator.index for the integer types
    n += 1
    ap = mem.get("_as_packable")
    if not (isinstance(ap, tuple) and ap[0] == "alias" and (ap[2], ap[1]) == ("operator", "index")):
        res.findings.add(dict(
            rule="PY-NATIVE-CALL", function="_AbstractNativeDataType._as_packable", file=rel,
            line=cls.lineno, construct="_as_packable is not operator.index",
            detail="integer keys/values must be coerced with operator.index "
                   "(rejects floats, Decimals, numeric strings); int() "
                   "truncates them and the C type rejects them", path=[]))
    # no class below _AbstractNativeDataType routes around the validation:
    # an overriding __call__ may only delegate; _check_native is not replaced;
    # the integer classes keep operator.index / int
    allc = pyfront.classes(dt)
    natives = [c for c in allc if c != "_AbstractNativeDataType"
               and "_AbstractNativeDataType" in pyfront.mro(dt, c)]
    if len(natives) < 6:
        raise AnalysisError("anchor vanished: %d native datatype classes" % len(natives))
    for cname in sorted(natives):
        m2 = pyfront.class_members(allc[cname])
        n += 1
        ov = m2.get("__call__")
        if ov is not None:
            okov = isinstance(ov, ast.FunctionDef)
            if okov:
                it = ov.args.args[1].arg if len(ov.args.args) > 1 else None
                for r in ast.walk(ov):
                    if isinstance(r, ast.Return):
                        v = pyfront.unparse(r.value) if r.value is not None else ""
                        if v not in ("super().__call__(%s)" % it,
                                     "super(%s, self).__call__(%s)" % (cname, it),
                                     "_AbstractNativeDataType.__call__(self, %s)" % it,
                                     "self._as_python_type(%s)" % it):
                            okov = False
                            res.findings.add(dict(
                                rule="PY-NATIVE-CALL", function="%s.__call__" % cname, file=rel,
                                line=r.lineno, construct="overriding __call__ returns %s" % v,
                                detail="a datatype class below _AbstractNativeDataType "
                                       "returns a value that did not pass the struct "
                                       "pack check of the base __call__: out-of-range "
                                       "or unnormalised keys/values are stored (the C "
                                       "type rejects or normalises them)", path=[]))
        if "_check_native" in m2:
            res.findings.add(dict(
                rule="PY-NATIVE-CALL", function="%s._check_native" % cname, file=rel,
                line=allc[cname].lineno, construct="_check_native is replaced in a subclass",
                detail="the pack check is the range validation of the native "
                       "types", path=[]))
    for cname in ("I", "U", "L", "Q"):
        if cname not in allc:
            raise AnalysisError("anchor vanished: datatype class %s" % cname)
        n += 1
        got = {}
        for attr in ("_as_packable", "_as_python_type"):
            for c in pyfront.mro(dt, cname):
                if c in allc and attr in pyfront.class_members(allc[c]):
                    got[attr] = pyfront.class_members(allc[c])[attr]
                    break
        ap2 = got.get("_as_packable")
        at2 = got.get("_as_python_type")
        if not (isinstance(ap2, tuple) and ap2[0] == "alias" and (ap2[2], ap2[1]) == ("operator", "index")):
            res.findings.add(dict(
                rule="PY-NATIVE-CALL", function="%s._as_packable" % cname, file=rel,
                line=allc[cname].lineno, construct="_as_packable of %s is not operator.index" % cname,
                detail="integer keys/values must be coerced with operator.index", path=[]))
        if not (isinstance(at2, tuple) and at2[0] == "alias" and at2[1] == "int"):
            res.findings.add(dict(
                rule="PY-NATIVE-CALL", function="%s._as_python_type" % cname, file=rel,
                line=allc[cname].lineno, construct="_as_python_type of %s is not int" % cname,
                detail="integer keys/values are normalised to plain int", path=[]))
    res.count("PY-NATIVE-CALL", n)
