"""CONV-HELPER and TO-OBJECT: the 64-bit conversion helpers, decided by class.

CONV-HELPER   longlong_check / longlong_convert / ulonglong_check /
              ulonglong_convert (and the helpers they call) are interpreted for
              every *class* of argument: not an int, an int in range, the
              in-range int that equals the API's error sentinel (-1 resp.
              2**64-1), an int above the range, an int below the range.  The
              CPython conversion APIs are modelled by what they return / raise
              per class.  Specification: return 1 exactly for the two in-range
              classes, storing the value unchanged; `convert` leaves a
              TypeError pending on every rejecting path and nothing pending on
              accepting ones.
TO-OBJECT     on every path of the *_as_object helpers and at every call of a
              PyLong_From* constructor in the translation unit, each integral
              cast (explicit or implicit, including the conversion to the
              constructor's parameter type) must be value preserving for the
              range the operand can have on that path (ranges come from the
              operand's C type, refined by the comparisons with constants that
              guard the path): reading a stored key or value back never wraps.
"""
from ..cir import strip, path, callee, text, const_int
from ..common import AnalysisError

# ---------------------------------------------------------------------------
# CONV-HELPER

CLASSES = ("notint", "inrange", "sentinel", "toobig", "toosmall")
HELPERS = {
    "longlong_check": ("signed", "check"),
    "longlong_convert": ("signed", "convert"),
    "ulonglong_check": ("unsigned", "check"),
    "ulonglong_convert": ("unsigned", "convert"),
}


class _Ret(Exception):
    def __init__(self, v):
        self.v = v


class V(object):
    """an in-range integer that is not the sentinel"""
    def __repr__(self):
        return "<value>"


VAL = V()


class Neg(object):
    """a small negative integer (compact representation)"""
    def __repr__(self):
        return "<negative value>"


NEG = Neg()


class HelperWalk(object):
    def __init__(self, tu, cls, signed, compact=False):
        self.tu = tu
        self.cls = cls
        self.signed = signed
        self.compact = compact      # single-digit ("compact") representation
        self.exc = None
        self.out = {}
        self.depth = 0

    def sentinel(self):
        return -1 if self.signed else (1 << 64) - 1

    # -- API model ---------------------------------------------------------
    def api(self, name, args, env):
        c = self.cls
        if name in ("PyLong_Check", "PyLong_CheckExact"):
            return int(c != "notint")
        if name == "PyType_HasFeature" and len(args) == 2 and const_int(args[1]) == (1 << 24):
            return int(c != "notint")       # PyLong_Check expansion (Py_TPFLAGS_LONG_SUBCLASS)
        if name == "PyErr_Occurred":
            return int(self.exc is not None)
        if name == "PyErr_Clear":
            self.exc = None
            return 0
        if name in ("PyErr_SetString", "PyErr_Format", "PyErr_SetObject"):
            self.exc = text(strip(args[0])).replace("PyExc_", "")
            return 0
        if name == "PyErr_ExceptionMatches":
            return int(self.exc == text(strip(args[0])).replace("PyExc_", ""))
        if name == "PyLong_AsLongLongAndOverflow" or name == "PyLong_AsLongAndOverflow":
            ov = strip(args[1])
            if not (ov.k == "UnaryOperator" and ov.v == "&"):
                raise AnalysisError("CONV-HELPER: overflow argument %s" % text(ov))
            tgt = path(ov.kids[0])
            if c == "notint":
                self.exc = "TypeError"
                env[tgt] = 0
                return -1
            env[tgt] = {"toobig": 1, "toosmall": -1}.get(c, 0)
            return VAL if c == "inrange" else -1
        if name == "PyLong_AsLongLong":
            if c in ("notint",):
                self.exc = "TypeError"
                return -1
            if c in ("toobig", "toosmall"):
                self.exc = "OverflowError"
                return -1
            return VAL if c == "inrange" else -1
        if name == "PyLong_AsUnsignedLongLong":
            if c == "notint":
                self.exc = "TypeError"
                return (1 << 64) - 1
            if c in ("toobig", "toosmall"):
                self.exc = "OverflowError"
                return (1 << 64) - 1
            return VAL if c == "inrange" else (1 << 64) - 1
        if name in ("PyLong_AsUnsignedLongLongMask",):
            return VAL       # never fails, never checks: every class "succeeds"
        if name in ("PyUnstable_Long_IsCompact", "_PyLong_IsCompact"):
            if c == "notint":
                raise AnalysisError("CONV-HELPER: %s on an object that is not an int" % name)
            return int(self.compact)
        if name in ("PyUnstable_Long_CompactValue", "_PyLong_CompactValue"):
            if not self.compact:
                raise AnalysisError("CONV-HELPER: %s on a non-compact int" % name)
            if c == "inrange":
                return VAL
            if c == "sentinel":
                return self.sentinel()
            return NEG            # unsigned family, small negative int
        return None

    # -- expressions ---------------------------------------------------------
    def ev(self, e, env):
        c = const_int(e)
        if c is not None:
            return c
        e = strip(e)
        k = e.k
        if k == "DeclRefExpr":
            if e.n in env:
                return env[e.n]
            raise AnalysisError("CONV-HELPER: unknown variable %s at %s:%s" % (e.n, e.f, e.l))
        if k == "CallExpr":
            cal = callee(e)
            if cal[0] != "fn":
                raise AnalysisError("CONV-HELPER: indirect call %s" % text(e))
            r = self.api(cal[1], e.kids[1:], env)
            if r is not None:
                return r
            if cal[1] in self.tu.funcs:
                return self.call(cal[1], [self.ev(a, env) for a in e.kids[1:]])
            raise AnalysisError("CONV-HELPER: unmodelled call %s at %s:%s" % (cal[1], e.f, e.l))
        if k == "UnaryOperator" and e.v == "!":
            return int(not self.truth(self.ev(e.kids[0], env)))
        if k == "UnaryOperator" and e.v == "*":
            p = path(e.kids[0])
            return self.out.get(p)
        if k == "BinaryOperator" and e.v == "&&":
            return int(self.truth(self.ev(e.kids[0], env)) and self.truth(self.ev(e.kids[1], env)))
        if k == "BinaryOperator" and e.v == "||":
            return int(self.truth(self.ev(e.kids[0], env)) or self.truth(self.ev(e.kids[1], env)))
        if k == "BinaryOperator" and e.v in ("==", "!=", "<", ">", "<=", ">="):
            l, r = self.ev(e.kids[0], env), self.ev(e.kids[1], env)
            if l is NEG or r is NEG:
                o = r if l is NEG else l
                if isinstance(o, int) and o >= 0:
                    lt = l is NEG       # NEG < o
                    return int({"<": lt, "<=": lt, ">": not lt, ">=": not lt, "==": False, "!=": True}[e.v])
                raise AnalysisError("CONV-HELPER: comparison %s of a negative value" % text(e))
            if l is VAL or r is VAL:
                o = r if l is VAL else l
                if o is VAL:
                    raise AnalysisError("CONV-HELPER: comparison of two values")
                if e.v in ("==", "!=") and o == self.sentinel():
                    return int(e.v == "!=")
                raise AnalysisError("CONV-HELPER: comparison %s of the converted value" % text(e))
            s = l - r
            return int({"<": s < 0, ">": s > 0, "<=": s <= 0, ">=": s >= 0, "==": s == 0, "!=": s != 0}[e.v])
        if k == "BinaryOperator" and e.v == "=":
            v = self.ev(e.kids[1], env)
            l = strip(e.kids[0])
            if l.k == "UnaryOperator" and l.v == "*":
                self.out[path(l.kids[0])] = v
            elif l.k == "DeclRefExpr":
                env[l.n] = v
            else:
                raise AnalysisError("CONV-HELPER: store to %s" % text(l))
            return v
        if k == "ConditionalOperator":
            return self.ev(e.kids[1] if self.truth(self.ev(e.kids[0], env)) else e.kids[2], env)
        if k in ("CStyleCastExpr",):
            return self.ev(e.kids[-1], env)
        raise AnalysisError("CONV-HELPER: expression %s (%s) at %s:%s" % (text(e)[:60], k, e.f, e.l))

    def truth(self, v):
        if v is VAL or v is NEG:
            return True      # generic value: callers only test results of calls
        return bool(v)

    # -- statements ----------------------------------------------------------
    def run(self, s, env):
        k = s.k
        if k == "CompoundStmt":
            for c in s.kids:
                self.run(c, env)
        elif k == "DeclStmt":
            for d in s.kids:
                if d.k == "VarDecl":
                    env[d.n] = self.ev(d.kids[-1], env) if d.kids and d.kids[-1].k not in ("BuiltinType",) and \
                        strip(d.kids[-1]) is not None and d.kids[-1].k.endswith(("Expr", "Literal", "Operator")) else 0
        elif k == "IfStmt":
            if self.truth(self.ev(s.kids[0], env)):
                self.run(s.kids[1], env)
            elif len(s.kids) > 2:
                self.run(s.kids[2], env)
        elif k == "ReturnStmt":
            raise _Ret(self.ev(s.kids[0], env) if s.kids else None)
        elif k == "NullStmt":
            pass
        elif k.endswith(("Expr", "Operator")):
            self.ev(s, env)
        else:
            raise AnalysisError("CONV-HELPER: statement %s at %s:%s" % (k, s.f, s.l))

    def call(self, name, args):
        self.depth += 1
        if self.depth > 6:
            raise AnalysisError("CONV-HELPER: call depth")
        params = self.tu.params(name)
        if len(params) != len(args):
            raise AnalysisError("CONV-HELPER: %s called with %d arguments" % (name, len(args)))
        env = {}
        for p, a in zip(params, args):
            env[p.n] = a
        try:
            self.run(self.tu.body(name), env)
        except _Ret as r:
            self.depth -= 1
            return r.v
        self.depth -= 1
        return None


def conv_helpers(tu):
    findings = []
    n = 0
    present = [h for h in HELPERS if h in tu.funcs]
    for h in sorted(present):
        sign, kind = HELPERS[h]
        fn = tu.funcs[h]
        signed = sign == "signed"
        cases = []
        for cls in CLASSES:
            if cls == "inrange":
                cases += [(cls, False), (cls, True)]
            elif cls == "sentinel":
                cases.append((cls, signed))        # -1 is compact, 2**64-1 is not
            elif cls == "toosmall" and not signed:
                cases += [(cls, False), (cls, True)]   # small negative ints are compact
            else:
                cases.append((cls, False))
        for cls, compact in cases:
            n += 1
            w = HelperWalk(tu, cls, signed, compact)
            args = ["OB"] + (["value"] if kind == "convert" else [])
            ret = w.call(h, args)
            good = cls in ("inrange", "sentinel")
            want_val = VAL if cls == "inrange" else w.sentinel()
            bad = None
            descr = (DESCR[cls] % w.sentinel()) + (" (single-digit representation)" if compact else "")
            if bool(ret) != good:
                bad = "returns %s for %s" % (ret, descr)
            elif kind == "convert" and good and (w.out.get("value") is not want_val and w.out.get("value") != want_val):
                bad = "stores %r for %s" % (w.out.get("value"), descr)
            elif kind == "convert" and good and w.exc is not None:
                bad = "accepts %s but leaves %s pending" % (descr, w.exc)
            elif kind == "convert" and not good and w.exc != "TypeError":
                bad = "rejects %s with %s pending (TypeError required)" % (descr, w.exc or "no exception")
            if bad:
                findings.append(dict(
                    rule="CONV-HELPER", function=h, file=fn.f, line=fn.l,
                    construct="%s %s" % (h, bad),
                    detail="the helper must accept exactly the integers of the "
                           "slot type (including the one equal to the API's "
                           "error sentinel), store them unchanged, and reject "
                           "everything else with TypeError", path=[]))
    return dict(findings=findings, n=n, helpers=present)


DESCR = {
    "notint": "an object that is not an int%.0s",
    "inrange": "an int in range%.0s",
    "sentinel": "the in-range int %d (equal to the API's error value)",
    "toobig": "an int above the range%.0s",
    "toosmall": "an int below the range%.0s",
}

# ---------------------------------------------------------------------------
# TO-OBJECT

RANGES = {
    "int": (-(1 << 31), (1 << 31) - 1), "unsigned int": (0, (1 << 32) - 1),
    "long": (-(1 << 63), (1 << 63) - 1), "unsigned long": (0, (1 << 64) - 1),
    "long long": (-(1 << 63), (1 << 63) - 1), "unsigned long long": (0, (1 << 64) - 1),
    "short": (-(1 << 15), (1 << 15) - 1), "unsigned short": (0, (1 << 16) - 1),
    "char": (-128, 127), "signed char": (-128, 127), "unsigned char": (0, 255),
    "Py_ssize_t": (-(1 << 63), (1 << 63) - 1), "ssize_t": (-(1 << 63), (1 << 63) - 1),
    "size_t": (0, (1 << 64) - 1), "_Bool": (0, 1),
}
CONSTRUCTORS = ("PyLong_FromLong", "PyLong_FromUnsignedLong", "PyLong_FromLongLong",
                "PyLong_FromUnsignedLongLong", "PyLong_FromSsize_t", "PyLong_FromSize_t")


def _range_of_type(t, tu):
    t = (t or "").replace("const ", "").strip()
    seen = 0
    while t not in RANGES and t in getattr(tu, "typedefs", {}) and seen < 5:
        t = tu.typedefs[t].replace("const ", "").strip()
        seen += 1
    return RANGES.get(t)


def _expr_range(e, tu, facts):
    """interval of an integral expression; facts: {path: (lo, hi)} from guards"""
    k = e.k
    if k == "ParenExpr":
        return _expr_range(e.kids[0], tu, facts)
    c = const_int(e)
    if c is not None:
        return (c, c)
    if k in ("ImplicitCastExpr", "CStyleCastExpr"):
        inner = e.kids[-1]
        if e.v in ("LValueToRValue", "NoOp"):
            return _expr_range(inner, tu, facts)
        if e.v in ("IntegralCast",):
            r = _expr_range(inner, tu, facts)
            d = _range_of_type(e.t, tu)
            if r is None or d is None:
                return d
            if r[0] >= d[0] and r[1] <= d[1]:
                return r
            return ("LOSSY", r, d, e)
        return _range_of_type(e.t, tu)
    p = path(e)
    if p is not None and p in facts:
        return facts[p]
    return _range_of_type(e.t, tu)


def _lossy(e, tu, facts, out):
    """collect lossy integral casts inside e"""
    if e.k in ("ImplicitCastExpr", "CStyleCastExpr") and e.v == "IntegralCast":
        inner = e.kids[-1]
        r = _expr_range(inner, tu, facts)
        d = _range_of_type(e.t, tu)
        if isinstance(r, tuple) and len(r) == 2 and d is not None and (r[0] < d[0] or r[1] > d[1]):
            out.append((e, r, d))
    for c in e.kids:
        _lossy(c, tu, facts, out)


def _refine(cond, truth, tu, facts):
    """facts refined by `cond` being `truth`; understands ||, &&, !, and
    comparisons of a path with a constant"""
    e = strip(cond)
    if e is None:
        return facts
    if e.k == "UnaryOperator" and e.v == "!":
        return _refine(e.kids[0], not truth, tu, facts)
    if e.k == "BinaryOperator" and e.v == "||" and not truth:
        return _refine(e.kids[1], False, tu, _refine(e.kids[0], False, tu, facts))
    if e.k == "BinaryOperator" and e.v == "&&" and truth:
        return _refine(e.kids[1], True, tu, _refine(e.kids[0], True, tu, facts))
    if e.k == "BinaryOperator" and e.v in ("<", ">", "<=", ">="):
        # the comparison happens in the common type: constants converted to an
        # unsigned type compare as their wrapped value (const_int does that)
        a, b = e.kids[0], e.kids[1]
        pa, cb = path(a), const_int(b)
        op = e.v
        if pa is None or cb is None:
            pa, cb = path(b), const_int(a)
            op = {"<": ">", ">": "<", "<=": ">=", ">=": "<="}[op]
        if pa is None or cb is None:
            return facts
        if not truth:
            op = {"<": ">=", ">": "<=", "<=": ">", ">=": "<"}[op]
        sa = strip(a) if path(a) == pa else strip(b)
        lo, hi = facts.get(pa) or _range_of_type(sa.t, tu) or (None, None)
        if lo is None:
            return facts
        if op == "<":
            hi = min(hi, cb - 1)
        elif op == "<=":
            hi = min(hi, cb)
        elif op == ">":
            lo = max(lo, cb + 1)
        else:
            lo = max(lo, cb)
        f2 = dict(facts)
        f2[pa] = (lo, hi)
        return f2
    return facts


def to_object(tu):
    findings = []
    n = 0

    def report(fname, e, r, d):
        findings.append(dict(
            rule="TO-OBJECT", function=fname, file=e.f, line=e.l,
            construct="conversion of %s with range [%d, %d] to %s" % (
                text(strip(e.kids[-1]))[:40], r[0], r[1], e.t),
            detail="a stored value in that range is wrapped by this "
                   "conversion before the Python integer is built: what is "
                   "read back differs from what was stored", path=[]))

    def walk(fname, s, facts):
        nonlocal n
        k = s.k
        if k == "CompoundStmt":
            f = facts
            for c in s.kids:
                f = walk(fname, c, f)
            return f
        if k == "IfStmt":
            ft = _refine(s.kids[0], True, tu, facts)
            ff = _refine(s.kids[0], False, tu, facts)
            check(fname, s.kids[0], facts)
            rt = walk(fname, s.kids[1], ft)
            rf = walk(fname, s.kids[2], ff) if len(s.kids) > 2 else ff
            t_ends = _terminates(s.kids[1])
            f_ends = len(s.kids) > 2 and _terminates(s.kids[2])
            if t_ends and not f_ends:
                return rf
            if f_ends and not t_ends:
                return rt
            return facts
        if k in ("ForStmt", "WhileStmt", "DoStmt", "SwitchStmt", "LabelStmt"):
            for c in s.kids:
                if c is not None:
                    walk(fname, c, {})
            return {}
        check(fname, s, facts)
        if k == "BinaryOperator" and s.v == "=" or k in ("UnaryOperator", "CompoundAssignOperator"):
            p = path(s.kids[0])
            if p in facts:
                facts = dict(facts)
                del facts[p]
        return facts

    def check(fname, e, facts):
        nonlocal n
        for c in e.walk():
            if c.k == "CallExpr" and callee(c)[0] == "fn" and callee(c)[1] in CONSTRUCTORS:
                n += 1
                bad = []
                for a in c.kids[1:]:
                    _lossy(a, tu, facts, bad)
                for x, r, d in bad:
                    report(fname, x, r, d)

    for name in tu.order:
        b = tu.body(name)
        if b is None:
            continue
        walk(name, b, {})
    return dict(findings=findings, n=n)


def _terminates(s):
    if s is None:
        return False
    if s.k in ("ReturnStmt", "GotoStmt", "BreakStmt", "ContinueStmt"):
        return True
    if s.k == "CompoundStmt" and s.kids:
        return _terminates(s.kids[-1])
    if s.k == "IfStmt" and len(s.kids) > 2:
        return _terminates(s.kids[1]) and _terminates(s.kids[2])
    return False


def tu_check(tu):
    a = conv_helpers(tu)
    b = to_object(tu)
    return dict(findings=a["findings"] + b["findings"], conv=a["n"], helpers=a["helpers"], toobj=b["n"])


def extend(res, use_cache=True, rules=("CONV-HELPER", "TO-OBJECT")):
    from .. import engine
    out = engine.map_tus("sa.rules.convhelpers", "tu_check", use_cache=use_cache)
    nc = nt = 0
    nh = 0
    for fam, r in sorted(out.items()):
        res.findings.extend([f for f in r["findings"] if f["rule"] in rules], fam)
        nc += r["conv"]
        nt += r["toobj"]
        nh += len(r["helpers"])
    if "CONV-HELPER" in rules:
        if nh < 20:
            raise AnalysisError("CONV-HELPER: %d helper instances over all units (anchor vanished)" % nh)
        res.count("CONV-HELPER", nc)
    if "TO-OBJECT" in rules:
        if nt < 22 * 5:
            raise AnalysisError("TO-OBJECT: %d constructor calls (anchor vanished)" % nt)
        res.count("TO-OBJECT", nt)
    for r in rules:
        if r not in res.rules:
            res.rules.append(r)
