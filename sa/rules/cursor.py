"""Cursor invariant of the set-iteration protocol (C16 CURSOR-HOLD).

A SetIteration cursor owns the cached key exactly when position > 0 (that is
what finiSetIteration relies on).  For every function installed in the `next`
slot, in the object-key translation units, the invariant is assumed on entry
and must hold at every return; the cached key is never released twice.
State: cp = set of position classes {'+','0','-'}, ch in {'H','N','C'}
('C' = correlated with the position: held iff '+').
"""
from ..cir import strip, path, callee, text, const_int
from ..cfg import CFG
from ..flow import Analysis, sget, sset, witness_lines
from ..common import AnalysisError
from .. import callgraph

ALL = frozenset("+0-")

ACCEPTED = {
    ("nextGenericKeyIter", "PyIter_Next"):
        "the iterator is always the list iterator created in initSetIteration "
        "(over a sorted copy), whose next() cannot fail; the error exit is dead",
}


def key_is_object(tu):
    for f, t in tu.records.get("SetIteration_s", []):
        if f == "key":
            return t.strip() == "PyObject *"
    raise AnalysisError("anchor vanished: struct SetIteration_s.key")


class CursorAnalysis(Analysis):
    track_flags = True

    def __init__(self, cfg, tu, ivar):
        Analysis.__init__(self, cfg, tu)
        self.ivar = ivar
        self.reports = []
        self._seen = set()
        self.events = 0

    def initial(self):
        return frozenset([("cp", ALL), ("ch", "C")])

    def report(self, node, st, what, detail):
        if (node.id, what) not in self._seen:
            self._seen.add((node.id, what))
            self.reports.append((node, st, what, detail))

    def _is_pos(self, e):
        return path(e) == "%s->position" % self.ivar

    def _is_key(self, e):
        return path(e) == "%s->key" % self.ivar

    def _split(self, st):
        cp = sget(st, "cp")
        if len(cp) <= 1:
            return [self._resolve(st)]
        return [self._resolve(sset(st, "cp", frozenset([c]))) for c in sorted(cp)]

    def _resolve(self, st):
        cp, ch = sget(st, "cp"), sget(st, "ch")
        if ch == "C" and len(cp) == 1:
            st = sset(st, "ch", "H" if "+" in cp else "N")
        return st

    def on_node(self, node, st):
        e = node.e
        if e is None:
            return [st]
        touches = False
        for n in e.walk():
            if n.k == "MemberExpr" and n.n in ("position", "key") and path(n.kids[0]) == self.ivar:
                touches = True
        if not touches:
            return [st]
        outs = []
        for s in self._split(st):
            outs.append(self._apply(node, s, e))
        return outs

    def _apply(self, node, st, e):
        for n in e.walk():
            if n.k == "CallExpr":
                c = callee(n)
                if c[0] == "fn" and c[1] in ("Py_DECREF", "Py_XDECREF") and len(n.kids) > 1 \
                        and self._is_key(n.kids[1]):
                    self.events += 1
                    if sget(st, "ch") == "N":
                        self.report(node, st, "cached key released while not held",
                                    "DECREF of %s->key on a path where the cursor "
                                    "does not own it (released twice)" % self.ivar)
                    st = sset(st, "ch", "N")
                elif c[0] == "fn" and c[1] in ("Py_INCREF", "Py_XINCREF") and len(n.kids) > 1 \
                        and self._is_key(n.kids[1]):
                    self.events += 1
                    if sget(st, "ch") == "H":
                        self.report(node, st, "cached key acquired while held",
                                    "INCREF of %s->key while the previous cached "
                                    "key is still owned (leak)" % self.ivar)
                    st = sset(st, "ch", "H")
        for n in e.walk():
            if n.k == "UnaryOperator" and n.v in ("++", "post++") and self._is_pos(n.kids[0]):
                st = self._bump(st)
            elif n.k == "CompoundAssignOperator" and n.v == "+=" and self._is_pos(n.kids[0]) \
                    and const_int(n.kids[1]) == 1:
                st = self._bump(st)
            elif n.k == "BinaryOperator" and n.v == "=" and self._is_pos(n.kids[0]):
                c = const_int(n.kids[1])
                if c is None:
                    st = sset(st, "cp", ALL)
                else:
                    st = sset(st, "cp", frozenset(["+" if c > 0 else "0" if c == 0 else "-"]))
        return st

    def _bump(self, st):
        cp = sget(st, "cp")
        out = set()
        for c in cp:
            out |= {"+"} if c in "+0" else {"0", "-"}
        return sset(st, "cp", frozenset(out))

    def on_edge(self, node, label, st):
        if label not in ("T", "F") or node.e is None:
            return st
        e = strip(node.e)
        want = label == "T"
        cp = sget(st, "cp")
        keep = None
        if e is not None and self._is_pos(e):
            keep = frozenset("+-") if want else frozenset("0")
        elif e is not None and e.k == "BinaryOperator" and e.v in ("<", "<=", ">", ">=", "==", "!=") \
                and self._is_pos(e.kids[0]) and const_int(e.kids[1]) is not None:
            c = const_int(e.kids[1])
            rep = {"+": 1, "0": 0, "-": -1}
            if c in (0, 1, -1) or True:
                def holds(cls):
                    # does some value of the class satisfy / falsify?
                    vals = {"+": [1, 2, 1000], "0": [0], "-": [-1]}[cls]
                    res = set()
                    for v in vals:
                        res.add({"<": v < c, "<=": v <= c, ">": v > c, ">=": v >= c,
                                 "==": v == c, "!=": v != c}[e.v])
                    return res
                keep = frozenset(cls for cls in "+0-" if want in holds(cls))
        if keep is None:
            return st
        new = cp & keep
        if not new:
            return None
        return self._resolve(sset(st, "cp", new))

    def check_exits(self):
        for n in self.cfg.returns():
            for st in self.IN.get(n.id, ()):
                for s in self._split(st):
                    cp, ch = sget(s, "cp"), sget(s, "ch")
                    if ch == "C":
                        continue
                    pos = "+" in cp
                    if (ch == "H") != pos:
                        self.report(n, st, "returns %s with position %s and key %s" % (
                            text(n.e)[:20] if n.e is not None else "",
                            ">0" if pos else "<=0", "held" if ch == "H" else "not held"),
                            "the cursor invariant (cached key owned iff "
                            "position > 0) is broken at this return: "
                            "finiSetIteration will %s" % (
                                "release the key again (double decref)" if pos
                                else "not release the key (leak)"))


def analyse_tu(tu):
    if not key_is_object(tu):
        return dict(findings=[], stats={"functions": 0, "events": 0, "skipped": "native keys"})
    targets = sorted(callgraph.slot_targets(tu).get("next", ()))
    if len(targets) < 4:
        raise AnalysisError("anchor vanished: SetIteration.next slot targets %s" % targets)
    findings, accepted = [], []
    events = 0
    for name in targets:
        fn = tu.func(name)
        params = [k for k in fn.kids if k.k == "ParmVarDecl"]
        if not params:
            continue
        an = CursorAnalysis(CFG(fn), tu, params[0].n)
        an.solve()
        an.check_exits()
        events += an.events
        for node, st, what, detail in an.reports:
            wn = an.witness(node, st)
            acc = None
            for (f, needle), why in ACCEPTED.items():
                if f == name and any(w.e is not None and needle in text(w.e) for w in wn[-6:]):
                    acc = why
            if acc:
                accepted.append({"function": name, "what": what, "reason": acc})
                continue
            findings.append(dict(
                rule="CURSOR-HOLD", function=name, file=node.where.split(":")[0],
                line=node.line, construct=what, detail=detail, path=witness_lines(wn)))
    return dict(findings=findings,
                stats={"functions": len(targets), "events": events, "accepted": accepted})
