"""PY-TAINT (C09 / C13 / C01): conversion discipline of the Python classes.

Sources   key / value parameters of the public methods the Python classes
          share with the C types (table below, roles by position)
Sanitiser self._to_key(x) / self._to_value(x)
Sinks     the internal, conversion-free layer: _search, _findbucket, _set,
          _del, compare, and direct list insertion
Neutral   calls of other public methods (they convert themselves)

Reads (get, __getitem__, __contains__, has_key) must turn a conversion
TypeError into absence: the sanitiser sits in a try whose `except TypeError`
returns the default / False or raises KeyError.  Writes convert before any
sink (so a TypeError leaves the container unchanged).
"""
import ast

from ..common import AnalysisError, SRC
from .. import pyfront

REL = SRC + "/_base.py"

# method -> list of (parameter position (after self), role)
MAPPING_METHODS = {
    "get": [(0, "key")], "__getitem__": [(0, "key")], "__contains__": [(0, "key")],
    "has_key": [(0, "key")], "__setitem__": [(0, "key"), (1, "value")],
    "__delitem__": [(0, "key")], "setdefault": [(0, "key"), (1, "value")],
    "pop": [(0, "key")], "insert": [(0, "key"), (1, "value")],
    "minKey": [(0, "key")], "maxKey": [(0, "key")],
}
SET_METHODS = {
    "__contains__": [(0, "key")], "has_key": [(0, "key")], "add": [(0, "key")],
    "insert": [(0, "key")], "remove": [(0, "key")], "minKey": [(0, "key")],
    "maxKey": [(0, "key")],
}
RANGE_METHODS = ("keys", "values", "items", "iterkeys", "itervalues", "iteritems", "_range")
READS = ("get", "__getitem__", "__contains__", "has_key")
SINKS = ("_search", "_findbucket", "_set", "_del")
SANITISER = {"key": "_to_key", "value": "_to_value"}
KINDS = {"Bucket": MAPPING_METHODS, "Tree": MAPPING_METHODS, "Set": SET_METHODS,
         "TreeSet": SET_METHODS}


def _san_call(node):
    """role if node is self._to_key(..) / self._to_value(..)"""
    if isinstance(node, ast.Call) and isinstance(node.func, ast.Attribute) and \
            isinstance(node.func.value, ast.Name) and node.func.value.id == "self":
        if node.func.attr == "_to_key":
            return "key"
        if node.func.attr == "_to_value":
            return "value"
    return None


class _Taint(ast.NodeVisitor):
    """Linear walk in source order with a set of raw (unconverted) names."""

    def __init__(self, fn, raw):
        self.fn = fn
        self.raw = dict(raw)        # name -> role
        self.sink_hits = []         # (node, name, sink)
        self.sanitised = []         # (call node, role, enclosing try or None)

    def run(self):
        for st in self.fn.body:
            self.stmt(st)

    def stmt(self, st):
        if isinstance(st, ast.Assign):
            self.expr(st.value)
            role = _san_call(st.value)
            for t in st.targets:
                for tt in (t.elts if isinstance(t, ast.Tuple) else [t]):
                    if isinstance(tt, ast.Name):
                        if role is not None or not isinstance(st.value, ast.Name):
                            # assigned something converted / computed: clean
                            if isinstance(st.value, ast.Tuple) and isinstance(t, ast.Tuple):
                                continue
                            self.raw.pop(tt.id, None)
                        elif isinstance(st.value, ast.Name) and st.value.id in self.raw:
                            self.raw[tt.id] = self.raw[st.value.id]
                # key, value = self._to_key(key), self._to_value(value)
                if isinstance(t, ast.Tuple) and isinstance(st.value, ast.Tuple):
                    for tt, vv in zip(t.elts, st.value.elts):
                        if isinstance(tt, ast.Name):
                            if _san_call(vv) is not None:
                                self.raw.pop(tt.id, None)
                            elif isinstance(vv, ast.Name) and vv.id in self.raw:
                                self.raw[tt.id] = self.raw[vv.id]
                            else:
                                self.raw.pop(tt.id, None)
            return
        if isinstance(st, (ast.If, ast.While)):
            self.expr(st.test)
            before = dict(self.raw)
            for b in st.body:
                self.stmt(b)
            after_body = dict(self.raw)
            self.raw = dict(before)
            for b in st.orelse:
                self.stmt(b)
            # a name is raw afterwards if raw on either branch
            merged = dict(self.raw)
            merged.update({k: v for k, v in after_body.items()})
            self.raw = merged
            return
        if isinstance(st, ast.For):
            self.expr(st.iter)
            for b in st.body + st.orelse:
                self.stmt(b)
            return
        if isinstance(st, ast.Try):
            self._try_stack = getattr(self, "_try_stack", []) + [st]
            for b in st.body:
                self.stmt(b)
            self._try_stack = self._try_stack[:-1]
            for h in st.handlers:
                for b in h.body:
                    self.stmt(b)
            for b in st.orelse + st.finalbody:
                self.stmt(b)
            return
        if isinstance(st, (ast.FunctionDef, ast.ClassDef)):
            return
        for child in ast.iter_child_nodes(st):
            if isinstance(child, ast.expr):
                self.expr(child)

    def expr(self, e):
        for n in ast.walk(e):
            if not isinstance(n, ast.Call):
                continue
            role = _san_call(n)
            if role is not None:
                tr = getattr(self, "_try_stack", [])
                self.sanitised.append((n, role, tr[-1] if tr else None))
                continue
            fname = None
            if isinstance(n.func, ast.Attribute):
                fname = n.func.attr
            elif isinstance(n.func, ast.Name):
                fname = n.func.id
            if fname in SINKS or fname == "compare":
                for a in n.args:
                    if isinstance(a, ast.Name) and a.id in self.raw:
                        self.sink_hits.append((n, a.id, fname))
            elif fname in ("insert", "append") and isinstance(n.func, ast.Attribute) and \
                    pyfront.unparse(n.func.value) in ("self._keys", "self._values"):
                for a in n.args:
                    if isinstance(a, ast.Name) and a.id in self.raw:
                        self.sink_hits.append((n, a.id, "list." + fname))


def _absence_handler(tr, mname):
    """Does the try statement translate TypeError into absence?"""
    if tr is None:
        return False
    for h in tr.handlers:
        names = []
        if h.type is None:
            continue
        for n in ast.walk(h.type):
            if isinstance(n, ast.Name):
                names.append(n.id)
        if "TypeError" not in names:
            continue
        for b in h.body:
            if isinstance(b, ast.Return):
                return True
            if isinstance(b, ast.Raise) and b.exc is not None and \
                    "KeyError" in pyfront.unparse(b.exc):
                return True
    return False


def check(res, rule="PY-TAINT"):
    tree = pyfront.base_py()
    seen = set()
    n_params = 0
    for kind, table in KINDS.items():
        for mname, roles in table.items():
            r = pyfront.resolve(tree, kind, mname)
            if r is None or r[1] is None:
                if mname in ("insert",) and kind in ("Bucket",):
                    continue          # Bucket has no insert in either implementation
                if mname in ("has_key", "minKey", "maxKey", "get", "__getitem__", "__contains__",
                             "__setitem__", "__delitem__", "setdefault", "pop", "add", "remove"):
                    raise AnalysisError("anchor vanished: %s.%s" % (kind, mname))
                continue
            cls, fn = r
            if (cls, fn.name, fn.lineno) in seen:
                continue
            seen.add((cls, fn.name, fn.lineno))
            params = [a.arg for a in fn.args.args][1:]
            raw = {}
            for pos, role in roles:
                if pos < len(params):
                    raw[params[pos]] = role
            n_params += len(raw)
            t = _Taint(fn, raw)
            t.run()
            where = "%s.%s" % (cls, fn.name)
            for node, name, sink in t.sink_hits:
                res.findings.add(dict(
                    rule=rule, function=where, file=REL, line=node.lineno,
                    construct="raw %s `%s` reaches %s" % (raw.get(name, t.raw.get(name, "?")), name, sink),
                    detail="%s passes its %s argument to %s without "
                           "self.%s(): an argument outside the family's domain "
                           "is compared/stored unconverted (the C type "
                           "reports absence for reads and raises TypeError "
                           "before modifying anything for writes)" % (
                               where, raw.get(name, "key"), sink,
                               SANITISER.get(raw.get(name, "key"), "_to_key")), path=[]))
            if mname not in READS:
                # a write decides presence through the converted key, never through a read:
                # reads answer "absent" for a key outside the domain, a write must raise TypeError
                keys = [p_ for p_, role in raw.items() if role == "key"]
                for c in ast.walk(fn):
                    hit = None
                    if isinstance(c, ast.Compare) and len(c.ops) == 1 and isinstance(c.ops[0], (ast.In, ast.NotIn)) \
                            and isinstance(c.left, ast.Name) and c.left.id in keys and \
                            pyfront.unparse(c.comparators[0]) == "self":
                        hit = pyfront.unparse(c)
                    elif isinstance(c, ast.Call) and isinstance(c.func, ast.Attribute) and \
                            pyfront.unparse(c.func.value) == "self" and c.func.attr in READS and c.args and \
                            isinstance(c.args[0], ast.Name) and c.args[0].id in keys:
                        hit = pyfront.unparse(c)
                    if hit:
                        res.findings.add(dict(
                            rule=rule, function=where, file=REL, line=c.lineno,
                            construct="%s decides presence of the raw key through a read (%s)" % (fn.name, hit[:40]),
                            detail="the read entry points translate the TypeError of an unusable key into "
                                   "absence; a modifying method that asks them first answers KeyError / the "
                                   "default for such a key, where the C type raises TypeError", path=[]))
            if mname in READS:
                for call, role, tr in t.sanitised:
                    if role == "key" and _absence_handler(tr, mname):
                        # the handler must cover the conversion only: a
                        # TypeError raised by a key comparison of the search
                        # has to reach the caller
                        for b in tr.body:
                            for c in ast.walk(b):
                                if isinstance(c, ast.Call) and _san_call(c) is None:
                                    res.findings.add(dict(
                                        rule=rule, function=where, file=REL, line=c.lineno,
                                        construct="absence handler of %s also covers %s" % (
                                            fn.name, pyfront.unparse(c.func)),
                                        detail="the `except TypeError` that turns an "
                                               "unusable key into absence encloses %s as "
                                               "well: a TypeError raised by a key "
                                               "comparison during the search is answered "
                                               "with absence instead of reaching the "
                                               "caller (the C type propagates it)" %
                                               pyfront.unparse(c)[:60], path=[]))
                    if role == "key" and not _absence_handler(tr, mname):
                        res.findings.add(dict(
                            rule=rule, function=where, file=REL, line=call.lineno,
                            construct="conversion in %s not translated to absence" % fn.name,
                            detail="a lookup with an unusable key must report "
                                   "absence (default / False / KeyError); the "
                                   "TypeError of self._to_key escapes from %s" % where,
                            path=[]))
    # range bounds: converted before they reach the search layer
    for kind in KINDS:
        for mname in RANGE_METHODS + ("minKey", "maxKey"):
            r = pyfront.resolve(tree, kind, mname)
            if r is None or r[1] is None:
                continue
            cls, fn = r
            if (cls, fn.name, fn.lineno, "range") in seen:
                continue
            seen.add((cls, fn.name, fn.lineno, "range"))
            params = [a.arg for a in fn.args.args][1:]
            raw = {p: "key" for p in params if p in ("min", "max", "key")}
            if not raw:
                continue
            n_params += len(raw)
            t = _Taint(fn, raw)
            t.run()
            for node, name, sink in t.sink_hits:
                res.findings.add(dict(
                    rule=rule, function="%s.%s" % (cls, fn.name), file=REL, line=node.lineno,
                    construct="raw bound `%s` reaches %s" % (name, sink),
                    detail="a range bound is searched for without conversion", path=[]))
    res.count(rule, n_params)
    res.floor("python key/value parameters analysed", n_params, 25)
    return n_params


def check_setstate(res, rule="PY-TAINT"):
    """__setstate__ of the leaves stores the state's elements: they must pass
    the converters like every other writer."""
    tree = pyfront.base_py()
    n = 0
    for kind in ("Bucket", "Set"):
        r = pyfront.resolve(tree, kind, "__setstate__")
        if r is None or r[1] is None:
            raise AnalysisError("anchor vanished: %s.__setstate__" % kind)
        cls, fn = r
        n += 1
        stores = [c for c in ast.walk(fn) if isinstance(c, ast.Call) and
                  isinstance(c.func, ast.Attribute) and c.func.attr in ("append", "extend", "insert")]
        conv = [c for c in ast.walk(fn) if _san_call(c) is not None]
        if stores and not conv:
            res.findings.add(dict(
                rule=rule, function="%s.__setstate__" % cls, file=REL, line=fn.lineno,
                construct="state elements stored unconverted",
                detail="%s.__setstate__ copies the state's keys/values into "
                       "the container without self._to_key/_to_value: a state "
                       "holding data outside the family's domain is accepted "
                       "(the C type raises TypeError)" % cls, path=[]))
    res.count(rule, n)
