"""ERR-SWALLOW (C10, shared by C11 / C12 through the cursors): an exception is
cleared only where its class has been tested.

`PyErr_Clear()` discards whatever is pending.  The repository's idiom is to
clear under a class test - `PyErr_ExceptionMatches(PyExc_X)` or
`BTree_ShouldSuppressKeyError()` - so that an unexpected failure (a leaf that
cannot be activated: ReadConflictError / POSKeyError / MemoryError, a
RuntimeError from a concurrent change) still reaches the caller.  30 of the 43
sites of a translation unit follow it.  Rule: every `PyErr_Clear()` is
reachable only through the success edge of a class test (the success edges removed, it is unreachable from the entry and from behind another clear), or is
followed on every path by the raising of another exception before any return
(the error is replaced, still reported), or every path from it returns
Py_NotImplemented (operand without __iter__ in the in-place operators: the
interpreter raises TypeError itself), or its function is in ACCEPTED (confirmed
by reading, one reason each).  A cursor
`next` function that clears unguarded ends the iteration silently: the set
operation returns a truncated result.
"""
from ..cir import callee, text, strip
from ..cfg import CFG
from ..common import AnalysisError

CLASS_TESTS = ("PyErr_ExceptionMatches", "BTree_ShouldSuppressKeyError", "PyErr_GivenExceptionMatches")

# function -> reason the unguarded clear is accepted
ACCEPTED = {
    "_get_max_size": "class attribute lookup with a default",
    "module_init": "optional import at module initialisation",
    "init_persist_type": "module initialisation",
}


def _reach(start, barrier_id):
    """nodes reachable from start without passing through the barrier node"""
    seen = set()
    work = [start]
    while work:
        n = work.pop()
        if n.id in seen or n.id == barrier_id:
            continue
        seen.add(n.id)
        for _, s in n.succ:
            work.append(s)
    return seen


SETTERS = ("PyErr_SetString", "PyErr_SetObject", "PyErr_Format", "PyErr_SetNone", "PyErr_NoMemory")


def _sets(e):
    return e is not None and any(n.k == "CallExpr" and callee(n)[0] == "fn" and callee(n)[1] in SETTERS
                                 for n in e.walk())


def _replaced(nd):
    """every path from the clear raises another exception before returning:
    the error is replaced, not swallowed"""
    if _sets(nd.e) and nd.kind != "return":
        # same statement: only when the setter follows the clear textually
        pass
    seen = set()
    work = [s for _, s in nd.succ]
    while work:
        n = work.pop()
        if n.id in seen:
            continue
        seen.add(n.id)
        if n.kind != "branch" and _sets(n.e):
            continue
        if n.kind == "return" or not n.succ:
            return False
        for _, s in n.succ:
            work.append(s)
    return True


def _answers_not_implemented(nd):
    """every path from the clear returns Py_NotImplemented: the binary-operator
    protocol's way of saying "operand not supported" (the interpreter then
    raises TypeError itself)"""
    seen = set()
    work = [s for _, s in nd.succ]
    found = False
    while work:
        n = work.pop()
        if n.id in seen:
            continue
        seen.add(n.id)
        if n.kind == "return":
            if n.e is None or "_Py_NotImplementedStruct" not in text(n.e):
                return False
            found = True
            continue
        if not n.succ:
            return False
        for _, s in n.succ:
            work.append(s)
    return found


def _success_label(g):
    """label of the edge on which a class test of the pending exception
    succeeded, or None when the branch is not such a test (the CFG splits
    &&, || and ?: into one branch node per operand)"""
    if g.kind != "branch" or g.e is None:
        return None
    e = strip(g.e)
    neg = False
    while e is not None and e.k == "UnaryOperator" and e.v == "!":
        neg = not neg
        e = strip(e.kids[0])
    if e is None or e.k != "CallExpr" or callee(e)[1] not in CLASS_TESTS:
        return None
    return "F" if neg else "T"


def _unguarded_reach(cfg, live):
    """nodes reachable from the function's entry - or from just behind a clear
    (the next exception is another one) - along paths on which no class test
    succeeded: the success edges of the class tests are removed.  A clear in
    this set discards an exception of unknown class.  The shape of the test
    (if/else chain, early return on the negation, De Morgan) does not matter."""
    work = [cfg.entry] + [s for n in live if n.kind != "branch" and _is_clear(n.e) for _, s in n.succ]
    seen = set()
    while work:
        n = work.pop()
        if n.id in seen:
            continue
        seen.add(n.id)
        ok = _success_label(n)
        for l, s in n.succ:
            if ok is not None and l == ok:
                continue
            work.append(s)
    return seen


def _is_clear(e):
    return e is not None and any(n.k == "CallExpr" and callee(n) == ("fn", "PyErr_Clear") for n in e.walk())


def analyse_tu(tu):
    findings = []
    guarded = unguarded_ok = replaced = 0
    for name in tu.order:
        fn = tu.funcs[name]
        if not _is_clear(fn) or name.startswith("PyInit_"):
            continue
        cfg = CFG(fn)
        dom = cfg.dominators()
        live = cfg.live_nodes()
        unguarded = _unguarded_reach(cfg, live)
        for nd in live:
            if nd.kind == "branch" or not _is_clear(nd.e):
                continue
            ok = nd.id not in unguarded
            if ok:
                guarded += 1
                continue
            if _replaced(nd):
                replaced += 1
                continue
            if _answers_not_implemented(nd):
                unguarded_ok += 1
                continue
            if name in ACCEPTED:
                unguarded_ok += 1
                continue
            findings.append(dict(
                rule="ERR-SWALLOW", function=name, file=nd.where.split(":")[0], line=nd.line,
                construct="PyErr_Clear() in %s without a test of the exception's class" % name,
                detail="whatever exception is pending is discarded here - also a failed "
                       "activation of a node (ReadConflictError, POSKeyError, MemoryError) or "
                       "a RuntimeError; elsewhere the clear is made under "
                       "PyErr_ExceptionMatches / BTree_ShouldSuppressKeyError. In a cursor "
                       "function this ends the iteration silently: union / intersection / "
                       "difference / multiunion return a truncated result", path=[]))
    return dict(findings=findings, stats={"guarded_clears": guarded, "replaced": replaced,
                                           "accepted_unguarded": unguarded_ok})
