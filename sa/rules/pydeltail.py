"""PY-DEL-TAIL (C01, C03): what `_Tree._del` does after the child has deleted
the key, as a decision table.

After `child._del(key)` returned, the node has four things to keep right: the
leaf chain (unlink an emptied first leaf from its predecessor exactly once),
its own `_firstbucket`, its child list, and the "my first leaf went away" flag
it hands to its parent.  All four depend only on

  removed   the child reported that its first leaf went away (interior child)
  index0    the child is this node's child 0
  empty     the child has no entries left
  leaf      the child is a leaf

The statements behind the call are walked for every consistent valuation
(removed implies an interior child); conditions about anything else (the
embedded-leaf registration, the separator refresh) fork and must not matter.
Specification:

  unlink calls on the left sibling   (removed and not index0) + (empty and leaf and not index0)
  self._firstbucket                  child._next        if empty and leaf and index0
                                     child._firstbucket if removed and index0   (also when the
                                                        interior child became empty: its
                                                        _firstbucket already names the next leaf)
                                     untouched          otherwise
  del self._data[index]              iff empty
  flag returned                      (removed and index0) or (empty and leaf and index0)

A `_firstbucket` left on an unlinked leaf is invisible until that leaf's
successor is emptied too; then iteration ends at once while len() and lookups
still see the keys.
"""
import ast
import itertools

from ..common import AnalysisError, SRC
from .. import pyfront

REL = SRC + "/_base.py"


class _Path(object):
    def __init__(self):
        self.unlinks = []
        self.fb = None
        self.deleted = False
        self.flag = None
        self.ret = None

    def copy(self):
        p = _Path()
        p.unlinks = list(self.unlinks)
        p.fb, p.deleted, p.flag, p.ret = self.fb, self.deleted, self.flag, self.ret
        return p


class Walk(object):
    def __init__(self, fn, atoms):
        self.fn = fn
        self.a = atoms
        self.idx = self.child = self.flagvar = None
        self.data_aliases = set()
        self.done = []

    # three-valued conditions
    def cond(self, e, p):
        if isinstance(e, ast.BoolOp):
            vals = [self.cond(v, p) for v in e.values]
            if isinstance(e.op, ast.And):
                if any(v is False for v in vals):
                    return False
                return True if all(v is True for v in vals) else None
            if any(v is True for v in vals):
                return True
            return False if all(v is False for v in vals) else None
        if isinstance(e, ast.UnaryOp) and isinstance(e.op, ast.Not):
            v = self.cond(e.operand, p)
            return None if v is None else not v
        s = pyfront.unparse(e)
        if isinstance(e, ast.Name):
            if e.id == self.flagvar:
                return p.flag
            if e.id == self.idx:
                return not self.a["index0"]
            defs = [a for a in ast.walk(self.fn) if isinstance(a, ast.Assign) and len(a.targets) == 1
                    and isinstance(a.targets[0], ast.Name) and a.targets[0].id == e.id]
            if len(defs) == 1 and defs[0].lineno < self.anchor_line and any(
                    isinstance(n, ast.Attribute) and n.attr in ("size", "_keys", "_data", "_next", "_firstbucket")
                    for n in ast.walk(defs[0].value)):
                return None          # computed before the delete from state the delete changes
            defs = [a.value for a in defs]
            if len(defs) == 1 and getattr(self, "_depth", 0) < 4:
                # a local that names a condition (`is_first = index == 0`)
                self._depth = getattr(self, "_depth", 0) + 1
                try:
                    return self.cond(defs[0], p)
                finally:
                    self._depth -= 1
            return None
        if isinstance(e, ast.Attribute) and isinstance(e.value, ast.Name) and e.value.id == self.child and e.attr == "size":
            return not self.a["empty"]
        if isinstance(e, ast.Compare) and len(e.ops) == 1:
            l, r = e.left, e.comparators[0]
            op = e.ops[0]
            if isinstance(l, ast.Name) and l.id == self.idx and isinstance(r, ast.Constant) and isinstance(r.value, int):
                nz = not self.a["index0"]
                c = r.value
                if isinstance(op, ast.Gt) and c == 0:
                    return nz
                if isinstance(op, ast.Eq) and c == 0:
                    return not nz
                if isinstance(op, ast.NotEq) and c == 0:
                    return nz
                if isinstance(op, ast.GtE) and c == 1:
                    return nz
                if isinstance(op, ast.Lt) and c == 1:
                    return not nz
            if isinstance(l, ast.Attribute) and isinstance(l.value, ast.Name) and l.value.id == self.child \
                    and l.attr == "size" and isinstance(r, ast.Constant) and r.value == 0:
                if isinstance(op, (ast.Eq,)):
                    return self.a["empty"]
                if isinstance(op, (ast.Gt, ast.NotEq)):
                    return not self.a["empty"]
            if isinstance(op, (ast.Is, ast.IsNot)) and s.replace(" ", "") in (
                    "type(%s)isself._bucket_type" % self.child, "type(%s)isnotself._bucket_type" % self.child):
                return self.a["leaf"] == isinstance(op, ast.Is)
            if isinstance(l, ast.Call) and pyfront.unparse(l.func) == "len" and len(l.args) == 1 and \
                    isinstance(l.args[0], ast.Attribute) and pyfront.unparse(l.args[0]) == "%s._keys" % self.child:
                return None
        if isinstance(e, ast.Call) and pyfront.unparse(e.func) == "isinstance" and len(e.args) == 2 and \
                isinstance(e.args[0], ast.Name) and e.args[0].id == self.child:
            t = pyfront.unparse(e.args[1])
            if t == "self._bucket_type":
                return self.a["leaf"]
            if t in ("type(self)", "self.__class__", "_Tree"):
                return not self.a["leaf"]
        # a test that mentions the tracked variables but is not understood must not be guessed
        names = set(n.id for n in ast.walk(e) if isinstance(n, ast.Name))
        if self.flagvar in names:
            raise AnalysisError("PY-DEL-TAIL: condition %s on the first-leaf flag" % s[:60])
        return None

    def is_data(self, e):
        s = pyfront.unparse(e)
        return s == "self._data" or (isinstance(e, ast.Name) and e.id in self.data_aliases)

    def left_sibling_child(self, e):
        """data[index - 1].child, possibly through a local bound to it"""
        if isinstance(e, ast.Name):
            defs = [a.value for a in ast.walk(self.fn) if isinstance(a, ast.Assign) and len(a.targets) == 1
                    and isinstance(a.targets[0], ast.Name) and a.targets[0].id == e.id]
            return len(defs) == 1 and self.left_sibling_child(defs[0])
        if isinstance(e, ast.Attribute) and e.attr == "child" and isinstance(e.value, ast.Subscript) \
                and self.is_data(e.value.value):
            return pyfront.unparse(e.value.slice).replace(" ", "") == "%s-1" % self.idx
        return False

    def block(self, stmts, paths):
        for st in stmts:
            paths = [q for p in paths for q in self.stmt(st, p)]
        return paths

    def stmt(self, st, p):
        if p.ret is not None:
            return [p]
        if isinstance(st, ast.If):
            c = self.cond(st.test, p)
            out = []
            if c is not False:
                out += self.block(st.body, [p.copy()])
            if c is not True:
                out += self.block(st.orelse, [p.copy()])
            return out
        if isinstance(st, ast.Return):
            v = st.value
            if isinstance(v, ast.Tuple) and v.elts:
                f = v.elts[0]
                if isinstance(f, ast.Name) and f.id == self.flagvar:
                    p.ret = p.flag
                elif isinstance(f, ast.Constant) and isinstance(f.value, bool):
                    p.ret = f.value
                else:
                    raise AnalysisError("PY-DEL-TAIL: returned flag %s" % pyfront.unparse(f)[:40])
            else:
                raise AnalysisError("PY-DEL-TAIL: return value of _Tree._del")
            self.done.append(p)
            return []
        if isinstance(st, ast.Raise):
            return []
        if isinstance(st, ast.Expr) and isinstance(st.value, ast.Call):
            c = st.value
            if isinstance(c.func, ast.Attribute) and c.func.attr == "_deleteNextBucket":
                if not self.left_sibling_child(c.func.value):
                    raise AnalysisError("PY-DEL-TAIL: _deleteNextBucket() on %s" % pyfront.unparse(c.func.value)[:50])
                if self.a["index0"]:
                    p.unlinks.append("data[-1]")        # index - 1 with index == 0: the wrong end
                else:
                    p.unlinks.append("left sibling")
            return [p]
        if isinstance(st, ast.Expr):
            return [p]
        if isinstance(st, ast.Delete):
            for t in st.targets:
                if isinstance(t, ast.Subscript) and self.is_data(t.value) and pyfront.unparse(t.slice) == self.idx:
                    p.deleted = True
                elif isinstance(t, ast.Subscript) and self.is_data(t.value):
                    raise AnalysisError("PY-DEL-TAIL: del %s" % pyfront.unparse(t)[:40])
            return [p]
        if isinstance(st, ast.Assign) and len(st.targets) == 1:
            t, v = st.targets[0], st.value
            if isinstance(t, ast.Name):
                if t.id == self.flagvar:
                    if isinstance(v, ast.Constant) and isinstance(v.value, bool):
                        p.flag = v.value
                    else:
                        raise AnalysisError("PY-DEL-TAIL: %s = %s" % (t.id, pyfront.unparse(v)[:40]))
                elif self.is_data(v):
                    self.data_aliases.add(t.id)
                elif t.id in (self.idx, self.child):
                    raise AnalysisError("PY-DEL-TAIL: %s is rebound behind the child's delete" % t.id)
                return [p]
            if isinstance(t, ast.Attribute) and pyfront.unparse(t) == "self._firstbucket":
                s = pyfront.unparse(v)
                if s == "%s._firstbucket" % self.child:
                    p.fb = "child._firstbucket"
                elif s == "%s._next" % self.child:
                    p.fb = "child._next"
                else:
                    p.fb = s
                return [p]
            return [p]
        if isinstance(st, (ast.AugAssign, ast.Pass, ast.Assert)):
            return [p]
        raise AnalysisError("PY-DEL-TAIL: statement %s at line %s" % (type(st).__name__, st.lineno))


def _anchor(fn):
    """(statement index, flag variable, index variable, child variable)"""
    idx = child = None
    for a in ast.walk(fn):
        if isinstance(a, ast.Assign) and len(a.targets) == 1 and isinstance(a.targets[0], ast.Name):
            v = a.value
            if isinstance(v, ast.Call) and isinstance(v.func, ast.Attribute) and v.func.attr == "_search":
                idx = a.targets[0].id
            if isinstance(v, ast.Attribute) and v.attr == "child" and isinstance(v.value, ast.Subscript):
                child = a.targets[0].id
    for i, st in enumerate(fn.body):
        if isinstance(st, ast.Assign) and isinstance(st.value, ast.Call) and isinstance(st.value.func, ast.Attribute) \
                and st.value.func.attr == "_del" and isinstance(st.targets[0], ast.Tuple) \
                and isinstance(st.targets[0].elts[0], ast.Name):
            if isinstance(st.value.func.value, ast.Name):
                # the child is the object the delete is delegated to
                return i, st.targets[0].elts[0].id, idx, st.value.func.value.id
    raise AnalysisError("anchor vanished: `flag, value = child._del(key)` in _Tree._del")


def spec(removed, index0, empty, leaf):
    unl = (1 if (removed and not index0) else 0) + (1 if (empty and leaf and not index0) else 0)
    if empty and leaf and index0:
        fb = "child._next"
    elif removed and index0:
        fb = "child._firstbucket"
    else:
        fb = None
    return (["left sibling"] * unl, fb, bool(empty), bool((removed and index0) or (empty and leaf and index0)))


def table():
    tree = pyfront.base_py()
    fn = pyfront.class_members(pyfront.classes(tree)["_Tree"]).get("_del")
    if not isinstance(fn, ast.FunctionDef):
        raise AnalysisError("anchor vanished: _Tree._del")
    at, flagvar, idx, child = _anchor(fn)
    if idx is None or child is None:
        raise AnalysisError("anchor vanished: index / child locals of _Tree._del")
    out = {}
    for removed, index0, empty, leaf in itertools.product((True, False), repeat=4):
        if removed and leaf:
            continue
        w = Walk(fn, dict(removed=removed, index0=index0, empty=empty, leaf=leaf))
        w.flagvar, w.idx, w.child = flagvar, idx, child
        w.anchor_line = fn.body[at].lineno
        for a in ast.walk(fn):
            if isinstance(a, ast.Assign) and len(a.targets) == 1 and isinstance(a.targets[0], ast.Name) \
                    and pyfront.unparse(a.value) == "self._data":
                w.data_aliases.add(a.targets[0].id)
        p = _Path()
        p.flag = removed
        rest = w.block(fn.body[at + 1:], [p])
        if rest:
            raise AnalysisError("PY-DEL-TAIL: a path of _Tree._del ends without a return")
        outs = set((tuple(q.unlinks), q.fb, q.deleted, q.ret) for q in w.done)
        out[(removed, index0, empty, leaf)] = sorted(outs, key=repr)
    return out, fn


def py_check(res):
    t, fn = table()
    for key, outs in sorted(t.items()):
        want = spec(*key)
        want_t = (tuple(want[0]), want[1], want[2], want[3])
        for got in outs:
            if got != want_t:
                removed, index0, empty, leaf = key
                res.findings.add(dict(
                    rule="PY-DEL-TAIL", function="_Tree._del", file=REL, line=fn.lineno,
                    construct="child %s, %s, %s, %s: unlinks %s, _firstbucket %s, child %s, flag %s "
                              "(specified unlinks %s, _firstbucket %s, child %s, flag %s)" % (
                                  "lost its first leaf" if removed else "kept its first leaf",
                                  "child 0" if index0 else "not child 0", "now empty" if empty else "not empty",
                                  "a leaf" if leaf else "an interior node",
                                  list(got[0]), got[1] or "untouched", "removed" if got[2] else "kept", got[3],
                                  list(want_t[0]), want_t[1] or "untouched", "removed" if want_t[2] else "kept", want_t[3]),
                    detail="behind child._del(key) the node unlinks an emptied first leaf from its left "
                           "sibling exactly once, moves its own _firstbucket when its child 0 lost its "
                           "first leaf (also when that interior child became empty), drops an empty child "
                           "and tells its parent whether its own first leaf went away", path=[]))
                break
    res.count("PY-DEL-TAIL", len(t))
    return {repr(k): [repr(x) for x in v] for k, v in t.items()}
