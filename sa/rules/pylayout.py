"""Layout of the Python state codecs (C06 STATE-SHAPE), decided by an abstract
interpretation over *role streams*; names of locals and the concrete loop /
indexing idiom play no role.

Abstract values
  Src(kind)            one of the node's state lists: 'keys', 'values', 'data'
                       (self._keys / self._values / self._data) or the raw
                       input 'state' of a reader
  Elem(kind, pos)      an element of such a list at position pos, where pos is
                       an affine function  a*j + b  of the iteration number j
                       (a == 0: a fixed position)
  Field(elem, name)    .key / .child of a tree item
  Built(prefix, cycle) a list under construction: fixed prefix, then `cycle`
                       repeated once per iteration
  Iter(src, start)     iter(src) after `start` elements were taken with next()
  Cursor(src, pos)     list(reversed(src)) read with pop(): pop() yields
                       src[pos] and advances
  Tup([..])            a tuple / list literal

Writers yield the shapes of their return values; readers yield, for each state
list of the node, the positions of the input it is filled from.  Anything the
interpreter does not understand is an AnalysisError (exit 2), never a verdict.
"""
import ast

from ..common import AnalysisError, SRC
from .. import pyfront

REL = SRC + "/_base.py"
STATE_ATTRS = {"_keys": "keys", "_values": "values", "_data": "data"}


class Src(object):
    def __init__(self, kind, start=0, step=1):
        self.kind, self.start, self.step = kind, start, step

    def __repr__(self):
        if self.start == 0 and self.step == 1:
            return self.kind
        return "%s[%d::%d]" % (self.kind, self.start, self.step)


class Elem(object):
    def __init__(self, kind, a, b):
        self.kind, self.a, self.b = kind, a, b

    def __repr__(self):
        if self.a == 0:
            return "%s[%d]" % (self.kind, self.b)
        return "%s[%s%s]" % (self.kind, "%dj" % self.a if self.a != 1 else "j",
                             "%+d" % self.b if self.b else "")


class Field(object):
    def __init__(self, elem, name):
        self.elem, self.name = elem, name

    def __repr__(self):
        return "%r.%s" % (self.elem, self.name)


class Built(object):
    def __init__(self):
        self.prefix, self.cycle = [], []

    def __repr__(self):
        return "[%s | (%s)*]" % (", ".join(map(repr, self.prefix)), ", ".join(map(repr, self.cycle)))


class Iter(object):
    def __init__(self, src, start):
        self.src, self.start = src, start


class Cursor(object):
    def __init__(self, src):
        self.src = src
        self.a, self.b = 0, 0      # next position = a*j + b


class Tup(object):
    def __init__(self, items):
        self.items = items

    def __repr__(self):
        return "(%s)" % ", ".join(map(repr, self.items))


class Attr(object):
    """self.<attr> that is not a state list (e.g. _next, _firstbucket)"""
    def __init__(self, name):
        self.name = name

    def __repr__(self):
        return "self." + self.name


class Opaque(object):
    def __init__(self, what):
        self.what = what

    def __repr__(self):
        return "<%s>" % self.what


class Call(object):
    """result of a call we only describe: callee text and abstract args"""
    def __init__(self, fn, args):
        self.fn, self.args = fn, args

    def __repr__(self):
        return "%s(%s)" % (self.fn, ", ".join(map(repr, self.args)))


class _Ret(Exception):
    pass


class Layout(object):
    def __init__(self, fn, state_param=None):
        self.fn = fn
        self.env = {}
        self.returns = []        # abstract return values with their guards
        self.fills = {}          # state list -> list of abstract elements appended / extended
        self.attr_sets = {}      # self.<attr> = value
        self.loop = None         # inside a loop: iteration is symbolic
        self.state_param = state_param
        if state_param:
            self.env[state_param] = Src("state")

    # ---- expressions -----------------------------------------------------------
    def ev(self, e):
        if isinstance(e, ast.Constant):
            return e.value if isinstance(e.value, (int, type(None))) and not isinstance(e.value, bool) \
                else Opaque(repr(e.value))
        if isinstance(e, ast.Name):
            if e.id in self.env:
                return self.env[e.id]
            return Opaque(e.id)
        if isinstance(e, ast.Attribute):
            if isinstance(e.value, ast.Name) and e.value.id == "self":
                if e.attr in STATE_ATTRS:
                    return Src(STATE_ATTRS[e.attr])
                return Attr(e.attr)
            b = self.ev(e.value)
            if isinstance(b, Elem):
                return Field(b, e.attr)
            return Opaque(pyfront.unparse(e))
        if isinstance(e, (ast.Tuple, ast.List)):
            return Tup([self.ev(x) for x in e.elts])
        if isinstance(e, ast.Subscript):
            b = self._seq(self.ev(e.value))
            if isinstance(e.slice, ast.Slice):
                lo = self.ev(e.slice.lower) if e.slice.lower is not None else 0
                st = self.ev(e.slice.step) if e.slice.step is not None else 1
                if isinstance(b, Src) and isinstance(lo, int) and isinstance(st, int) and e.slice.upper is None:
                    return Src(b.kind, b.start + lo * b.step, b.step * st)
                if isinstance(b, Tup) and isinstance(lo, int) and e.slice.upper is None and st == 1:
                    return Tup(b.items[lo:])
                if isinstance(b, (Cursor, Opaque, Built)):
                    return Opaque("slice of %s" % pyfront.unparse(e.value))
                raise AnalysisError("layout: slice %s (line %s)" % (pyfront.unparse(e), e.lineno))
            idx = self.index(e.slice)
            if isinstance(b, Src) and idx is not None:
                return Elem(b.kind, b.step * idx[0], b.start + b.step * idx[1])
            if isinstance(b, Tup) and idx is not None and idx[0] == 0 and 0 <= idx[1] < len(b.items):
                return b.items[idx[1]]
            if isinstance(b, Elem) and idx is not None:
                # element of an element (state[0][0]): keep as opaque path
                return Opaque("%r[%s]" % (b, pyfront.unparse(e.slice)))
            return Opaque(pyfront.unparse(e))
        if isinstance(e, ast.Call):
            return self.call(e)
        if isinstance(e, ast.BinOp) or isinstance(e, ast.UnaryOp):
            idx = self.index(e)
            if idx is not None and idx[0] == 0:
                return idx[1]
            return Opaque(pyfront.unparse(e))
        if isinstance(e, (ast.GeneratorExp, ast.ListComp)):
            return self.comp(e)
        if isinstance(e, (ast.Compare, ast.BoolOp, ast.IfExp, ast.JoinedStr)):
            return Opaque(pyfront.unparse(e)[:40])
        raise AnalysisError("layout: expression %s (line %s)" % (pyfront.unparse(e)[:50], e.lineno))

    @staticmethod
    def _seq(v):
        """the first element of the raw state is the item sequence"""
        if isinstance(v, Elem) and v.kind == "state" and v.a == 0 and v.b == 0:
            return Src("items")
        return v

    def index(self, e):
        """affine (a, b) in the iteration number, or None"""
        if isinstance(e, ast.Constant) and isinstance(e.value, int) and not isinstance(e.value, bool):
            return (0, e.value)
        if isinstance(e, ast.Name):
            v = self.env.get(e.id)
            if isinstance(v, tuple) and len(v) == 2 and v[0] == "idx":
                return v[1]
            if isinstance(v, int):
                return (0, v)
            return None
        if isinstance(e, ast.UnaryOp) and isinstance(e.op, ast.USub):
            v = self.index(e.operand)
            return None if v is None else (-v[0], -v[1])
        if isinstance(e, ast.BinOp) and isinstance(e.op, (ast.Add, ast.Sub)):
            a, b = self.index(e.left), self.index(e.right)
            if a is None or b is None:
                return None
            s = 1 if isinstance(e.op, ast.Add) else -1
            return (a[0] + s * b[0], a[1] + s * b[1])
        if isinstance(e, ast.BinOp) and isinstance(e.op, ast.Mult):
            a, b = self.index(e.left), self.index(e.right)
            if a is None or b is None:
                return None
            if a[0] == 0:
                return (a[1] * b[0], a[1] * b[1])
            if b[0] == 0:
                return (b[1] * a[0], b[1] * a[1])
        return None

    def call(self, c):
        fname = pyfront.unparse(c.func)
        args = [self.ev(a) for a in c.args]
        if fname in ("tuple", "list", "iter", "reversed", "len") and len(args) == 1:
            args[0] = self._seq(args[0])
        if fname in ("tuple", "list") and len(args) == 1:
            return args[0]
        if fname == "len" and len(args) == 1:
            return Call("len", args)
        if fname == "iter" and len(args) == 1 and isinstance(args[0], Src):
            return Iter(args[0], 0)
        if fname == "reversed" and len(args) == 1 and isinstance(args[0], Src):
            return Cursor(args[0])
        if fname == "reversed" and len(args) == 1 and isinstance(args[0], (Tup, Built)):
            t = args[0] if isinstance(args[0], Tup) else Tup(list(args[0].prefix))
            return Cursor(t)
        if fname == "next" and len(args) == 1 and isinstance(args[0], Iter):
            it = args[0]
            if self.loop is not None:
                raise AnalysisError("layout: next() inside a loop (line %s)" % c.lineno)
            el = Elem(it.src.kind, 0, it.src.start + it.start * it.src.step)
            it.start += 1
            return el
        bound = None
        if isinstance(c.func, ast.Name):
            bv = self.env.get(c.func.id)
            if isinstance(bv, tuple) and len(bv) == 3 and bv[0] == "bound":
                bound = bv
        if isinstance(c.func, ast.Attribute) or bound is not None:
            if bound is not None:
                base, meth = bound[1], bound[2]          # `add = self._keys.append` ... `add(x)`
            else:
                base = self.ev(c.func.value)
                meth = c.func.attr
            if isinstance(base, Cursor) and meth == "pop" and not args and isinstance(base.src, Tup):
                if base.b >= len(base.src.items):
                    raise AnalysisError("layout: pop() from an exhausted sequence (line %s)" % c.lineno)
                base.b += 1
                return base.src.items[base.b - 1]
            if isinstance(base, Cursor) and meth == "pop" and not args:
                el = Elem(base.src.kind, 0, base.src.start + base.b * base.src.step)
                base.b += 1
                if self.loop is not None:
                    self.loop.setdefault("cursors", {}).setdefault(id(base), [base, []])[1].append(el)
                return el
            if isinstance(base, Built) and meth in ("append", "extend"):
                items = [args[0]] if meth == "append" else (
                    args[0].items if isinstance(args[0], Tup) else None)
                if items is None:
                    raise AnalysisError("layout: extend with %r (line %s)" % (args[0], c.lineno))
                (base.cycle if self.loop is not None else base.prefix).extend(items)
                return None
            if isinstance(base, Src) and base.kind in ("keys", "values", "data") and meth in ("append", "extend"):
                tgt = self.fills.setdefault(base.kind, [])
                if meth == "append":
                    tgt.append(("each" if self.loop is not None else "once", args[0]))
                else:
                    tgt.append(("all", self._seq(args[0])))
                return None
            if meth == "__getstate__" and not args:
                return Call("getstate", [base])
            if meth == "__setstate__" and len(args) == 1:
                self.attr_sets.setdefault("<child>.__setstate__", []).append(args[0])
                return None
            if meth == "clear" and isinstance(base, Opaque) and base.what == "self":
                return None
        if fname in ("_TreeItem",) and len(args) == 2:
            return Call("item", args)
        if fname == "isinstance" or fname == "type" or fname.startswith("_tp_name"):
            return Opaque(fname)
        if fname in ("range", "enumerate", "zip"):
            return Call(fname, args + [("node", c)])
        callee_v = self.ev(c.func) if isinstance(c.func, (ast.Name, ast.Attribute)) else None
        if isinstance(callee_v, Attr) and callee_v.name == "_bucket_type" and not args:
            return Opaque("fresh leaf")
        if isinstance(c.func, ast.Attribute) and pyfront.unparse(c.func.value) == "self":
            return Call("self." + c.func.attr, args)
        return Call(fname, args)

    # ---- statements --------------------------------------------------------------
    def bind_loop(self, target, it_expr):
        """bind the loop target(s) for a symbolic iteration j"""
        it = self._seq(self.ev(it_expr))

        def elem_of(src):
            src = self._seq(src)
            if isinstance(src, Src):
                return Elem(src.kind, src.step, src.start)
            if isinstance(src, Iter):
                return Elem(src.src.kind, src.src.step, src.src.start + src.start * src.src.step)
            return None
        if isinstance(it, (Src, Iter)):
            if isinstance(target, ast.Name):
                self.env[target.id] = elem_of(it)
                return
        if isinstance(it, Call) and it.fn == "range":
            node = it.args[-1][1]
            a = [self.index(x) for x in node.args]
            start, step = (0, 0), (0, 1)
            if len(node.args) >= 2:
                start = a[0]
            if len(node.args) == 3:
                step = a[2]
            if isinstance(target, ast.Name) and start is not None and step is not None \
                    and start[0] == 0 and step[0] == 0:
                self.env[target.id] = ("idx", (step[1], start[1]))
                return
        if isinstance(it, Call) and it.fn == "enumerate" and isinstance(target, ast.Tuple) and len(target.elts) == 2:
            node = it.args[-1][1]
            src = self.ev(node.args[0])
            start = self.index(node.args[1]) if len(node.args) > 1 else (0, 0)
            el = elem_of(src)
            if el is not None and start is not None and start[0] == 0 and \
                    all(isinstance(t, ast.Name) for t in target.elts):
                self.env[target.elts[0].id] = ("idx", (1, start[1]))
                self.env[target.elts[1].id] = el
                return
        if isinstance(it, Call) and it.fn == "zip" and isinstance(target, ast.Tuple):
            node = it.args[-1][1]
            srcs = [self.ev(x) for x in node.args]
            els = [elem_of(s) for s in srcs]
            if len(els) == len(target.elts) and all(e is not None for e in els) and \
                    all(isinstance(t, ast.Name) for t in target.elts):
                for t, e in zip(target.elts, els):
                    self.env[t.id] = e
                return
        if isinstance(it, (Opaque, Cursor)) or (isinstance(it, Call) and it.fn not in ("range", "enumerate", "zip")):
            # a loop over something we do not model (e.g. a validation pass
            # over a slice): its targets are opaque
            for t in ([target] if isinstance(target, ast.Name) else getattr(target, "elts", [])):
                if isinstance(t, ast.Name):
                    self.env[t.id] = Opaque(t.id)
            return
        raise AnalysisError("layout: loop over %s (line %s)" % (pyfront.unparse(it_expr)[:50], it_expr.lineno))

    def assign(self, target, val, node):
        if isinstance(target, ast.Name):
            self.env[target.id] = val
        elif isinstance(target, ast.Attribute) and isinstance(target.value, ast.Name) and target.value.id == "self":
            self.attr_sets.setdefault(target.attr, []).append(val)
        elif isinstance(target, (ast.Tuple, ast.List)):
            if isinstance(val, Tup) and len(val.items) == len(target.elts):
                for t, v in zip(target.elts, val.items):
                    self.assign(t, v, node)
            elif isinstance(val, Src):
                # unpacking the raw state:  a, b = state
                for i, t in enumerate(target.elts):
                    self.assign(t, Elem(val.kind, 0, val.start + i * val.step), node)
            else:
                raise AnalysisError("layout: unpacking %r (line %s)" % (val, node.lineno))
        else:
            raise AnalysisError("layout: store to %s (line %s)" % (pyfront.unparse(target), node.lineno))

    def stmt(self, st, guards):
        if isinstance(st, ast.Expr):
            if isinstance(st.value, ast.Constant):
                return
            self.ev(st.value)
            return
        if isinstance(st, ast.Assign):
            v = st.value
            if isinstance(v, ast.List) and not v.elts:
                val = Built()
            elif isinstance(v, ast.List):
                val = Built()
                val.prefix = [self.ev(x) for x in v.elts]
            elif isinstance(v, ast.Attribute) and v.attr in ("append", "extend", "pop"):
                val = ("bound", self.ev(v.value), v.attr)       # a bound method kept in a local
            else:
                val = self.ev(v)
                # an element of the raw state that is itself a sequence
                if isinstance(val, Elem) and val.kind == "state" and val.a == 0:
                    pass
            for t in st.targets:
                self.assign(t, val, st)
            return
        if isinstance(st, ast.Return):
            self.returns.append((list(guards), self.ev(st.value) if st.value is not None else None))
            raise _Ret()
        if isinstance(st, ast.Raise):
            raise _Ret()
        if isinstance(st, ast.If):
            raise AssertionError("handled in block()")
        if isinstance(st, (ast.For, ast.While)):
            if self.loop is not None:
                raise AnalysisError("layout: nested loop (line %s)" % st.lineno)
            self.loop = {}
            saved_env = dict(self.env)
            if isinstance(st, ast.For):
                self.bind_loop(st.target, st.iter)
            skip = False
            if isinstance(st, ast.While) and isinstance(st.test, ast.Compare) and len(st.test.ops) == 1 and \
                    isinstance(st.test.ops[0], (ast.Lt, ast.NotEq)) and isinstance(st.test.left, ast.Name):
                # `while i < n: ... i += k`: i is the induction variable k*j + i0
                iv = st.test.left.id
                i0 = self.index(ast.Name(id=iv, ctx=ast.Load()))
                steps = [x for x in st.body if isinstance(x, ast.AugAssign) and isinstance(x.target, ast.Name)
                         and x.target.id == iv and isinstance(x.op, ast.Add)
                         and isinstance(x.value, ast.Constant) and isinstance(x.value.value, int)]
                others = [x for x in ast.walk(st) if isinstance(x, (ast.Assign, ast.AugAssign)) and x not in steps and any(
                    isinstance(t, ast.Name) and t.id == iv
                    for t in (x.targets if isinstance(x, ast.Assign) else [x.target]))]
                if i0 is not None and i0[0] == 0 and len(steps) == 1 and steps[0] is st.body[-1] and not others:
                    self.env[iv] = ("idx", (steps[0].value.value, i0[1]))
                    st = ast.While(test=st.test, body=list(st.body[:-1]), orelse=[])
                    ast.copy_location(st, steps[0])
            if isinstance(st, ast.While) and isinstance(st.test, ast.Name):
                cv = self.env.get(st.test.id)
                if isinstance(cv, Cursor) and isinstance(cv.src, Tup) and cv.b >= len(cv.src.items):
                    skip = True          # an exhausted finite cursor: the loop does not run
            try:
                if not skip:
                    self.block(list(st.body), guards + ["loop"])
            except _Ret:
                pass
            # a cursor popped c times per iteration reads position c*j + b_k
            for base, els in self.loop.get("cursors", {}).values():
                for el in els:
                    el.a = len(els) * getattr(base.src, "step", 1)
            self.loop = None
            # loop-local names do not survive (except containers, shared by reference)
            for k in list(self.env):
                if k not in saved_env:
                    del self.env[k]
            return
        if isinstance(st, (ast.Pass, ast.Assert)):
            return
        if isinstance(st, ast.AugAssign) and isinstance(st.op, ast.Add) and isinstance(st.target, ast.Name):
            base = self.env.get(st.target.id)
            if isinstance(base, Built):
                # seq += (a, b)  is  seq.extend((a, b))
                v = self.ev(st.value)
                items = v.items if isinstance(v, Tup) else None
                if items is None:
                    raise AnalysisError("layout: += with %r (line %s)" % (v, st.lineno))
                (base.cycle if self.loop is not None else base.prefix).extend(items)
                return
        raise AnalysisError("layout: statement %s (line %s)" % (type(st).__name__, st.lineno))

    def block(self, stmts, guards):
        """run a statement list; an `if` forks: each branch continues with the
        rest of the list on its own copy of the environment (facts are
        accumulated over all paths)"""
        import copy
        for k, st in enumerate(stmts):
            if isinstance(st, ast.If):
                test = pyfront.unparse(st.test)
                rest = stmts[k + 1:]
                saved = self.env
                fell_any = False
                known = self.truth(st.test)
                for branch, g in ((st.body, test), (st.orelse, "not (%s)" % test)):
                    if known is not None and known != (branch is st.body):
                        continue             # the test is decided by the abstract value
                    self.env = copy.deepcopy(saved)
                    try:
                        self.block(list(branch) + list(rest), guards + [g])
                        fell_any = True
                    except _Ret:
                        pass
                if not fell_any:
                    raise _Ret()
                return
            self.stmt(st, guards)

    def truth(self, t):
        """True / False where the abstract value decides `x is None` / `x is not
        None` (x known to be None, or known to be a node's list / item / tuple),
        else None"""
        if isinstance(t, ast.UnaryOp) and isinstance(t.op, ast.Not):
            v = self.truth(t.operand)
            return None if v is None else not v
        if isinstance(t, ast.Compare) and len(t.ops) == 1 and isinstance(t.ops[0], (ast.Is, ast.IsNot)) and \
                isinstance(t.comparators[0], ast.Constant) and t.comparators[0].value is None and \
                isinstance(t.left, ast.Name) and t.left.id in self.env:
            v = self.env[t.left.id]
            if v is None:
                return isinstance(t.ops[0], ast.Is)
            if isinstance(v, (Src, Tup, Built, Cursor, Iter)):
                return isinstance(t.ops[0], ast.IsNot)
        return None

    def comp(self, e):
        """[elt for x in <symbolic sequence> (for y in (a, b))*]: a list built
        with one cycle per iteration"""
        if self.loop is not None or any(g.ifs or g.is_async for g in e.generators):
            return Opaque(pyfront.unparse(e)[:40])
        saved = dict(self.env)
        self.loop = {}
        try:
            g0 = e.generators[0]
            try:
                self.bind_loop(g0.target, g0.iter)
            except AnalysisError:
                return Opaque(pyfront.unparse(e)[:40])

            def unroll(gens):
                if not gens:
                    return [self.ev(e.elt)]
                g = gens[0]
                seq = self.ev(g.iter)
                if not isinstance(seq, Tup) or not isinstance(g.target, ast.Name):
                    raise AnalysisError("layout: comprehension over %s (line %s)" % (
                        pyfront.unparse(g.iter)[:40], e.lineno))
                out = []
                for item in seq.items:
                    self.env[g.target.id] = item
                    out.extend(unroll(gens[1:]))
                return out
            cyc = unroll(e.generators[1:])
        finally:
            self.loop = None
            self.env = saved
        if len(cyc) == 1 and isinstance(cyc[0], Elem) and cyc[0].a == 1 and cyc[0].b == 0:
            return Src(cyc[0].kind)          # [x for x in seq] is seq
        if any(isinstance(c, Opaque) for c in cyc):
            return Opaque(pyfront.unparse(e)[:40])
        b = Built()
        b.cycle = cyc
        return b

    def run(self):
        try:
            self.block(list(self.fn.body), [])
        except _Ret:
            pass
        return self


class _Rename(ast.NodeTransformer):
    def __init__(self, m):
        self.m = m

    def visit_Name(self, n):
        if n.id in self.m:
            return ast.copy_location(ast.Name(id=self.m[n.id], ctx=n.ctx), n)
        return n


def _has_exit(st):
    return any(isinstance(x, (ast.Return, ast.Raise)) for x in ast.walk(st))


def _inlinable(stmts):
    """statement kinds a helper may consist of: straight-line statements, `if`
    (with returns / raises inside), loops without an exit"""
    for st in stmts:
        if isinstance(st, (ast.Assign, ast.Expr, ast.AugAssign, ast.Return, ast.Raise, ast.Pass)):
            continue
        if isinstance(st, ast.If) and _inlinable(st.body) and _inlinable(st.orelse):
            continue
        if isinstance(st, (ast.For, ast.While)) and not _has_exit(st):
            continue
        return False
    return True


def _retify(stmts, mk):
    """the statement list with `return e` replaced by the statements mk(e): code
    after an `if` that contains an exit is moved into both branches, so the
    result has no return in the middle of a list"""
    import copy
    out = []
    for k, st in enumerate(stmts):
        if isinstance(st, ast.Return):
            out.extend(mk(st.value if st.value is not None else ast.Constant(value=None)))
            return out
        if isinstance(st, ast.Raise):
            out.append(st)
            return out
        if isinstance(st, ast.If) and _has_exit(st):
            rest = stmts[k + 1:]
            b = _retify(list(st.body) + copy.deepcopy(rest), mk)
            o = _retify(list(st.orelse) + copy.deepcopy(rest), mk)
            out.append(ast.copy_location(ast.If(test=st.test, body=b or [ast.Pass()], orelse=o), st))
            return out
        out.append(st)
    out.extend(mk(ast.Constant(value=None)))
    return out


def _expand_helpers(tree, kind, fn, depth=0):
    """the codec with calls of helper methods of its class (`x = self.h(a)`,
    `a, b = self.h(c)`, `return self.h(a)`, `self.h(a)`) replaced by the helper's
    body - parameters and locals renamed, each `return e` of the helper turned
    into the caller's statement with e (_retify) - so the layout interpreter
    sees one function"""
    import copy
    counter = [0]

    def helper_of(v):
        if isinstance(v, ast.Call) and isinstance(v.func, ast.Attribute) and isinstance(v.func.value, ast.Name) \
                and v.func.value.id == "self" and not v.keywords:
            r = pyfront.resolve(tree, kind, v.func.attr)
            if r is not None and isinstance(r[1], ast.FunctionDef) and r[1] is not fn:
                h = r[1]
                body = [x for x in h.body if not (isinstance(x, ast.Expr) and isinstance(x.value, ast.Constant))]
                if body and len(h.args.args) - 1 == len(v.args) and not h.args.vararg and not h.args.kwarg and \
                        not h.decorator_list and _inlinable(body) and \
                        any(isinstance(x, ast.Return) and x.value is not None for x in ast.walk(h)):
                    return h, body
        return None

    def expand(stmts, depth):
        out = []
        for st in stmts:
            v = st.value if isinstance(st, (ast.Assign, ast.Return, ast.Expr)) else None
            h = helper_of(v) if v is not None else None
            if h is not None and depth < 3:
                hfn, body = h
                counter[0] += 1
                tag = "%s_%d" % (hfn.name, counter[0])
                m = {}
                pre = []
                for p_, a in zip(hfn.args.args[1:], v.args):
                    fresh = "__%s_%s" % (tag, p_.arg)
                    m[p_.arg] = fresh
                    pre.append(ast.copy_location(ast.Assign(targets=[ast.Name(id=fresh, ctx=ast.Store())],
                                                            value=a), st))
                # locals of the helper get fresh names too
                for x in body:
                    for t in ast.walk(x):
                        if isinstance(t, ast.Name) and isinstance(t.ctx, ast.Store) and t.id not in m:
                            m[t.id] = "__%s_%s" % (tag, t.id)
                rn = _Rename(m)
                inl = [rn.visit(copy.deepcopy(x)) for x in body]
                if isinstance(st, ast.Assign):
                    mk = lambda e, st=st: [ast.copy_location(ast.Assign(targets=copy.deepcopy(st.targets), value=e), st)]
                elif isinstance(st, ast.Return):
                    mk = lambda e, st=st: [ast.copy_location(ast.Return(value=e), st)]
                else:
                    mk = lambda e, st=st: [ast.copy_location(ast.Expr(value=e), st)]
                new = pre + _retify(inl, mk)
                for x in new:
                    ast.fix_missing_locations(x)
                out.extend(expand(new, depth + 1))
                continue
            for field in ("body", "orelse"):
                if isinstance(getattr(st, field, None), list) and getattr(st, field) and \
                        isinstance(getattr(st, field)[0], ast.stmt):
                    setattr(st, field, expand(getattr(st, field), depth))
            out.append(st)
        return out
    fn2 = copy.deepcopy(fn)
    fn2.body = expand(fn2.body, depth)
    return fn2


def analyse(kind, meth):
    tree = pyfront.base_py()
    r = pyfront.resolve(tree, kind, meth)
    if r is None or r[1] is None:
        raise AnalysisError("anchor vanished: %s.%s" % (kind, meth))
    fn = r[1]
    sp = fn.args.args[1].arg if meth == "__setstate__" else None
    return Layout(_expand_helpers(tree, kind, fn), sp).run(), fn


def facts():
    out = {}
    for kind, key in (("Bucket", "leaf"), ("Set", "set"), ("_Tree", "tree")):
        w, _ = analyse(kind, "__getstate__")
        out[key + "_writer"] = {"returns": sorted(set(repr(v) for _g, v in w.returns))}
        rd, _ = analyse(kind, "__setstate__")
        def uniq(xs):
            out = []
            for x in xs:
                if x not in out:
                    out.append(x)
            return out
        f = {"fills": {k: sorted(uniq([(how, repr(v)) for how, v in vs])) for k, vs in sorted(rd.fills.items())},
             "attrs": {k: sorted(set(repr(v) for v in vs)) for k, vs in sorted(rd.attr_sets.items())}}
        out[key + "_reader"] = f
    return out


SPEC = {
    "leaf_writer": {"returns": ["([ | (keys[j], values[j])*])", "([ | (keys[j], values[j])*], self._next)"]},
    "set_writer": {"returns": ["(keys)", "(keys, self._next)"]},
    "tree_writer": {"returns": ["((getstate(data[0].child)))",
                                "([data[0].child | (data[j+1].key, data[j+1].child)*], self._firstbucket)",
                                "None"]},
    "leaf_reader": {"fills": {"keys": [("each", "items[2j]")], "values": [("each", "items[2j+1]")]},
                    "attrs": {"_next": ["None", "state[1]"]}},
    "set_reader": {"fills": {"keys": [("all", "items")]}, "attrs": {"_next": ["None", "state[1]"]}},
    "tree_reader": {"fills": {"data": [("each", "item(items[2j+1], items[2j+2])"),
                                       ("once", "item(None, <fresh leaf>)"),
                                       ("once", "item(None, items[0])")]},
                    "attrs": {"<child>.__setstate__": ["items[0]"],
                              "_firstbucket": ["<fresh leaf>", "state[1]"]}},
}
