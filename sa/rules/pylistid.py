"""PY-LIST-IDENTITY (C15, Python): the state lists of a leaf keep their identity.

The lazy iterators of the Python leaves capture the lists themselves
(`iteritems`: `keys = self._keys; values = self._values; return ((keys[i],
values[i]) for i in ...)`): a parked iteration and the node stay consistent only
while every mutation changes those lists *in place*.  Rule: in the leaf classes
`self._keys` / `self._values` are (re)bound only by the whole-state operations
(`clear`, `__init__`, `__setstate__`, `_p_deactivate`); any other method that
assigns them detaches a parked iterator - it goes on pairing the live key list
with a dead value list (pairs that were never stored).
"""
import ast

from ..common import AnalysisError, SRC
from .. import pyfront

REL = SRC + "/_base.py"
LEAVES = ("_BucketBase", "Bucket", "Set", "_SetBase", "_MappingBase")
WHOLE_STATE = ("clear", "__init__", "__setstate__", "_p_deactivate", "_p_invalidate")
LISTS = ("_keys", "_values")


def check(res):
    tree = pyfront.base_py()
    cls = pyfront.classes(tree)
    capturing = 0
    n = 0
    for cname in LEAVES:
        c = cls.get(cname)
        if c is None:
            continue
        for fn in c.body:
            if not isinstance(fn, ast.FunctionDef):
                continue
            # iterators that capture the lists
            local_alias = set()
            for a in ast.walk(fn):
                if isinstance(a, ast.Assign) and isinstance(a.value, ast.Attribute) and \
                        pyfront.unparse(a.value.value) == "self" and a.value.attr in LISTS:
                    local_alias |= set(t.id for t in a.targets if isinstance(t, ast.Name))
            for g in ast.walk(fn):
                if isinstance(g, ast.GeneratorExp) and any(
                        isinstance(x, ast.Name) and x.id in local_alias for x in ast.walk(g)):
                    capturing += 1
            if fn.name in WHOLE_STATE:
                continue
            for a in ast.walk(fn):
                targets = []
                if isinstance(a, ast.Assign):
                    targets = a.targets
                elif isinstance(a, (ast.AugAssign, ast.AnnAssign)):
                    targets = [a.target]
                for t in targets:
                    for x in ast.walk(t):
                        if isinstance(x, ast.Attribute) and isinstance(x.ctx, ast.Store) and \
                                pyfront.unparse(x.value) == "self" and x.attr in LISTS:
                            n += 1
                            if isinstance(a, ast.AugAssign):
                                continue              # += on a list is in place
                            res.findings.add(dict(
                                rule="PY-LIST-IDENTITY", function="%s.%s" % (cname, fn.name), file=REL,
                                line=a.lineno, construct="self.%s rebound in %s.%s" % (x.attr, cname, fn.name),
                                detail="a parked items()/iteritems() iteration holds the list that was "
                                       "self.%s; after this assignment it reads a list the node no longer "
                                       "uses, next to the live key list: it yields pairs that were never "
                                       "stored (mutating while iterating must be safe)" % x.attr, path=[]))
    if capturing < 1:
        raise AnalysisError("anchor vanished: no lazy iterator of the Python leaves captures a state list")
    res.count("PY-LIST-IDENTITY", capturing + n)
