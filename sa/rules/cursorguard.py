"""Mutating while iterating (C15): memory safety of the cursors.

INDEX-GUARD      an index taken from a cursor field that survives across
                 Python calls (currentoffset, position, a sequence index) is
                 used to subscript a bucket only under a dominating bounds
                 test against that bucket's *current* len (or after a
                 successful BTreeItems_seek, which validates it)
CURSOR-SENTINEL  a constant stored into such a field is one the guards of its
                 consumers catch (an upper-bound-only guard needs a value
                 >= any len; a negative marker needs a lower-bound test)
CURSOR-EXC       when the bounds test fails, only RuntimeError / IndexError
                 is raised
NEXT-NULL        a pointer loaded from a leaf's `next` link is NULL-tested
                 before it is dereferenced (the chain may have been cut)
"""
from ..cir import strip, strip_parens, path, callee, text, const_int
from ..cfg import CFG
from ..flow import Analysis, sget, sset, sdel, witness_lines
from ..common import AnalysisError

CURSOR_FIELDS = ("currentoffset", "position")
INT_MAX = 2 ** 31 - 1


def _mentions_cursor(e, cursor_locals):
    for n in e.walk():
        if n.k == "MemberExpr" and n.n in CURSOR_FIELDS:
            return True
        if n.k == "DeclRefExpr" and n.n in cursor_locals:
            return True
    return False


def _cursor_locals(fn):
    """locals initialised / assigned from a cursor field, and index params"""
    out = set()
    for n in fn.walk():
        rhs = None
        name = None
        if n.k == "VarDecl" and n.kids and n.kids[-1].k != "Absent":
            name, rhs = n.n, n.kids[-1]
        elif n.k == "BinaryOperator" and n.v == "=":
            l0 = strip(n.kids[0])
            if l0 is not None and l0.k == "DeclRefExpr":
                name, rhs = l0.n, n.kids[1]
        if rhs is not None and name and any(
                m.k == "MemberExpr" and m.n in CURSOR_FIELDS for m in rhs.walk()):
            out.add(name)
    return out


def index_guard(tu):
    findings = []
    uses = 0
    sentinel_facts = {}
    upper_only_fields = set()
    lower_tested_fields = set()
    for name in tu.order:
        fn = tu.funcs[name]
        clocals = _cursor_locals(fn)
        params = [k for k in fn.kids if k.k == "ParmVarDecl"]
        seq_index = set()
        if name in ("set_item",):
            seq_index = set(p.n for p in params[1:2])
        sites = []      # (node in AST, bucket expr, index expr)
        for n in fn.walk():
            if n.k == "CallExpr" and callee(n) == ("fn", "getBucketEntry") and len(n.kids) > 2:
                sites.append((n, n.kids[1], n.kids[2]))
            elif n.k == "ArraySubscriptExpr":
                b = strip(n.kids[0])
                if b is not None and b.k == "MemberExpr" and b.n in ("keys", "values"):
                    idx = n.kids[1]
                    if _mentions_cursor(idx, clocals | seq_index):
                        sites.append((n, b.kids[0], idx))
        sites = [(n, b, i) for n, b, i in sites
                 if _mentions_cursor(i, clocals | seq_index)]
        if not sites:
            continue
        cfg = CFG(fn)
        dom = cfg.dominators()
        live = cfg.live_nodes()

        def holder(x):
            for nd in live:
                if nd.e is not None and any(y is x for y in nd.e.walk()):
                    return nd
            return None

        def reach(start, stop):
            seen, st = set(), [start]
            while st:
                q = st.pop()
                if q.id in seen or q is stop:
                    continue
                seen.add(q.id)
                st.extend(s for _, s in q.succ)
            return seen
        def releases_between(passing, h):
            """a Py_DECREF-family call on some path from the guard's passing edge
            to the use: releasing an object runs arbitrary code (finalizer,
            weak-reference callback), which can shrink the bucket the guard
            looked at"""
            fwd = reach(passing, h)
            for nd in live:
                if nd.id not in fwd or nd is h or nd.e is None:
                    continue
                if h.id not in reach(nd, None) and nd is not h:
                    continue
                for c in nd.e.walk():
                    if c.k == "CallExpr" and callee(c)[0] == "fn" and callee(c)[1] in (
                            "Py_DECREF", "Py_XDECREF", "Py_CLEAR", "Py_DecRef"):
                        return c
            return None
        for site, bexp, iexp in sites:
            h = holder(site)
            if h is None:
                continue
            uses += 1
            bt, it = path(bexp) or text(bexp), text(strip(iexp))
            ok = False
            lower = False
            spoiled = None
            for g in live:
                if g.kind != "branch" or g.e is None or g.id not in dom[h.id] or g is h:
                    continue
                e = strip(g.e)
                if e.k == "BinaryOperator" and e.v in (">=", "<", ">", "<="):
                    a, b = strip(e.kids[0]), strip(e.kids[1])
                    ta = text(a)
                    # I >= B->len  /  I < B->len
                    if b.k == "MemberExpr" and b.n == "len" and (path(b.kids[0]) or text(b.kids[0])) == bt \
                            and ta == it and e.v in (">=", "<"):
                        fail = "T" if e.v == ">=" else "F"
                        fs = [s for l, s in g.succ if l == fail]
                        if fs and h.id not in reach(fs[0], g):
                            ps = [s for l, s in g.succ if l != fail]
                            rel = releases_between(ps[0], h) if ps else None
                            if rel is None:
                                ok = True
                            else:
                                spoiled = rel
                    # lower bound: I >= 0 / I < 0
                    if ta == it and const_int(b) == 0 and e.v in (">=", "<"):
                        lower = True
                    if a.k == "CallExpr" and callee(a) == ("fn", "BTreeItems_seek") and \
                            const_int(b) == 0:
                        fail = "T" if e.v == "<" else "F"
                        fs = [s for l, s in g.succ if l == fail]
                        if fs and h.id not in reach(fs[0], g):
                            ps = [s for l, s in g.succ if l != fail]
                            rel = releases_between(ps[0], h) if ps else None
                            lower = True
                            if rel is None:
                                ok = True
                            else:
                                spoiled = rel
            fld = [m.n for m in strip(iexp).walk() if m.k == "MemberExpr" and m.n in CURSOR_FIELDS]
            for v in clocals:
                if any(d.k == "DeclRefExpr" and d.n == v for d in strip(iexp).walk()):
                    # which field feeds the local
                    for n2 in fn.walk():
                        if (n2.k == "VarDecl" and n2.n == v) or (
                                n2.k == "BinaryOperator" and n2.v == "=" and path(n2.kids[0]) == v):
                            fld += [m.n for m in n2.walk() if m.k == "MemberExpr" and m.n in CURSOR_FIELDS]
            for f in set(fld):
                key = (name, f)
                if lower:
                    lower_tested_fields.add(key)
                else:
                    upper_only_fields.add(key)
            if not ok and spoiled is not None:
                findings.append(dict(
                    rule="INDEX-GUARD", function=name, file=site.f, line=site.l,
                    construct="%s subscripted with cursor index %s after an object was released behind the bounds test"
                              % (bt, it[:40]),
                    detail="between the test that validated %s against %s->len and this use, %s releases "
                           "an object (line %s): its finalizer / weak-reference callback is arbitrary code "
                           "that can shrink or empty the bucket, and the use then reads freed or "
                           "out-of-bounds memory" % (it[:40], bt, text(spoiled)[:40], spoiled.l), path=[]))
            elif not ok:
                findings.append(dict(
                    rule="INDEX-GUARD", function=name, file=site.f, line=site.l,
                    construct="%s subscripted with cursor index %s without bounds test" % (bt, it[:40]),
                    detail="the index %s comes from a cursor that survives "
                           "calls into Python, and is used on %s without a "
                           "dominating test against %s->len on this path: "
                           "after the bucket shrank this reads freed / "
                           "out-of-bounds memory" % (it[:40], bt, bt), path=[]))
    # CURSOR-SENTINEL: constant stores into cursor fields
    stores = 0
    for name in tu.order:
        fn = tu.funcs[name]
        for a in fn.walk():
            if a.k == "BinaryOperator" and a.v == "=":
                l0 = strip(a.kids[0])
                if l0 is not None and l0.k == "MemberExpr" and l0.n in CURSOR_FIELDS:
                    c = const_int(a.kids[1])
                    if c is None:
                        continue
                    stores += 1
                    fld = l0.n
                    uppers = [k for k in upper_only_fields if k[1] == fld]
                    if c < 0 and uppers:
                        findings.append(dict(
                            rule="CURSOR-SENTINEL", function=name, file=a.f, line=a.l,
                            construct="%s = %d but %s tests only the upper bound" % (
                                text(l0), c, ", ".join(sorted(set(u[0] for u in uppers)))),
                            detail="a negative marker is stored into the "
                                   "cursor field %s, whose consumer(s) %s guard "
                                   "the subscript only with `index >= len`: the "
                                   "next step subscripts the bucket at a "
                                   "negative index" % (fld, sorted(set(u[0] for u in uppers))), path=[]))
    return dict(findings=findings, uses=uses, stores=stores)


def seek_validates(tu):
    """SEEK-VALIDATES: INDEX-GUARD trusts a successful BTreeItems_seek.  The
    position it commits (self->currentbucket / self->currentoffset) must have
    been tested `0 <= offset < bucket->len` against the *current* len of that
    very bucket, with the failing side unable to reach the commit."""
    fn = tu.func("BTreeItems_seek")
    cfg = CFG(fn)
    dom = cfg.dominators()
    live = cfg.live_nodes()
    stores = {}
    for nd in live:
        if nd.e is None:
            continue
        for a in nd.e.walk():
            if a.k == "BinaryOperator" and a.v == "=":
                lp = path(a.kids[0]) or ""
                if lp.endswith("->currentoffset") or lp.endswith("->currentbucket"):
                    stores[lp.split("->")[-1]] = (nd, path(a.kids[1]))
    if set(stores) != {"currentoffset", "currentbucket"}:
        raise AnalysisError("anchor vanished: cursor commit of BTreeItems_seek (%s)" % sorted(stores))
    off = stores["currentoffset"][1]
    bkt = stores["currentbucket"][1]
    if off is None or bkt is None:
        raise AnalysisError("BTreeItems_seek commits a non-variable position")

    CASES = ("negative", "in range", "at or beyond len")
    commit = stores["currentoffset"][0]

    # ---- a local that holds the committed bucket's current len ---------------------
    # `n = bkt->len`, or `helper(bkt, &n, ..)` where the helper stores its bucket
    # parameter's len through that out-parameter on every path that does not
    # return a failure: the local stands for bkt->len at a test when every
    # definition of it that reaches the test is of this kind and the bucket
    # variable was not reassigned in between.
    def defs_of(nd, var):
        """does this node (re)define the local `var`?"""
        if nd.e is None:
            return False
        for a in nd.e.walk():
            if a.k in ("BinaryOperator", "CompoundAssignOperator") and (a.v == "=" or a.k == "CompoundAssignOperator") \
                    and path(a.kids[0]) == var:
                return True
            if a.k == "UnaryOperator" and a.v in ("++", "--", "post++", "post--", "pre++", "pre--", "&") \
                    and path(a.kids[0]) == var:
                return True
            if a.k == "VarDecl" and a.n == var:
                return True
        return False

    def reaching(var):
        """{node id: set of ids of the nodes defining var that reach its entry}"""
        IN = {cfg.entry.id: frozenset()}
        work = [cfg.entry]
        while work:
            nd = work.pop()
            cur = IN[nd.id]
            o = frozenset([nd.id]) if defs_of(nd, var) else cur
            for _, s2 in nd.succ:
                old = IN.get(s2.id)
                new = o if old is None else old | o
                if new != old:
                    IN[s2.id] = new
                    work.append(s2)
        return IN
    by_id = dict((nd.id, nd) for nd in live)
    rd_cache = {}

    def helper_stores_len(call, var):
        """call f(.., bkt, .., &var, ..): f stores <bucket parameter>->len through
        the parameter bound to &var, as a top-level statement, and returns a
        negative constant on every return before it"""
        c = callee(call)
        if c[0] != "fn" or c[1] not in tu.funcs or tu.body(c[1]) is None:
            return False
        params = [p.n for p in tu.params(c[1])]
        args = call.kids[1:]
        bpar = opar = None
        for pn, a in zip(params, args):
            a0 = strip(a)
            if path(a0) == bkt:
                bpar = pn
            if a0 is not None and a0.k == "UnaryOperator" and a0.v == "&" and path(a0.kids[0]) == var:
                opar = pn
        if bpar is None or opar is None:
            return False
        for st in tu.body(c[1]).kids:
            for r in st.walk():
                if r.k == "ReturnStmt":
                    v = const_int(r.kids[0]) if r.kids else None
                    if v is None or v >= 0:
                        return False
            x = strip(st)
            if x is not None and x.k == "BinaryOperator" and x.v == "=":
                l0, r0 = strip(x.kids[0]), strip(x.kids[1])
                if l0 is not None and l0.k == "UnaryOperator" and l0.v == "*" and path(l0.kids[0]) == opar and \
                        r0 is not None and r0.k == "MemberExpr" and r0.n == "len" and path(r0.kids[0]) == bpar:
                    return True
        return False

    def holds_len(var, g):
        if var == off or var == bkt:
            return False
        for v2 in (var, bkt):
            if v2 not in rd_cache:
                rd_cache[v2] = reaching(v2)
        ds = rd_cache[var].get(g.id, frozenset())
        if not ds:
            return False
        for d in ds:
            nd = by_id.get(d)
            if nd is None or nd.e is None:
                return False
            good = False
            for a in nd.e.walk():
                if a.k == "BinaryOperator" and a.v == "=" and path(a.kids[0]) == var:
                    r0 = strip(a.kids[1])
                    good = r0 is not None and r0.k == "MemberExpr" and r0.n == "len" and path(r0.kids[0]) == bkt
                elif a.k == "CallExpr" and helper_stores_len(a, var):
                    # the failing call must not reach the commit
                    e0 = strip(nd.e)
                    if nd.kind == "branch" and e0 is not None and e0.k == "BinaryOperator" and e0.v == "<" and \
                            const_int(e0.kids[1]) == 0 and strip(e0.kids[0]) is a:
                        fs = [s2 for l, s2 in nd.succ if l == "T"]
                        good = bool(fs) and commit.id not in reach(fs[0], nd)
            if not good:
                return False
            # the same bucket at the definition and at the test
            if rd_cache[bkt].get(d, frozenset()) != rd_cache[bkt].get(g.id, frozenset()) or defs_of(nd, bkt):
                return False
        return True
    cur_g = [None]

    def truth(e, case):
        """value of expression e when the offset is in the given case, or None
        when e is not about the offset"""
        e = strip(e)
        if e is None:
            return None
        if e.k == "ParenExpr":
            return truth(e.kids[0], case)
        if e.k == "UnaryOperator" and e.v == "!":
            v = truth(e.kids[0], case)
            return None if v is None else not v
        if e.k == "BinaryOperator" and e.v in ("&&", "||"):
            a, b = truth(e.kids[0], case), truth(e.kids[1], case)
            if a is None or b is None:
                return None
            return (a and b) if e.v == "&&" else (a or b)
        if e.k == "BinaryOperator" and e.v in ("<", ">=", ">", "<="):
            a, b = strip(e.kids[0]), strip(e.kids[1])
            op = e.v
            if path(b) == off and path(a) != off:
                a, b = b, a
                op = {"<": ">", ">": "<", "<=": ">=", ">=": "<="}[op]
            if path(a) != off:
                return None
            if const_int(b) == 0:
                neg = case == "negative"
                return {"<": neg, ">=": not neg, "<=": None, ">": None}[op]
            if b is not None and ((b.k == "MemberExpr" and b.n == "len" and path(b.kids[0]) == bkt) or
                                  (b.k == "DeclRefExpr" and cur_g[0] is not None and holds_len(b.n, cur_g[0]))):
                big = case == "at or beyond len"
                return {">=": big, "<": not big, ">": None, "<=": None}[op]
            if b is not None and b.k == "BinaryOperator" and b.v == "-" and const_int(b.kids[1]) == 1:
                bb = strip(b.kids[0])
                if bb is not None and bb.k == "MemberExpr" and bb.n == "len" and path(bb.kids[0]) == bkt:
                    big = case == "at or beyond len"
                    return {">": big, "<=": not big, ">=": None, "<": None}[op]
        return None

    def reach(start, stop):
        seen, st = set(), [start]
        while st:
            q = st.pop()
            if q.id in seen or q is stop:
                continue
            seen.add(q.id)
            st.extend(s2 for _, s2 in q.succ)
        return seen
    findings = []
    # for each case of the offset: is the commit reachable?  A dominating
    # branch whose condition (directly, or through a flag computed from such a
    # condition) has a definite value in that case and whose corresponding edge
    # cannot reach the commit excludes the case.
    excluded = set()
    for g in live:
        if g.kind != "branch" or g.e is None or g.id not in dom[commit.id]:
            continue
        e = strip(g.e)
        exprs = [g.e]
        neg_flag = False
        while e is not None and e.k == "UnaryOperator" and e.v == "!":
            neg_flag = not neg_flag
            e = strip(e.kids[0])
        is_flag = e is not None and e.k == "DeclRefExpr"
        if is_flag:
            exprs = []
            for x in fn.walk():
                if x.k == "BinaryOperator" and x.v == "=" and path(x.kids[0]) == e.n:
                    exprs.append(x.kids[1])
                elif x.k == "VarDecl" and x.n == e.n and x.kids and x.kids[-1].k != "Absent":
                    exprs.append(x.kids[-1])
            if not exprs:
                continue
        cur_g[0] = None if is_flag else g
        for case in CASES:
            vals = [truth(x, case) for x in exprs]
            if any(v is None for v in vals) or len(set(vals)) != 1:
                continue
            v = vals[0]
            if is_flag and neg_flag:
                v = not v
            fs = [s2 for l, s2 in g.succ if l == ("T" if v else "F")]
            if fs and commit.id not in reach(fs[0], g):
                excluded.add(case)
    ok_lo = "negative" in excluded
    ok_up = "at or beyond len" in excluded
    if not (ok_lo and ok_up):
        findings.append(dict(
            rule="INDEX-GUARD", function="BTreeItems_seek", file=fn.f, line=commit.line,
            construct="cursor position committed without `%s%s` test" % (
                "" if ok_lo else "%s < 0 || " % off, "" if ok_up else "%s >= %s->len" % (off, bkt)),
            detail="BTreeItems_seek stores (%s, %s) as the sequence's finger "
                   "and reports success; its callers subscript the bucket "
                   "with that offset without a test of their own. The bucket "
                   "may have shrunk since the finger was parked, so the "
                   "offset has to be tested against the bucket's current len "
                   "(not its capacity) before it is committed" % (bkt, off), path=[]))
    return dict(findings=findings, n=2)


def cursor_exc(tu):
    """exceptions raised in the cursor functions are RuntimeError/IndexError"""
    findings = []
    n = 0
    for name in ("BTreeItems_seek", "BTreeIter_next", "BTreeItems_item"):
        fn = tu.func(name)
        for c in fn.walk():
            if c.k == "CallExpr" and callee(c)[0] == "fn" and \
                    callee(c)[1] in ("PyErr_SetString", "PyErr_SetObject", "PyErr_Format"):
                n += 1
                ex = text(strip(c.kids[1]))
                if ex not in ("PyExc_RuntimeError", "PyExc_IndexError"):
                    findings.append(dict(
                        rule="CURSOR-EXC", function=name, file=c.f, line=c.l,
                        construct="%s raises %s" % (name, ex),
                        detail="a step of an iteration disturbed by a mutation "
                               "may only raise RuntimeError or IndexError", path=[]))
    return dict(findings=findings, n=n)


class NextNull(Analysis):
    """nx:<var> -> origin : var holds a value loaded from a `next` link and has
    not been NULL-tested since."""

    def __init__(self, cfg, tu, ptypes):
        self.ptypes = ptypes
        Analysis.__init__(self, cfg, tu)
        self.reports = []
        self._seen = set()
        self.loads = set()
        self.live = self._flag_liveness()

    def extra_uses(self, node):
        out = set()
        e = node.e
        if e is None:
            return out
        for n in e.walk():
            if n.k == "MemberExpr" and n.v == "->":
                b = strip(n.kids[0])
                if b is not None and b.k == "DeclRefExpr":
                    out.add(b.n)
        return out

    def _deref(self, node, st, e):
        for n in e.walk():
            if n.k == "MemberExpr" and n.v == "->":
                b = strip(n.kids[0])
                if b is not None and b.k == "DeclRefExpr":
                    o = sget(st, "nx:" + b.n)
                    if o is not None and sget(st, "f:" + b.n) != "NN":
                        key = (node.id, b.n)
                        if key not in self._seen:
                            self._seen.add(key)
                            self.reports.append((node, st, b.n, o))

    def on_node(self, node, st):
        e = node.e
        if e is None:
            return [st]
        # dereferences happen with the value the variable has *before* the
        # assignments of this node, except for `x = x->next` (rhs evaluated first)
        self._deref(node, st, e)
        for n in e.walk():
            lhs = rhs = None
            if n.k == "BinaryOperator" and n.v == "=":
                lhs, rhs = strip(n.kids[0]), n.kids[1]
            elif n.k == "VarDecl" and n.kids and n.kids[-1].k != "Absent":
                lhs, rhs = n, n.kids[-1]
            if lhs is None or lhs.k not in ("DeclRefExpr", "VarDecl"):
                continue
            r0 = strip(rhs)
            if r0 is not None and r0.k == "MemberExpr" and r0.n == "next" and r0.v == "->" and \
                    (r0.kids[0].t or "") in self.ptypes:
                st = sset(st, "nx:" + lhs.n, node.where)
                self.loads.add(node.id)
            else:
                src = r0.n if (r0 is not None and r0.k == "DeclRefExpr") else None
                if src is not None and sget(st, "nx:" + src) is not None and \
                        sget(st, "f:" + src) != "NN":
                    st = sset(st, "nx:" + lhs.n, sget(st, "nx:" + src))
                else:
                    st = sdel(st, "nx:" + lhs.n)
        return [st]

    def on_edge(self, node, label, st):
        # a unit ACQ on the variable dereferences it
        if node.unit is not None and node.unit[0] == "ACQ":
            x = strip(node.unit[1])
            if x is not None and x.k == "DeclRefExpr":
                o = sget(st, "nx:" + x.n)
                if o is not None and sget(st, "f:" + x.n) != "NN":
                    key = (node.id, x.n)
                    if key not in self._seen:
                        self._seen.add(key)
                        self.reports.append((node, st, x.n, o))
        return st


# No accepted idiom is left: BTree_rangeSearch used to follow the first leaf's
# successor under "self->len >= 2" (root child count); that guard turned out to
# be the wrong one (fix bc6c5e4) and the successor is now NULL-tested itself.
NEXT_NULL_ACCEPTED = {}


def next_null(tu):
    from . import pins
    ptypes = pins.persistent_types(tu)
    findings = []
    loads = 0
    for name in tu.order:
        fn = tu.funcs[name]
        if not any(n.k == "MemberExpr" and n.n == "next" and (n.kids[0].t or "") in ptypes
                   for n in fn.walk()):
            continue
        an = NextNull(CFG(fn), tu, ptypes)
        an.solve()
        loads += len(an.loads)
        for node, st, var, origin in an.reports:
            if (name, var) in NEXT_NULL_ACCEPTED:
                continue
            findings.append(dict(
                rule="NEXT-NULL", function=name, file=node.where.split(":")[0], line=node.line,
                construct="%s (loaded from ->next) dereferenced without NULL test" % var,
                detail="%s was loaded from a leaf's next link at %s and is "
                       "dereferenced on a path without a NULL test: when the "
                       "chain ends earlier than expected (leaf unlinked "
                       "under the cursor) this dereferences NULL" % (var, origin),
                path=witness_lines(an.witness(node, st))))
    return dict(findings=findings, loads=loads)
