"""Structural rules around the set algebra (C10):

OP-WIRING      operator slots / dunder methods reach the documented function
ALIAS-GUARD    in-place difference / symmetric difference test `other is self`
               before iterating the operand while mutating self
FRESH-ONLY     set-operation code applies mutating APIs only to objects it
               created itself (never to an operand)
OPERAND-ADAPT  arbitrary iterables are sorted AND made duplicate-free before
               they feed the merge loop
"""
import ast

from ..cir import strip, path, callee, text, const_int
from ..common import AnalysisError, SRC
from .. import pyfront, ctables, callgraph

REL = SRC + "/_base.py"

SLOT_TARGET = {"nb_subtract": "difference_m", "nb_or": "union_m", "nb_and": "intersection_m"}
ALL_OPS = set(SLOT_TARGET.values())
MUTATORS = {"PyList_Sort": 0, "PyList_Append": 0, "PyList_SetItem": 0, "PyList_SetSlice": 0,
            "PyList_Reverse": 0, "PyObject_SetItem": 0, "PyDict_SetItem": 0,
            "PyObject_DelItem": 0, "PyList_Insert": 0}
FRESH = ("PySequence_List", "PyList_New", "PyObject_CallObject", "PySet_New", "PyDict_New",
         "PyTuple_New")
SETOP_FILES = ("src/BTrees/SetOpTemplate.c",)


def c_rules(tu):
    findings = []
    stats = {"slots": 0, "inplace": 0, "mutator_calls": 0, "adapters": 0}
    g = callgraph.build(tu)
    types = ctables.type_objects(tu)
    # ---- OP-WIRING ---------------------------------------------------------------
    for tname in ("BucketType", "SetType", "BTreeType", "TreeSetType"):
        slots = types.get(tname)
        if slots is None:
            raise AnalysisError("anchor vanished: %s" % tname)
        for slot, want in SLOT_TARGET.items():
            v = slots.get(slot)
            stats["slots"] += 1
            if not v or v[0] != "fn":
                findings.append(dict(
                    rule="OP-WIRING", function=tname, file=tu.stub, line=1,
                    construct="%s.%s not set" % (tname, slot),
                    detail="the %s operator of %s is no longer wired" % (slot, tname), path=[]))
                continue
            r = callgraph.reach(g, v[1])
            hit = ALL_OPS & r
            if hit != {want}:
                findings.append(dict(
                    rule="OP-WIRING", function=v[1], file=tu.funcs[v[1]].f, line=tu.funcs[v[1]].l,
                    construct="%s.%s -> %s reaches %s (expected %s)" % (tname, slot, v[1], sorted(hit), want),
                    detail="operator slot %s of %s must compute %s" % (slot, tname, want), path=[]))
        if tname in ("SetType", "TreeSetType"):
            for slot in ("nb_xor", "nb_inplace_subtract", "nb_inplace_and", "nb_inplace_xor", "nb_inplace_or"):
                stats["slots"] += 1
                if not slots.get(slot):
                    findings.append(dict(
                        rule="OP-WIRING", function=tname, file=tu.stub, line=1,
                        construct="%s.%s not set" % (tname, slot),
                        detail="the %s operator of %s is no longer wired" % (slot, tname), path=[]))
            v = slots.get("nb_xor")
            if v and v[0] == "fn":
                r = callgraph.reach(g, v[1])
                fnx = tu.funcs[v[1]]
                nset = sum(1 for x in fnx.walk() if x.k == "CallExpr" and callee(x) == ("fn", "PySet_New"))
                builtin_xor = "ext:PyNumber_Xor" in r and nset >= 2
                if not (builtin_xor or {"ext:PyNumber_Subtract", "ext:PyNumber_Or"} <= r or
                        {"difference_m", "union_m"} <= r):
                    findings.append(dict(
                        rule="OP-WIRING", function=v[1], file=tu.funcs[v[1]].f, line=tu.funcs[v[1]].l,
                        construct="%s.nb_xor -> %s is not (a-b)|(b-a)" % (tname, v[1]),
                        detail="symmetric difference must be computed from two "
                               "differences and a union", path=[]))
            # ---- ALIAS-GUARD ---------------------------------------------------
            for slot in ("nb_inplace_subtract", "nb_inplace_xor"):
                v = slots.get(slot)
                if not v or v[0] != "fn":
                    continue
                stats["inplace"] += 1
                fn = tu.func(v[1])
                params = [k.n for k in fn.kids if k.k == "ParmVarDecl"]
                ok = False
                # the guard is needed only where a loop draws elements from the
                # operand and modifies self in the same pass
                def _mutating_draw(lp):
                    draws = any(x.k == "CallExpr" and callee(x) == ("fn", "PyIter_Next") for x in lp.walk())
                    muts = any(x.k == "CallExpr" and callee(x)[0] == "fn" and
                               callee(x)[1] in ("_bucket_set", "_BTree_set", "bucket_clear", "BTree_clear")
                               for x in lp.walk())
                    return draws and muts
                if not any(_mutating_draw(lp) for lp in fn.walk()
                           if lp.k in ("WhileStmt", "ForStmt", "DoStmt")):
                    continue
                for n in fn.walk():
                    if n.k == "IfStmt":
                        c = strip(n.kids[0])
                        if c.k == "BinaryOperator" and c.v == "==" and \
                                {path(c.kids[0]), path(c.kids[1])} == set(params[:2]):
                            then_iter = any(x.k == "CallExpr" and callee(x) == ("fn", "PyObject_GetIter")
                                            for x in n.kids[1].walk())
                            else_iter = len(n.kids) > 2 and any(
                                x.k == "CallExpr" and callee(x) == ("fn", "PyObject_GetIter")
                                for x in n.kids[2].walk())
                            outside = sum(1 for x in fn.walk() if x.k == "CallExpr" and
                                          callee(x) == ("fn", "PyObject_GetIter"))
                            inside = sum(1 for x in n.walk() if x.k == "CallExpr" and
                                         callee(x) == ("fn", "PyObject_GetIter"))
                            if not then_iter and else_iter and outside == inside:
                                ok = True
                if not ok:
                    findings.append(dict(
                        rule="ALIAS-GUARD", function=v[1], file=fn.f, line=fn.l,
                        construct="%s iterates its operand without an `other == self` guard" % v[1],
                        detail="s %s s must empty the set; iterating self "
                               "while removing from it skips elements" % (
                                   "-=" if "subtract" in slot else "^="), path=[]))
            # ---- INPLACE-MONOTONE ----------------------------------------------
            # a loop of an in-place operator may only add to self or only
            # remove from self: a loop that does both (direction chosen by
            # membership in the container it is modifying) toggles an element
            # once per occurrence in the operand
            for slot in ("nb_inplace_subtract", "nb_inplace_xor", "nb_inplace_or", "nb_inplace_and"):
                v = slots.get(slot)
                if not v or v[0] != "fn":
                    continue
                fn = tu.func(v[1])
                for lp in fn.walk():
                    if lp.k not in ("WhileStmt", "ForStmt", "DoStmt"):
                        continue
                    kinds = set()
                    for x in lp.walk():
                        if x.k == "CallExpr" and callee(x)[0] == "fn" and \
                                callee(x)[1] in ("_bucket_set", "_BTree_set") and len(x.kids) > 3:
                            a = strip(x.kids[3])
                            stats["inplace_loop_mutations"] = stats.get("inplace_loop_mutations", 0) + 1
                            if a is not None and a.k == "ConditionalOperator":
                                kinds |= {"add", "remove"}
                            elif const_int(a) == 0:
                                kinds.add("remove")
                            else:
                                kinds.add("add")
                    if kinds == {"add", "remove"}:
                        findings.append(dict(
                            rule="INPLACE-MONOTONE", function=v[1], file=fn.f, line=lp.l,
                            construct="one loop of %s both adds to and removes from self" % v[1],
                            detail="the loop decides per element, against the "
                                   "contents it has already modified, whether to "
                                   "add or to remove: an element that occurs "
                                   "twice in the operand is toggled twice "
                                   "(s ^= [1, 1] leaves s unchanged instead of "
                                   "adding 1). Decide against the original "
                                   "contents first, then apply", path=[]))
            # ---- INPLACE-REPLACE ------------------------------------------------
            # &= rebuilds the container from the kept keys; the rebuild has to
            # happen on every path that reports success (the number of hits
            # says nothing about the number of distinct keys kept)
            v = slots.get("nb_inplace_and")
            if v and v[0] == "fn":
                from ..cfg import CFG
                fn = tu.func(v[1])
                cfg = CFG(fn)
                dom = cfg.dominators()
                params = [k.n for k in fn.kids if k.k == "ParmVarDecl"]
                rebuild = [nd for nd in cfg.live_nodes() if nd.e is not None and any(
                    x.k == "CallExpr" and callee(x)[0] == "fn" and callee(x)[1] in (
                        "_Set_update", "_TreeSet_update", "update_from_seq") and len(x.kids) > 1
                    and path(x.kids[1]) == params[0] for x in nd.e.walk())]
                succ = [nd for nd in cfg.live_nodes() if nd.e is not None and any(
                    x.k == "BinaryOperator" and x.v == "=" and path(x.kids[0]) == "result"
                    and path(x.kids[1]) == params[0] for x in nd.e.walk())]
                stats["inplace_and_results"] = stats.get("inplace_and_results", 0) + len(succ)
                if not succ or not rebuild:
                    raise AnalysisError("anchor vanished: rebuild / success result of %s" % v[1])
                for sn in succ:
                    if not any(r.id in dom[sn.id] for r in rebuild):
                        findings.append(dict(
                            rule="INPLACE-REPLACE", function=v[1], file=fn.f, line=sn.line,
                            construct="%s reports success on a path that skips the rebuild" % v[1],
                            detail="`s &= other` returns self without having "
                                   "replaced the contents by the kept keys on "
                                   "this path; whether anything has to go "
                                   "cannot be told from counts (the operand "
                                   "may repeat elements)", path=[]))
    # ---- FRESH-ONLY ----------------------------------------------------------------
    for name, fn in tu.funcs.items():
        if fn.f not in SETOP_FILES:
            continue
        for n in fn.walk():
            if n.k != "CallExpr":
                continue
            c = callee(n)
            if c[0] != "fn" or c[1] not in MUTATORS:
                continue
            stats["mutator_calls"] += 1
            a = strip(n.kids[1 + MUTATORS[c[1]]])
            v = path(a)
            fresh = False
            if a.k == "DeclRefExpr" and a.rk == "VarDecl":
                defs = []
                for m in fn.walk():
                    if m.k == "BinaryOperator" and m.v == "=" and path(m.kids[0]) == v:
                        defs.append(m.kids[1])
                    elif m.k == "VarDecl" and m.n == v and m.kids and m.kids[-1].k != "Absent":
                        defs.append(m.kids[-1])
                fresh = bool(defs) and all(
                    (strip(d).k == "CallExpr" and callee(strip(d))[0] == "fn" and
                     callee(strip(d))[1] in FRESH) or const_int(d) == 0 for d in defs)
            if not fresh:
                findings.append(dict(
                    rule="FRESH-ONLY", function=name, file=n.f, line=n.l,
                    construct="%s(%s) on an object not created here" % (c[1], v),
                    detail="%s modifies %s, which is (or may be) an operand of "
                           "the set operation: operands that are not the "
                           "in-place target must never be modified" % (c[1], v), path=[]))
    # ---- OPERAND-ADAPT ---------------------------------------------------------------
    isi = tu.func("initSetIteration")
    sorts = [n for n in isi.walk() if n.k == "CallExpr" and callee(n) == ("fn", "PyList_Sort")]
    stats["adapters"] = len(sorts)
    if not sorts:
        findings.append(dict(
            rule="OPERAND-ADAPT", function="initSetIteration", file=isi.f, line=isi.l,
            construct="generic iterable adapter does not sort",
            detail="arbitrary iterables must be sorted before they feed the "
                   "merge loop", path=[]))
    dedupe = any(n.k == "CallExpr" and callee(n)[0] == "fn" and
                 callee(n)[1] in ("PySet_New", "PyDict_New", "PyDict_Keys", "PyDict_SetItem")
                 for n in isi.walk())
    nxt = tu.funcs.get("nextGenericKeyIter")

    def _eq_loop(fn):
        """a loop that compares elements for equality (skip / squeeze duplicates)"""
        for lp in fn.walk():
            if lp.k in ("WhileStmt", "DoStmt", "ForStmt"):
                for n in lp.walk():
                    if n.k == "CallExpr" and callee(n) == ("fn", "PyObject_RichCompareBool") \
                            and len(n.kids) > 3 and const_int(n.kids[3]) == 2:     # Py_EQ
                        return True
        return False
    if not dedupe:
        dedupe = _eq_loop(isi) or (nxt is not None and _eq_loop(nxt))
    if sorts and not dedupe:
        findings.append(dict(
            rule="OPERAND-ADAPT", function="initSetIteration", file=sorts[0].f, line=sorts[0].l,
            construct="generic iterable adapter keeps duplicates",
            detail="an arbitrary iterable is sorted but equal elements are "
                   "kept, so the merge loop receives a non-strictly-increasing "
                   "sequence and the result contains duplicate keys", path=[]))
    return dict(findings=findings, stats=stats)


# ---------------------------------------------------------------------------

def _calls_named(node, name):
    return [n for n in ast.walk(node) if isinstance(n, ast.Call) and
            isinstance(n.func, ast.Name) and n.func.id == name]


def py_rules(res):
    tree = pyfront.base_py()
    cls = pyfront.classes(tree)
    am = cls.get("_ArithmeticMixin")
    if am is None:
        raise AnalysisError("anchor vanished: _ArithmeticMixin")
    mem = pyfront.class_members(am)
    want = {"__sub__": "difference", "__or__": "union", "__and__": "intersection",
            "__rsub__": "difference"}
    n = 0
    for m, fn_name in want.items():
        n += 1
        f = mem.get(m)
        if not isinstance(f, ast.FunctionDef):
            res.findings.add(dict(rule="OP-WIRING", function="_ArithmeticMixin.%s" % m, file=REL,
                                  line=am.lineno, construct="%s missing" % m,
                                  detail="operator %s is no longer defined" % m, path=[]))
            continue
        called = set(c.func.id for c in ast.walk(f) if isinstance(c, ast.Call)
                     and isinstance(c.func, ast.Name)) & {"difference", "union", "intersection"}
        if called != {fn_name}:
            res.findings.add(dict(rule="OP-WIRING", function="_ArithmeticMixin.%s" % m, file=REL,
                                  line=f.lineno, construct="%s calls %s (expected %s)" % (m, sorted(called), fn_name),
                                  detail="operator %s must compute %s" % (m, fn_name), path=[]))
        if m in ("__sub__", "__or__", "__and__") and not f.name.startswith("__r"):
            c = _calls_named(f, fn_name)
            if c and len(c[0].args) == 3:
                a1, a2 = pyfront.unparse(c[0].args[1]), pyfront.unparse(c[0].args[2])
                if (a1, a2) != ("self", "other"):
                    res.findings.add(dict(rule="OP-WIRING", function="_ArithmeticMixin.%s" % m, file=REL,
                                          line=f.lineno, construct="%s passes (%s, %s)" % (m, a1, a2),
                                          detail="operands must be passed as (self, other)", path=[]))
    for alias, target in (("__ror__", "__or__"), ("__rand__", "__and__"), ("__rxor__", "__xor__")):
        n += 1
        a = mem.get(alias)
        if not (isinstance(a, tuple) and a[0] == "alias" and a[1] == target):
            res.findings.add(dict(rule="OP-WIRING", function="_ArithmeticMixin.%s" % alias, file=REL,
                                  line=am.lineno, construct="%s is not %s" % (alias, target),
                                  detail="reflected operator must be the same function (the operation is commutative)", path=[]))
    x = mem.get("__xor__")
    n += 1
    def _is_xor(fn):
        if not isinstance(fn, ast.FunctionDef) or not isinstance(fn.body[-1], ast.Return):
            return False
        e = fn.body[-1].value
        if not (isinstance(e, ast.BinOp) and isinstance(e.op, ast.BitOr)):
            return False
        parts = []
        for side in (e.left, e.right):
            if not (isinstance(side, ast.BinOp) and isinstance(side.op, ast.Sub)):
                return False
            parts.append((pyfront.unparse(side.left), pyfront.unparse(side.right)))
        a = [p.arg for p in fn.args.args]
        return sorted(parts) == sorted([(a[0], a[1]), (a[1], a[0])])
    if not _is_xor(x):
        res.findings.add(dict(rule="OP-WIRING", function="_ArithmeticMixin.__xor__", file=REL,
                              line=am.lineno, construct="__xor__ is not (self - other) | (other - self)",
                              detail="symmetric difference", path=[]))
    res.count("PY-OP-WIRING", n)
    # ALIAS-GUARD
    ms = cls.get("_MutableSetMixin")
    if ms is None:
        raise AnalysisError("anchor vanished: _MutableSetMixin")
    mm = pyfront.class_members(ms)
    k = 0
    for m in ("__isub__", "__ixor__"):
        f = mm.get(m)
        k += 1
        if not isinstance(f, ast.FunctionDef):
            res.findings.add(dict(rule="ALIAS-GUARD", function="_MutableSetMixin.%s" % m, file=REL,
                                  line=ms.lineno, construct="%s missing" % m, detail="in-place operator missing", path=[]))
            continue
        other = f.args.args[1].arg
        ok = False
        loops = [n2 for n2 in ast.walk(f) if isinstance(n2, ast.For) and
                 pyfront.unparse(n2.iter) == other]
        # the guard is needed only where a loop over the operand modifies self
        # in the same pass (iterating self while changing it)
        mutating = [l for l in loops if any(
            isinstance(c, ast.Call) and isinstance(c.func, ast.Attribute) and
            pyfront.unparse(c.func.value) == "self" and
            c.func.attr in ("add", "discard", "remove", "update", "clear", "pop", "insert")
            for c in ast.walk(l))]
        if not mutating:
            continue
        loops = mutating
        for n2 in ast.walk(f):
            if isinstance(n2, ast.If) and pyfront.unparse(n2.test) in (
                    "%s is self" % other, "self is %s" % other):
                in_else = [l for l in loops if any(l is x for b in n2.orelse for x in ast.walk(b))]
                # guard clause: the aliased case returns early, the loops follow
                if n2.body and isinstance(n2.body[-1], (ast.Return, ast.Raise)) and n2 in f.body:
                    after = f.body[f.body.index(n2) + 1:]
                    in_else += [l for l in loops if l not in in_else and
                                any(l is x for b in after for x in ast.walk(b))]
                clears = any(isinstance(c, ast.Call) and pyfront.unparse(c.func) == "self.clear"
                             for b in n2.body for c in ast.walk(b))
                if loops and len(in_else) == len(loops) and clears:
                    ok = True
        if not ok:
            res.findings.add(dict(
                rule="ALIAS-GUARD", function="_MutableSetMixin.%s" % m, file=REL, line=f.lineno,
                construct="%s iterates its operand without an `it is self` guard" % m,
                detail="s %s s must empty the set; iterating self while "
                       "mutating it skips elements or raises" % ("-=" if m == "__isub__" else "^="), path=[]))
    res.count("PY-ALIAS-GUARD", k)
    # INPLACE-MONOTONE / INPLACE-OPERAND (Python)
    k = 0
    ADD, REM = ("add", "update", "insert"), ("discard", "remove", "pop")
    for m in ("__ior__", "__iand__", "__isub__", "__ixor__"):
        f = mm.get(m)
        if not isinstance(f, ast.FunctionDef):
            res.findings.add(dict(rule="OP-WIRING", function="_MutableSetMixin.%s" % m, file=REL,
                                  line=ms.lineno, construct="%s missing" % m, detail="in-place operator missing", path=[]))
            continue
        other = f.args.args[1].arg
        for lp in ast.walk(f):
            if not isinstance(lp, (ast.For, ast.While)):
                continue
            k += 1
            kinds = set()
            for c in ast.walk(lp):
                if isinstance(c, ast.Call) and isinstance(c.func, ast.Attribute) and \
                        pyfront.unparse(c.func.value) == "self":
                    if c.func.attr in ADD:
                        kinds.add("add")
                    elif c.func.attr in REM:
                        kinds.add("remove")
            if kinds == {"add", "remove"}:
                res.findings.add(dict(
                    rule="INPLACE-MONOTONE", function="_MutableSetMixin.%s" % m, file=REL, line=lp.lineno,
                    construct="one loop of %s both adds to and removes from self" % m,
                    detail="the loop decides per element, against the contents "
                           "it has already modified, whether to add or to "
                           "remove: an element that occurs twice in the operand "
                           "is toggled twice. Decide against the original "
                           "contents first, then apply", path=[]))
        # the foreign operand is consumed exactly once: as the iterable of one
        # for loop, as the argument of self.update, or as the operand of a set
        # operator with self; never as the right side of `in` (a one-shot
        # iterator is used up by the first test, a str tests substrings)
        uses = []
        parents = {}
        for n2 in ast.walk(f):
            for ch in ast.iter_child_nodes(n2):
                parents[ch] = n2
        for n2 in ast.walk(f):
            if isinstance(n2, ast.Name) and n2.id == other and isinstance(n2.ctx, ast.Load):
                par = parents.get(n2)
                if isinstance(par, ast.Compare) and all(isinstance(o, (ast.Is, ast.IsNot)) for o in par.ops):
                    continue
                k += 1
                how = None
                if isinstance(par, ast.For) and par.iter is n2:
                    how = "for"
                elif isinstance(par, ast.Call) and pyfront.unparse(par.func) == "self.update" and n2 in par.args:
                    how = "update"
                elif isinstance(par, ast.BinOp) and isinstance(par.op, (ast.Sub, ast.BitOr, ast.BitAnd, ast.BitXor)) \
                        and "self" in (pyfront.unparse(par.left), pyfront.unparse(par.right)):
                    how = "setop"
                uses.append((how, n2))
                if how is None:
                    res.findings.add(dict(
                        rule="INPLACE-OPERAND", function="_MutableSetMixin.%s" % m, file=REL, line=n2.lineno,
                        construct="%s uses its operand in `%s`" % (m, pyfront.unparse(par)[:60]),
                        detail="the operand of an in-place set operator may be any "
                               "iterable, including a one-shot iterator: it has to "
                               "be consumed exactly once (for loop, self.update or "
                               "a set operator with self). A membership test "
                               "against it uses an iterator up and means substring "
                               "search for a str", path=[]))
        if len([u for u in uses if u[0]]) > 1:
            branches = set()
            for how, n2 in uses:
                x, sig = n2, []
                while x in parents:
                    px = parents[x]
                    if isinstance(px, ast.If):
                        sig.append((id(px), "body" if any(x is b or any(x is y for y in ast.walk(b)) for b in px.body) else "else"))
                    x = px
                branches.add(tuple(sig))
            if len(branches) < len([u for u in uses if u[0]]):
                res.findings.add(dict(
                    rule="INPLACE-OPERAND", function="_MutableSetMixin.%s" % m, file=REL, line=f.lineno,
                    construct="%s consumes its operand more than once on a path" % m,
                    detail="a one-shot iterator is empty the second time", path=[]))
    res.count("PY-INPLACE", k)
    # OPERAND-ADAPT (Python): _SetIteration sorts and dedupes arbitrary iterables
    si = cls.get("_SetIteration")
    init = pyfront.class_members(si).get("__init__") if si else None
    if not isinstance(init, ast.FunctionDef):
        raise AnalysisError("anchor vanished: _SetIteration.__init__")
    sorts = [c for c in ast.walk(init) if isinstance(c, ast.Call) and pyfront.unparse(c.func) == "sorted"]
    # the adaptation factored into a module-level function: the call is the sort site,
    # the function's body belongs to the scope that is searched for the de-duplication
    mod_funcs = pyfront.functions(tree)
    helper_scopes = []
    if not sorts:
        for c in ast.walk(init):
            if isinstance(c, ast.Call) and isinstance(c.func, ast.Name) and c.func.id in mod_funcs:
                hf = mod_funcs[c.func.id]
                inner = [x for x in ast.walk(hf) if isinstance(x, ast.Call) and pyfront.unparse(x.func) == "sorted"]
                if inner:
                    sorts.append(c)
                    helper_scopes.append((hf, inner[0]))
    res.count("PY-OPERAND-ADAPT", max(1, len(sorts)))
    if not sorts:
        res.findings.add(dict(rule="OPERAND-ADAPT", function="_SetIteration.__init__", file=REL,
                              line=init.lineno, construct="generic iterable adapter does not sort",
                              detail="arbitrary iterables must be sorted", path=[]))
    else:
        # the sort is skipped only for containers (classes below _Base): only
        # those are known to iterate in strictly increasing key order
        exempt = []
        for iff in ast.walk(init):
            if isinstance(iff, ast.If) and any(x is sorts[0] for b in iff.body for x in ast.walk(b)):
                test = iff.test
                # a local that names the test (`presorted = isinstance(..)` / `if not presorted:`)
                inner_t = test.operand if isinstance(test, ast.UnaryOp) and isinstance(test.op, ast.Not) else test
                if isinstance(inner_t, ast.Name):
                    ds = [a.value for a in ast.walk(init) if isinstance(a, ast.Assign) and len(a.targets) == 1
                          and isinstance(a.targets[0], ast.Name) and a.targets[0].id == inner_t.id]
                    if len(ds) == 1:
                        test = ds[0]
                for c in ast.walk(test):
                    if isinstance(c, ast.Call) and pyfront.unparse(c.func) == "isinstance" and len(c.args) == 2:
                        t = c.args[1]
                        exempt += [pyfront.unparse(x) for x in (t.elts if isinstance(t, ast.Tuple) else [t])]
        for tname in exempt:
            if tname != "_Base" and "_Base" not in pyfront.mro(tree, tname):
                res.findings.add(dict(
                    rule="OPERAND-ADAPT", function="_SetIteration.__init__", file=REL, line=init.lineno,
                    construct="instances of %s are exempt from sorting" % tname,
                    detail="only the containers (classes below _Base) iterate "
                           "in strictly increasing key order; %s is not one "
                           "of them (e.g. the lazy values() view of a tree is "
                           "a _TreeItems and is unsorted with duplicates)" % tname, path=[]))
        real_sort = helper_scopes[0][1] if helper_scopes else sorts[0]
        arg = pyfront.unparse(real_sort.args[0]) if real_sort.args else ""
        dedupe = "set(" in arg or "fromkeys" in arg or any(
            isinstance(c, ast.Call) and pyfront.unparse(c.func) in ("set", "dict.fromkeys")
            for scope in [init] + [h for h, _ in helper_scopes] for c in ast.walk(scope))
        def _eq_iter(fn):
            for lp in ast.walk(fn):
                if isinstance(lp, (ast.For, ast.While, ast.ListComp, ast.GeneratorExp)):
                    for n2 in ast.walk(lp):
                        if isinstance(n2, ast.Compare) and isinstance(n2.ops[0], (ast.Eq, ast.NotEq)):
                            return True
            return False
        adv = pyfront.class_members(si).get("advance")
        if _eq_iter(init) or (isinstance(adv, ast.FunctionDef) and _eq_iter(adv)) or any(
                _eq_iter(h) for h, _ in helper_scopes):
            dedupe = True
        if not dedupe:
            res.findings.add(dict(
                rule="OPERAND-ADAPT", function="_SetIteration.__init__", file=REL, line=sorts[0].lineno,
                construct="generic iterable adapter keeps duplicates",
                detail="an arbitrary iterable is sorted but equal elements are "
                       "kept, so the result of a set operation can contain "
                       "duplicate keys", path=[]))
    # the sorted copy, never the operand itself
    # names that denote the operand itself: the parameter and plain aliases of
    # it (a list built by sorted()/list()/a literal is a fresh object)
    operand = set(a.arg for a in init.args.args[1:2])
    changed = True
    while changed:
        changed = False
        for a in ast.walk(init):
            if isinstance(a, ast.Assign) and isinstance(a.value, ast.Name) and a.value.id in operand:
                for t in a.targets:
                    if isinstance(t, ast.Name) and t.id not in operand:
                        operand.add(t.id)
                        changed = True
    for c in ast.walk(init):
        if isinstance(c, ast.Call) and isinstance(c.func, ast.Attribute) and \
                c.func.attr in ("sort", "reverse", "append", "remove", "pop", "clear", "extend", "insert") and \
                isinstance(c.func.value, ast.Name) and c.func.value.id in operand:
            res.findings.add(dict(
                rule="FRESH-ONLY", function="_SetIteration.__init__", file=REL, line=c.lineno,
                construct="%s on the operand" % pyfront.unparse(c)[:50],
                detail="the operand of a set operation is modified in place", path=[]))
